"""Executor for C15: drives a real KeychainSqlite3 + TpmFile in a scratch directory.

* fault injection: kc.conn and kc.tpm are replaced by delegating proxies that count the
  *fault points* of an operation (every INSERT/UPDATE/DELETE statement, every commit, and every
  tpm.generate_key / get_signer / delete_key call) and raise at the armed one
  (sqlite3.OperationalError for the database, OSError for the private-key store);
* key generation: RSA keys come from a per-run pool (ndn.security.tpm.tpm_file.RSA is replaced by a
  shim), key ids come from a counter instead of get_random_bytes;
* the projection is computed through the public Mapping API only (list / len / in / [] on the
  keychain, Identity and Key views, has_default_*, default_*(), the documented .is_default attributes)
  plus the file names in the private-key directory.

Model objects are *slots*: identity 'A', key ('A', n), certificate (('A', n), 1|2|3) as in spec/Keychain.tla
(1 self-signed, 2 imported and named after its key, 3 imported and CROSS-FILED: named after another key).
"""
import hashlib, json, os, shutil, sqlite3, tempfile

from harness import tlc

CUSTOM_LOC = '/custom/loc'
_state = {'pool': None, 'patched': False, 'keyid': 0, 'rsa_next': 0}


class InjectedDb(sqlite3.OperationalError):
    pass


class InjectedTpm(OSError):
    pass


class InjectedIo(PermissionError):
    """Raised by the patched file operation *inside* TpmFile (open / os.remove)."""
    pass


# ------------------------------------------------------------------ environment

def _pool_file():
    return os.path.join(tlc.BUILD, 'c15-rsa-pool.json')


def rsa_pool(n):
    """At least n RSA-2048 private keys (DER, hex). Generated once and kept in build/ (scratch)."""
    from Cryptodome.PublicKey import RSA
    if _state['pool'] is None:
        try:
            with open(_pool_file()) as f:
                _state['pool'] = [bytes.fromhex(x) for x in json.load(f)]
        except (OSError, ValueError):
            _state['pool'] = []
    pool = _state['pool']
    grew = False
    while len(pool) < n:
        pool.append(_REAL_RSA_GENERATE(2048).export_key(format='DER', pkcs=1))
        grew = True
    if grew:
        os.makedirs(tlc.BUILD, exist_ok=True)
        tmp = _pool_file() + '.%d.tmp' % os.getpid()
        with open(tmp, 'w') as f:
            json.dump([x.hex() for x in pool], f)
        os.replace(tmp, _pool_file())
    return pool


_REAL_RSA_GENERATE = None


class _RsaShim:
    """Stands in for the Cryptodome RSA module inside tpm_file: generate() serves pooled keys."""
    def __init__(self, real):
        self._real = real

    def generate(self, bits, *a, **kw):
        i = _state['rsa_next']
        _state['rsa_next'] += 1
        return self._real.import_key(rsa_pool(i + 1)[i])

    def __getattr__(self, k):
        return getattr(self._real, k)


def patch_library():
    global _REAL_RSA_GENERATE
    if _state['patched']:
        return
    from ndn.security.tpm import tpm_file, tpm
    _REAL_RSA_GENERATE = tpm_file.RSA.generate
    tpm_file.RSA = _RsaShim(tpm_file.RSA)

    def det_random_bytes(n):
        _state['keyid'] += 1
        return (b'k' + _state['keyid'].to_bytes(n - 1, 'big'))[:n]
    tpm.get_random_bytes = det_random_bytes
    _state['patched'] = True


def scratch_root():
    return '/dev/shm' if os.path.isdir('/dev/shm') and os.access('/dev/shm', os.W_OK) else tlc.BUILD


# ------------------------------------------------------------------ proxies

class Injector:
    def __init__(self):
        self.count = 0
        self.armed = None
        self.fired = False
        self.log = []

    def begin(self, armed=None, mode='call'):
        self.count = 0
        self.armed = armed
        self.mode = mode
        self.fired = False
        self.log = []

    def point(self, kind, exc, tpm=False):
        """Returns True when the call has to be made with the file operations inside TpmFile failing
        (mode 'io'); raises when the call itself fails (mode 'call')."""
        self.count += 1
        self.log.append(kind)
        if self.armed is not None and self.count == self.armed:
            self.armed = None
            if tpm and self.mode == 'io':
                return True
            self.fired = True
            raise exc('injected failure at fault point %d (%s)' % (self.count, kind))
        return False


class _OsShim:
    def __init__(self, real, inj):
        self._real = real
        self._inj = inj

    def remove(self, path, *a, **kw):
        self._inj.fired = True
        raise InjectedIo(13, 'injected: permission denied', path)

    def __getattr__(self, k):
        return getattr(self._real, k)


class _IoFailure:
    """While active, open() and os.remove() as seen by ndn.security.tpm.tpm_file raise PermissionError."""
    def __init__(self, inj):
        self.inj = inj

    def __enter__(self):
        from ndn.security.tpm import tpm_file
        self.mod = tpm_file
        self.real_os = tpm_file.os
        inj = self.inj

        def failing_open(path, *a, **kw):
            inj.fired = True
            raise InjectedIo(13, 'injected: permission denied', path)
        tpm_file.os = _OsShim(self.real_os, inj)
        tpm_file.open = failing_open

    def __exit__(self, *exc):
        self.mod.os = self.real_os
        del self.mod.open
        return False


class ConnProxy:
    def __init__(self, conn, inj):
        self._c = conn
        self._inj = inj

    def execute(self, sql, *args):
        verb = sql.lstrip().split(None, 1)[0].upper()
        if verb in ('INSERT', 'UPDATE', 'DELETE', 'REPLACE'):
            self._inj.point(verb + ' ' + sql.split()[2 if verb != 'UPDATE' else 1], InjectedDb)
        return self._c.execute(sql, *args)

    def commit(self):
        self._inj.point('commit', InjectedDb)
        return self._c.commit()

    def rollback(self):
        return self._c.rollback()

    # `with conn:` = commit on success, roll back on an exception or when the commit fails
    def __enter__(self):
        return self

    def __exit__(self, et, ev, tb):
        if et is None:
            try:
                self.commit()
            except BaseException:
                self._c.rollback()
                raise
        else:
            self._c.rollback()
        return False

    def __getattr__(self, k):
        return getattr(self._c, k)


class TpmProxy:
    def __init__(self, tpm, inj, on_generate):
        self._t = tpm
        self._inj = inj
        self._on_generate = on_generate

    def _run(self, kind, fn):
        if self._inj.point(kind, InjectedTpm, tpm=True):
            with _IoFailure(self._inj):
                return fn()
        return fn()

    def generate_key(self, id_name, key_type='rsa', **kw):
        r = self._run('tpm.generate_key', lambda: self._t.generate_key(id_name, key_type, **kw))
        self._on_generate(r[0], bytes(r[1]), key_type)
        return r

    def get_signer(self, key_name, key_locator_name=None):
        return self._run('tpm.get_signer', lambda: self._t.get_signer(key_name, key_locator_name))

    def delete_key(self, key_name):
        return self._run('tpm.delete_key', lambda: self._t.delete_key(key_name))

    def __getattr__(self, k):
        return getattr(self._t, k)


# ------------------------------------------------------------------ the store under test

def kstr(k):
    return '%s%d' % (k[0], k[1])


def cstr(c):
    return '%s.%d' % (kstr(c[0]), c[1])


class Store:
    """One keychain in a fresh scratch directory, addressed by model slots."""

    def __init__(self, ids):
        from ndn.security import KeychainSqlite3, TpmFile
        from ndn.encoding import Name
        patch_library()
        _state['rsa_next'] = 0
        _state['keyid'] = 0
        self.Name = Name
        self.ids = list(ids)
        self.dir = tempfile.mkdtemp(prefix='c15-', dir=scratch_root())
        self.tpm_dir = os.path.join(self.dir, 'tpm')
        self.pib = os.path.join(self.dir, 'pib.db')
        KeychainSqlite3.initialize(self.pib, 'tpm-file', self.tpm_dir)
        self.inj = Injector()
        self.key = {}        # slot -> {'name': FormalName, 'pub': bytes, 'type': str}
        self.cert = {}       # cert slot -> {'name': FormalName, 'data': bytes}
        self.pending_slot = None
        self._signer_memo = {}
        self._regen = None
        self.held = []       # signer objects handed out earlier, with what they were when obtained
        self.n_cross = 0     # cross-filed certificates made so far (names them, and walks through the peers)
        self.kc = None
        self.open()
        # issuer of imported certificates: a harness-owned key outside the keychain
        if 'issuer' not in _state:
            from Cryptodome.PublicKey import ECC
            from ndn.security.signer.sha256_ecdsa_signer import Sha256WithEcdsaSigner
            _state['issuer'] = Sha256WithEcdsaSigner('/harness/KEY/1', ECC.generate(curve='P-256').export_key(format='DER', use_pkcs8=False))
        self._issuer = _state['issuer']

    # -- life cycle
    def open(self):
        from ndn.security import KeychainSqlite3, TpmFile
        kc = KeychainSqlite3(self.pib, TpmFile(self.tpm_dir))
        kc.conn = ConnProxy(kc.conn, self.inj)
        kc.tpm = TpmProxy(kc.tpm, self.inj, self._generated)
        self.kc = kc

    def close(self):
        if self.kc is not None:
            self.kc.shutdown()
            self.kc = None

    def destroy(self):
        try:
            if self.kc is not None and self.kc.conn is not None:
                self.kc.shutdown()
        except Exception:
            pass
        self.kc = None
        shutil.rmtree(self.dir, ignore_errors=True)

    def _generated(self, key_name, pub, key_type):
        slot = self.pending_slot
        info = {'name': list(key_name), 'pub': pub, 'type': key_type}
        old = self.key.get(slot)
        if old is not None and self.Name.to_bytes(old['name']) == self.Name.to_bytes(key_name) and self._key_listed(slot):
            # a private key was generated under the name of a key that is listed (explicit key_id): the listed
            # key keeps its record unless the call goes on to replace the row as well
            self._regen = (slot, info)
            return
        self.key[slot] = info
        for n in (1, 2, 3):
            self.cert.pop((slot, n), None)

    def _key_listed(self, k):
        try:
            self.kc[self.id_name(k[0])][self.key[k]['name']]
            return True
        except Exception:
            return False

    def check_keypair(self, k):
        """Does the private-key file of slot k fit the public key the store lists for it? (public API:
        a plain TpmFile on the directory signs a probe, the listed key_bits verify it)"""
        from ndn.security import TpmFile
        from ndn.encoding import make_data, MetaInfo, parse_data
        if self.kc is None or k not in self.key:
            return None
        try:
            kv = self.kc[self.id_name(k[0])][self.key[k]['name']]
            signer = TpmFile(self.tpm_dir).get_signer(self.key[k]['name'])
        except KeyError:
            return None
        _, _, _, sig = parse_data(make_data('/probe/c15/pair', MetaInfo(), b'probe', signer=signer))
        return self._verifies({'pub': bytes(kv.key_bits), 'type': self.key[k]['type']}, sig)

    # -- names
    def id_name(self, i):
        # the second identity is named like a key of the first one (an identity name is any name; seed round 7: the key
        # name was derived from a certificate name by searching for the first KEY component)
        if len(self.ids) > 1 and i == self.ids[1]:
            return self.Name.from_str('/id/%s/KEY/%s' % (self.ids[0], i))
        return self.Name.from_str('/id/' + i)

    def key_name(self, k):
        return self.key[k]['name'] if k in self.key else None

    def cert_name(self, c):
        return self.cert[c]['name'] if c in self.cert else None

    def _learn_selfsigned(self, k):
        """After a new_key step: the self-signed certificate's name is whatever the key view lists."""
        if k not in self.key or (k, 1) in self.cert:
            return
        try:
            kv = self.kc[self.id_name(k[0])][self.key[k]['name']]
            names = [n for n in kv]
        except Exception:
            return
        known = {self.Name.to_bytes(v['name']) for cc, v in self.cert.items() if cc[0] == k}
        for n in names:
            if self.Name.to_bytes(n) not in known:
                self.cert[(k, 1)] = {'name': list(n), 'data': bytes(kv[n].data)}
                return

    def _make_import(self, k, slot=2, how='none'):
        """A certificate to be imported under key k.  Slot 2: issued for k (its name extends k's name).
        Slot 3: cross-filed - issued for ANOTHER key: how = 'xkey' one the harness has generated in this store
        (listed, deleted meanwhile, or left by a failed new_key; the peers are walked through in turn),
        'xnone' (or no peer yet) one that never existed, under the name of another identity."""
        from datetime import datetime, timedelta, UTC
        from ndn.app_support.security_v2 import derive_cert
        N = self.Name
        info = self.key[k]
        if slot == 2:
            subject, pub, issuer_id = info['name'], info['pub'], 'imp'
        else:
            own = N.to_bytes(info['name'])
            peers = [p for p in sorted(self.key) if p != k and N.to_bytes(self.key[p]['name']) != own]
            self.n_cross += 1
            peer = None
            if how == 'xkey' and peers:
                peer = peers[self.n_cross % len(peers)]
                subject, pub = self.key[peer]['name'], self.key[peer]['pub']
            else:
                other = self.ids[(self.ids.index(k[0]) + self.n_cross) % len(self.ids)]
                subject = N.normalize(self.id_name(other)) + N.from_str('/KEY/never-%d' % self.n_cross)
                pub = info['pub']
            issuer_id = 'xf%d' % self.n_cross      # certificate names are unique in the store
        name, data = derive_cert(subject, issuer_id, pub, self._issuer, datetime.now(UTC), 3600)
        self.cert[(k, slot)] = {'name': list(name), 'data': bytes(data)}
        if slot != 2:
            self.cert[(k, slot)]['peer'] = peer
        return name, bytes(data)

    # -- operations
    def _second_instance(self):
        from ndn.security import KeychainSqlite3, TpmFile
        if self.kc.conn.in_transaction:
            raise tlc.MachineryError('the model lets the second instance write while this one has a transaction open')
        return KeychainSqlite3(self.pib, TpmFile(self.tpm_dir))

    def call(self, o, fault=None, mode='call'):
        """Perform model operation o (dict with op,i,k,c,t,by,loc). Returns the result dict
        {'out': ok|keyerr|integrity|attrerr|fault|error:<Type>, 'fired': bool, 'issues': [...], + signer observations}."""
        kc = self.kc
        op = o['op']
        via = o['loc'] if op != 'GetSigner' else 'none'
        res = {'out': 'ok', 'issues': []}
        self.inj.begin(fault, mode)
        self._regen = None
        kc2 = None
        N = self.Name
        try:
            if via == 'ext':
                kc2 = self._second_instance()
            if op == 'NewIdentity':
                ret = kc.new_identity(self.id_name(o['i']))
                if N.to_bytes(ret.name) != N.to_bytes(self.id_name(o['i'])):
                    res['issues'].append(('NewIdentity/returned-object', 'new_identity returned another identity'))
            elif op == 'TouchIdentity':
                self.pending_slot = o['k']
                ret = kc.touch_identity(self.id_name(o['i']))
                if N.to_bytes(ret.name) != N.to_bytes(self.id_name(o['i'])):
                    res['issues'].append(('TouchIdentity/returned-object', 'touch_identity returned another identity'))
            elif op == 'NewKey':
                self.pending_slot = o['k']
                kw = {}
                if o['by'] == 'keyid':
                    if o['k'] in self.key:          # the id of a listed key, or of a file left by a failed new_key
                        kw['key_id'] = bytes(self.key[o['k']]['name'][-1])
                    else:
                        _state['keyid'] += 1
                        kid = 'x%d-%d' % (o['k'][1], _state['keyid'])
                        kw['key_id'] = kid if o['k'][1] % 2 else bytes(N.from_str('/' + kid)[0])
                if via == 'view':
                    ret = kc[self.id_name(o['i'])].new_key(o['t'])
                else:
                    ret = kc.new_key(self.id_name(o['i']), key_type=o['t'], **kw)
                if o['k'] not in self.key or N.to_bytes(ret.name) != N.to_bytes(self.key[o['k']]['name']) \
                        or bytes(ret.key_bits) != (self._regen[1] if self._regen else self.key[o['k']])['pub']:
                    res['issues'].append(('NewKey/returned-object', 'new_key returned a key other than the one it generated'))
            elif op == 'ImportCert':
                cs = (tuple(o['k']), o['c'][1] if o['c'][1] else 2)      # no slot named: the own-named one
                if cs in self.cert and self._listed(o['k'], cs):
                    name, data = self.cert[cs]['name'], self.cert[cs]['data']
                else:
                    name, data = self._make_import(tuple(o['k']), cs[1], o['t'])
                kc.import_cert(self.key_name(o['k']), name, data)
            elif op == 'SetDefId':
                kc.set_default_identity(self.id_name(o['i']))
            elif op == 'SetDefKey':
                kc[self.id_name(o['k'][0])].set_default_key(self.key_name(o['k']))
            elif op == 'SetDefCert':
                k = o['c'][0]
                kc[self.id_name(k[0])][self.key_name(k)].set_default_cert(self.cert_name(o['c']))
            elif op == 'DelCert':
                k = o['c'][0]
                if via == 'view':
                    kc[self.id_name(k[0])][self.key_name(k)].del_cert(self.cert_name(o['c']))
                else:
                    (kc2 or kc).del_cert(self.cert_name(o['c']))
            elif op == 'DelKey':
                if via == 'view':
                    kc[self.id_name(o['k'][0])].del_key(self.key_name(o['k']))
                else:
                    (kc2 or kc).del_key(self.key_name(o['k']))
            elif op == 'DelIdentity':
                (kc2 or kc).del_identity(self.id_name(o['i']))
            elif op == 'GetSigner':
                res.update(self._get_signer(o))
            elif op == 'Close':
                self.inj.begin(None)
                self.close()
            else:
                raise ValueError(op)
        except (InjectedDb, InjectedTpm, InjectedIo):
            res['out'] = 'fault'
        except tlc.MachineryError:
            raise
        except KeyError:
            res['out'] = 'keyerr'
        except sqlite3.IntegrityError:
            res['out'] = 'integrity'
        except AttributeError as e:
            res['out'] = 'attrerr'
            res['detail'] = str(e)[:200]
        except Exception as e:  # noqa
            res['out'] = 'error:' + type(e).__name__
            res['detail'] = str(e)[:200]
        finally:
            if kc2 is not None:
                kc2.shutdown()
        res['fired'] = self.inj.fired
        res['points'] = self.inj.count
        res['log'] = list(self.inj.log)
        self.inj.begin(None)
        if self._regen is not None and res['out'] == 'ok':
            slot, info = self._regen
            self.key[slot] = info
            for n in (1, 2, 3):
                self.cert.pop((slot, n), None)
        if op in ('NewKey', 'TouchIdentity') and self.kc is not None:
            self._learn_selfsigned(o['k'])
            if tuple(o['k']) in self.key and self.check_keypair(tuple(o['k'])) is False:
                res['issues'].append(('%s/private-key-mismatch' % op,
                                      'after %s the private-key file of key %s does not fit the public key listed for it'
                                      % (op, kstr(o['k']))))
        self.pending_slot = None
        return res

    def _listed(self, k, c):
        try:
            kv = self.kc[self.id_name(k[0])][self.key_name(k)]
            return self.Name.to_bytes(self.cert_name(c)) in {self.Name.to_bytes(n) for n in kv}
        except Exception:
            return False

    def sign_args(self, o):
        a = {}
        if o['by'] == 'identity':
            a['identity'] = self.id_name(o['i'])
        elif o['by'] == 'key':
            a['key'] = self.key_name(o['k'])
        elif o['by'] == 'cert':
            a['cert'] = self.cert_name(o['c'])
        if o['t'] == 'obj':      # the view objects themselves as signing arguments
            if o['by'] == 'identity':
                a['identity'] = self.kc[self.id_name(o['i'])]
            elif o['by'] == 'key':
                a['key'] = self.kc[self.id_name(o['k'][0])][self.key_name(o['k'])]
            elif o['by'] == 'cert':
                k = o['c'][0]
                a['cert'] = self.kc[self.id_name(k[0])][self.key_name(k)][self.cert_name(o['c'])]
        if o['loc'] == 'custom':
            a['key_locator'] = CUSTOM_LOC
        return a

    def _get_signer(self, o):
        from ndn.encoding import make_data, MetaInfo, parse_data
        signer = self.kc.get_signer(self.sign_args(o))
        wire = make_data('/probe/c15', MetaInfo(), b'probe', signer=signer)
        _, _, _, sig = parse_data(wire)
        loc = sig.signature_info.key_locator.name if sig.signature_info.key_locator is not None else None
        # which generated key verifies the probe? (the key the arguments name is tried first; a signer
        # object already identified keeps its answer - signers are immutable)
        memo = self._signer_memo.get(id(signer))
        if memo is not None and memo[0] is signer:
            signed_by = memo[1]
        else:
            first = tuple(o['k']) if o['by'] == 'key' else tuple(o['c'][0]) if o['by'] == 'cert' else None
            order = ([first] if first in self.key else []) + [k for k in sorted(self.key) if k != first]
            signed_by = []
            for k in order:
                if self._verifies(self.key[k], sig):
                    signed_by = [k]
                    break
            self._signer_memo[id(signer)] = (signer, signed_by)
        out = {'signed_by': signed_by}
        if loc is None:
            out['lt'], out['lc'] = 'missing', None
        elif self.Name.to_bytes(loc) == self.Name.to_bytes(CUSTOM_LOC):
            out['lt'], out['lc'] = 'custom', None
        else:
            lb = self.Name.to_bytes(loc)
            hit = [c for c, v in self.cert.items() if self.Name.to_bytes(v['name']) == lb]
            out['lt'], out['lc'] = ('cert', sorted(hit)[0]) if hit else ('unknown', None)
        if len(signed_by) == 1 and loc is not None:
            self._hold(signer, signed_by[0], bytes(self.Name.to_bytes(loc)))
        return out

    # -- signers kept by the caller: a signer is a value, it must go on signing with the key and naming the
    #    key locator it had when get_signer returned it (as long as that key exists)
    HOLD = 3

    def _hold(self, signer, k, loc_bytes):
        ent = {'signer': signer, 'k': k, 'kname': bytes(self.Name.to_bytes(self.key[k]['name'])), 'loc': loc_bytes}
        for h in self.held:
            if h['signer'] is signer and h['k'] == k and h['loc'] == loc_bytes:
                h['fresh'] = True
                return
        ent['fresh'] = True
        self.held.append(ent)
        del self.held[:-self.HOLD]

    def reprobe(self, only_key=None, listed=None):
        """Sign a probe with every kept signer (of key only_key, if given) and compare verifying key and key
        locator with what they were when the signer was obtained. Returns [(kind, text)]."""
        from ndn.encoding import make_data, MetaInfo, parse_data
        out = []
        keep = []
        for h in self.held:
            k = h['k']
            alive = k in self.key and bytes(self.Name.to_bytes(self.key[k]['name'])) == h['kname'] \
                and (listed is None or k in listed)
            if not alive:
                continue                      # the key is gone (or its slot holds another key): nothing is promised
            fresh = h.pop('fresh', False)
            if fresh or (only_key is not None and k != only_key):
                keep.append(h)                # probed a moment ago by the step that returned it / not concerned
                continue
            _, _, _, sig = parse_data(make_data('/probe/c15/held', MetaInfo(), b'probe', signer=h['signer']))
            loc = sig.signature_info.key_locator.name if sig.signature_info.key_locator is not None else None
            lb = bytes(self.Name.to_bytes(loc)) if loc is not None else b''
            bad = False
            if lb != h['loc']:
                bad = True
                out.append(('key-locator', 'a signer obtained earlier for key %s named %s as key locator when it was returned and now names %s'
                            % (kstr(k), self.Name.to_str(self.Name.from_bytes(h['loc'])),
                               self.Name.to_str(loc) if loc is not None else 'nothing')))
            if not self._verifies(self.key[k], sig):
                bad = True
                out.append(('key', 'a signer obtained earlier for key %s no longer signs with that key' % kstr(k)))
            if not bad:
                keep.append(h)                # unchanged: keep watching it (a changed one is reported once)
        self.held = keep
        return out

    @staticmethod
    def _pub(info):
        from Cryptodome.PublicKey import ECC, RSA
        if 'obj' not in info:
            info['obj'] = ECC.import_key(info['pub']) if info['type'] == 'ec' else RSA.import_key(info['pub'])
        return info['obj']

    @staticmethod
    def _verifies(info, sig):
        from Cryptodome.Hash import SHA256
        from Cryptodome.PublicKey import ECC, RSA
        from Cryptodome.Signature import DSS, pkcs1_15
        h = SHA256.new()
        for part in sig.signature_covered_part:
            h.update(part)
        val = bytes(sig.signature_value_buf)
        try:
            if info['type'] == 'ec':
                DSS.new(Store._pub(info), 'fips-186-3', 'der').verify(h, val)
            else:
                pkcs1_15.new(Store._pub(info)).verify(h, val)
            return True
        except (ValueError, TypeError):
            return False

    # -- projection through the public Mapping API
    def tpm_files(self):
        by_file = {hashlib.sha256(self.Name.to_bytes(v['name'])).hexdigest() + '.privkey': k for k, v in self.key.items()}
        slots, unknown = [], []
        for fn in sorted(os.listdir(self.tpm_dir)):
            if fn in by_file:
                slots.append(by_file[fn])
            else:
                unknown.append(fn)
        return sorted(slots), unknown

    def projection(self):
        """Returns (proj, issues). proj: the store as the Mapping views present it, in slots.
        issues: list of (sig_suffix, text) for views that are not consistent mappings."""
        N = self.Name
        issues = []
        tpm, unknown = self.tpm_files()
        proj = {'tpm': tpm, 'open': self.kc is not None}
        if unknown:
            issues.append(('tpm/unknown-file', 'private-key directory holds files of no generated key: %s' % unknown))
        if self.kc is None:
            return proj, issues
        kc = self.kc
        idb = {N.to_bytes(self.id_name(i)): i for i in self.ids}
        keyb = {N.to_bytes(v['name']): k for k, v in self.key.items()}
        certb = {N.to_bytes(v['name']): c for c, v in self.cert.items()}

        def view(label, v, universe, own_of):
            """Checks iteration = length = membership = lookup on one Mapping view.
            universe: bytes-name -> slot for every name the harness knows (any owner)."""
            it = [N.to_bytes(n) for n in v]
            if len(set(it)) != len(it):
                issues.append((label + '/iter-duplicates', '%s: iteration yields a name twice' % label))
            ln = len(v)
            if ln != len(it):
                issues.append((label + '/len', '%s: len()=%d but iteration yields %d names' % (label, ln, len(it))))
            inside = set()
            for b, slot in universe.items():
                name = N.from_bytes(b)
                has = name in v
                try:
                    item = v[name]
                    got = True
                    if N.to_bytes(item.name) != b:
                        issues.append((label + '/lookup-name', '%s: lookup returned an object with another name' % label))
                except KeyError:
                    got = False
                if has != got:
                    issues.append((label + '/in-vs-getitem', '%s: `in` says %s, [] says %s' % (label, has, got)))
                if got:
                    inside.add(b)
                if got and b not in it:
                    kind = 'foreign' if own_of(slot) is False else 'unlisted'
                    issues.append((label + '/lookup-' + kind, '%s: lookup of %s succeeds but iteration does not list it'
                                   % (label, 'a name owned by another %s' % ('identity' if label == 'Identity' else 'key')
                                      if kind == 'foreign' else 'a name')))
                if not got and b in it:
                    issues.append((label + '/lookup-missing', '%s: iteration lists a name whose lookup raises KeyError' % label))
            extra = [b for b in it if b not in universe]
            if extra:
                issues.append((label + '/iter-unknown', '%s: iteration lists names the harness never created' % label))
            return [universe[b] for b in it if b in universe]

        ids = view('Keychain', kc, idb, lambda s: True)
        proj['ids'] = sorted(ids)
        proj['dI'] = sorted(i for i in ids if kc[self.id_name(i)].is_default)
        hd = kc.has_default_identity()
        try:
            dn = idb.get(N.to_bytes(kc.default_identity().name), '?')
        except KeyError:
            dn = None
        if hd != (dn is not None):
            issues.append(('Keychain/has-default-vs-default', 'has_default_identity()=%s but default_identity() %s' % (hd, 'returns' if dn else 'raises')))
        proj['defI'] = dn
        proj['keys'], proj['dK'], proj['defK'] = [], [], {}
        proj['certs'], proj['dC'], proj['defC'] = [], [], {}
        for i in sorted(ids):
            idv = kc[self.id_name(i)]
            ks = view('Identity', idv, keyb, lambda s, i=i: s[0] == i)
            proj['keys'] += ks
            proj['dK'] += [k for k in ks if idv[self.key_name(k)].is_default]
            hd = idv.has_default_key()
            try:
                dk = keyb.get(N.to_bytes(idv.default_key().name), '?')
            except KeyError:
                dk = None
            if hd != (dk is not None):
                issues.append(('Identity/has-default-vs-default', 'has_default_key() disagrees with default_key()'))
            if dk is not None:
                proj['defK'][i] = dk
            for k in sorted(ks):
                kv = idv[self.key_name(k)]
                if bytes(kv.key_bits) != self.key[k]['pub']:
                    issues.append(('Key/key-bits', 'key view holds other public key bits than generated for it'))
                if N.to_bytes(kv.identity) != N.to_bytes(self.id_name(i)):
                    issues.append(('Key/identity', 'key view names another identity'))
                cs = view('Key', kv, certb, lambda s, k=k: s[0] == k)
                proj['certs'] += cs
                proj['dC'] += [c for c in cs if kv[self.cert_name(c)].is_default]
                for c in cs:
                    co = kv[self.cert_name(c)]
                    if bytes(co.data) != self.cert[c]['data']:
                        issues.append(('Key/cert-data', 'certificate view returns other bytes than stored'))
                    if bytes(N.to_bytes(co.key)) != bytes(N.to_bytes(self.key[k]['name'])):
                        issues.append(('Certificate/key', 'certificate object names another key than the one it was looked up in'))
                hd = kv.has_default_cert()
                try:
                    dc = certb.get(N.to_bytes(kv.default_cert().name), '?')
                except KeyError:
                    dc = None
                if hd != (dc is not None):
                    issues.append(('Key/has-default-vs-default', 'has_default_cert() disagrees with default_cert()'))
                if dc is not None:
                    proj['defC'][k] = dc
        for f in ('keys', 'dK', 'certs', 'dC'):
            proj[f] = sorted(proj[f])
        return proj, issues


def expected_projection(S):
    """The same projection computed from a spec state (parsed TLC value of `st`)."""
    cur = S['cur']
    p = {'tpm': sorted(tuple(k) for k in S['tpm']), 'open': bool(S['open'])}
    if not p['open']:
        return p
    p['ids'] = sorted(str(i) for i in cur['ids'])
    p['dI'] = sorted(str(i) for i in cur['dI'])
    p['keys'] = sorted(tuple(k) for k in cur['keys'])
    p['dK'] = sorted(tuple(k) for k in cur['dK'])
    p['certs'] = sorted((tuple(c[0]), c[1]) for c in cur['certs'])
    p['dC'] = sorted((tuple(c[0]), c[1]) for c in cur['dC'])
    return p


def compare(proj, exp):
    """First differing field between the implementation's projection and the spec's, or None."""
    if proj['open'] != exp['open']:
        return 'open', proj['open'], exp['open']
    for f in ('tpm', 'ids', 'dI', 'keys', 'dK', 'certs', 'dC'):
        if f in exp and proj.get(f) != exp[f]:
            return f, proj.get(f), exp[f]
    if exp['open']:
        # default_*() must name the flagged row
        if (proj['defI'] is not None) != bool(exp['dI']) or (exp['dI'] and proj['defI'] not in exp['dI']):
            return 'default_identity', proj['defI'], exp['dI']
        dk = {k[0]: k for k in exp['dK']}
        if proj['defK'] != dk:
            return 'default_key', proj['defK'], dk
        dc = {c[0]: c for c in exp['dC']}
        if proj['defC'] != dc:
            return 'default_cert', proj['defC'], dc
    return None


def norm_op(o):
    """TLC record -> plain dict with tuples."""
    d = {}
    for f, v in o.items():
        if f == 'k':
            d[f] = (str(v[0]), v[1])
        elif f == 'c':
            d[f] = ((str(v[0][0]), v[0][1]), v[1])
        else:
            d[f] = str(v) if not isinstance(v, (bool, int)) else v
    return d
