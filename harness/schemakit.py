"""Executor for spec/SchemaTree.tla (X02): one ndn.schema static tree on a legacy NDNApp over a fake face, driven
action by action on the virtual loop.  `apply(call)` performs one action of the specification on the real classes,
`project()` returns the observable part of the state in the shape of `expected(state)`.

Model <-> implementation
  component <<type, value>>   Component.from_bytes(value, type); type 50 (segment): from_segment(int(value));
                              type 2 (ParametersSha256Digest): any digest is "#"
  edge / key                  see pat_str(): ('l', 8, 'a') -> 'a', ('l', 32, 'a') -> '32=a', ('p', 8, 'x') -> '<x>',
                              ('p', 32, 'x') -> '<32:x>'
  content [k, e, v]           None | v | b'E' + e + b':' + v    (the test Encryption policies add / strip that prefix)
  policy value                Cache m1 / m2: MemoryCachePolicy over one MemoryCache per id; the other policy types are the
                              small classes below, their value is the attribute `vid`
  signer id                   KeyLocator name /S/<id> written by TagSigner (SignatureType DigestSha256 with a correct
                              digest, so that the library's default validator accepts it); "kc" = the application's
                              keychain signer (DigestSha256 without KeyLocator)
"""
import asyncio as aio
import hashlib
import logging

from harness.vloop import Session
from harness import tlaval

from ndn import app as app1, encoding as enc, types as ndn_types
from ndn.encoding import Name, Component, InterestParam, MetaInfo, SignatureType, KeyLocator
from ndn.encoding.signer import Signer
from ndn.transport.face import Face
from ndn.security import DigestSha256Signer
from ndn.app_support import nfd_mgmt
from ndn.schema import policy
from ndn.schema.schema_tree import Node, NodeExistsError, LocalResourceNotExistError, MatchedNode  # noqa: F401
from ndn.schema.simple_cache import MemoryCache, MemoryCachePolicy
from ndn.schema.simple_node import SegmentedNode, LocalResource

logging.getLogger('ndn').setLevel(logging.CRITICAL)

LIFETIME = 500          # ms, Interest lifetime of every need()
SEG_SIZE = 2            # SegmentedNode.segment_size (bytes)
STEP = 0.005
PTYPES = ['Cache', 'Register', 'LocalOnly', 'DataEnc', 'IntEnc', 'DataSign', 'IntSign', 'DataVal', 'IntVal']
PT = {'Cache': policy.Cache, 'Register': policy.Register, 'LocalOnly': policy.LocalOnly,
      'DataEnc': policy.DataEncryption, 'IntEnc': policy.InterestEncryption, 'DataSign': policy.DataSigning,
      'IntSign': policy.InterestSigning, 'DataVal': policy.DataValidator, 'IntVal': policy.InterestValidator}
NOCONTENT = {'k': 'none', 'e': '', 'v': ''}
NOCOMP = [0, '']
UNCOMPARED = ('hit', 'why')      # fields of res that have no observable counterpart


# ------------------------------------------------------------------ test policies, signer, face

class TagSigner(Signer):
    def __init__(self, tag, good=True):
        self.tag, self.good = tag, good

    def write_signature_info(self, si):
        si.signature_type = SignatureType.DIGEST_SHA256
        si.key_locator = KeyLocator()
        si.key_locator.name = Name.from_str('/S/' + self.tag)

    def get_signature_value_size(self):
        return 32

    def write_signature_value(self, wire, contents):
        h = hashlib.sha256()
        for b in contents:
            h.update(b)
        d = h.digest()
        wire[:] = d if self.good else bytes([d[0] ^ 0x5a]) + d[1:]
        return 32


class BadDigestSigner(DigestSha256Signer):
    def write_signature_value(self, wire, contents):
        super().write_signature_value(wire, contents)
        wire[0] ^= 0x5a
        return 32


class _Enc:
    def __init__(self, vid):
        super().__init__()
        self.vid = vid

    async def encrypt(self, match, content):
        return b'E' + self.vid.encode() + b':' + bytes(content)

    async def decrypt(self, match, content):
        pre = b'E' + self.vid.encode() + b':'
        c = bytes(content)
        return c[len(pre):] if c.startswith(pre) else None


class TDataEnc(_Enc, policy.DataEncryption):
    pass


class TIntEnc(_Enc, policy.InterestEncryption):
    pass


class _Sign:
    def __init__(self, vid):
        super().__init__()
        self.vid = vid

    # NB: policy.Signing declares `async def get_signer`, every caller in schema_tree.py uses the result without await
    def get_signer(self, match):
        return TagSigner(self.vid)


class TDataSign(_Sign, policy.DataSigning):
    pass


class TIntSign(_Sign, policy.InterestSigning):
    pass


class TDataVal(policy.DataValidator):
    def __init__(self, vid):
        super().__init__()
        self.vid = vid

    def get_validator(self, match):
        async def validator(name, sig):
            return self.vid == 'acc'
        return validator


class TIntVal(policy.InterestValidator):
    def __init__(self, vid):
        super().__init__()
        self.vid = vid

    async def validate(self, match, sig_ptrs):
        return self.vid == 'acc'


class TFlag:
    vid = 'on'


class TRegister(TFlag, policy.Register):
    pass


class TLocalOnly(TFlag, policy.LocalOnly):
    pass


class SFace(Face):
    def __init__(self):
        super().__init__()
        self.out = []

    async def open(self):
        self.running = True

    def shutdown(self):
        self.running = False

    def send(self, data):
        self.out.append(bytes(data))

    async def run(self):
        await aio.get_running_loop().create_future()

    def isLocalFace(self):
        return True


class _Keychain:
    def get_signer(self, kwargs):
        return DigestSha256Signer()


# ------------------------------------------------------------------ value conversion

def comp_real(c):
    ty, v = int(c[0]), c[1]
    if ty == Component.TYPE_SEGMENT:
        return bytes(Component.from_segment(int(v)))
    return bytes(Component.from_bytes(v.encode(), ty))


DIGESTS = {}        # digest bytes -> label "#<parameter bytes>/<signer>" of the Interests seen so far (see note_interest)


def val_model(ty, raw):
    raw = bytes(raw)
    if ty == Component.TYPE_SEGMENT:
        return str(int.from_bytes(raw, 'big'))
    if ty == Component.TYPE_PARAMETERS_SHA256:
        return DIGESTS.get(raw, '#?')
    return raw.decode('latin-1')


def comp_model(b):
    b = bytes(b)
    ty = Component.get_type(b)
    return [ty, val_model(ty, Component.get_value(b))]


def env_val(raw):
    """value of a pattern variable (the type of the component is not kept in env)"""
    raw = bytes(raw)
    if len(raw) == 32:
        return DIGESTS.get(raw, '#?')
    if raw and all(0x21 <= x < 0x7f for x in raw):
        return raw.decode()
    return str(int.from_bytes(raw, 'big'))


def name_real(n):
    return [comp_real(c) for c in n]


def name_model(n):
    return [comp_model(c) for c in n]


def key_str(k):
    kind, ty, v = k[0], int(k[1]), k[2]
    if kind == 'l':
        if ty == Component.TYPE_GENERIC:
            return v
        if ty == Component.TYPE_SEGMENT:
            return 'seg=%s' % v
        return '%d=%s' % (ty, v)
    return '<%s>' % v if ty == Component.TYPE_GENERIC else '<%d:%s>' % (ty, v)


def pat_str(ks):
    return '/' + '/'.join(key_str(k) for k in ks)


def content_real(c):
    if c['k'] == 'none':
        return None
    if c['e']:
        return b'E' + c['e'].encode() + b':' + c['v'].encode()
    return c['v'].encode()


def content_model(b):
    if b is None:
        return dict(NOCONTENT)
    b = bytes(b)
    if b == b'':
        return dict(NOCONTENT)
    if b.startswith(b'E') and b':' in b:
        i = b.index(b':')
        return {'k': 'c', 'e': b[1:i].decode(), 'v': b[i + 1:].decode('latin-1')}
    return {'k': 'c', 'e': '', 'v': b.decode('latin-1')}


def digest_ok(sig):
    if sig.signature_info is None or sig.signature_info.signature_type != SignatureType.DIGEST_SHA256:
        return False
    h = hashlib.sha256()
    for b in sig.signature_covered_part:
        h.update(b)
    return h.digest() == bytes(sig.signature_value_buf)


def signer_of(sig, unsigned='none', digest='kc'):
    si = sig.signature_info
    if si is None:
        return unsigned
    if si.key_locator is not None and si.key_locator.name:
        return bytes(Component.get_value(si.key_locator.name[-1])).decode()
    return digest


def data_model(wire):
    name, meta, content, sig = enc.parse_data(wire)
    fbi = comp_model(meta.final_block_id) if meta is not None and meta.final_block_id is not None else list(NOCOMP)
    return {'n': name_model(name), 'c': content_model(content), 's': signer_of(sig), 'ok': digest_ok(sig), 'fbi': fbi}


def interest_model(wire):
    name, param, ap, sig = enc.parse_interest(wire)
    if name and Component.get_type(name[-1]) == Component.TYPE_PARAMETERS_SHA256:
        s = signer_of(sig, digest='digest')
        if s == 'digest' and not digest_ok(sig):
            s = 'bad'
        DIGESTS[bytes(Component.get_value(name[-1]))] = '#' + (bytes(ap).decode('latin-1') if ap is not None else '') + '/' + s
    return {'t': 'I', 'n': name_model(name), 'ap': content_model(ap), 's': signer_of(sig, digest='digest'),
            'cbp': bool(param.can_be_prefix)}


def make_policy(caches, ty, v):
    if ty == 'Cache':
        return MemoryCachePolicy(caches[v])
    return {'Register': lambda v: TRegister(), 'LocalOnly': lambda v: TLocalOnly(), 'DataEnc': TDataEnc, 'IntEnc': TIntEnc,
            'DataSign': TDataSign, 'IntSign': TIntSign, 'DataVal': TDataVal, 'IntVal': TIntVal}[ty](v)


class Unexpected(Exception):
    """the library raised where the model has an ordinary transition (reported as a violation by the caller)"""


# ------------------------------------------------------------------ the run

class Run:
    def __init__(self, init=None, seg_retry=2, cache_ids=('m1', 'm2')):
        self.sess = Session()
        self.sess.__enter__()
        self.loop = self.sess.loop
        self.face = SFace()
        self.app = app1.NDNApp(face=self.face, keychain=_Keychain())
        self.app._prefix_register_semaphore = aio.Semaphore(1)
        self.face.running = True
        self.caches = {c: MemoryCache() for c in cache_ids}
        self.seg_retry = seg_retry
        self.root = Node()
        self.attached = False
        self.reg = []
        self.seen = 0
        self.sent = []
        self.ints = []
        self.pdata = []          # paths of the nodes whose process_data ran during the last action
        self.res = {'op': 'init', 'k': 'ok'}
        self.task = None         # the pending need()
        self.last_int = None     # wire of the Interest it waits for
        self.problems = []
        if init is not None:
            self._build(init)

    def close(self):
        self.sess.__exit__(None, None, None)

    # ---- tree access
    def walk(self):
        """[(path, node, parent, edge)] in pre-order"""
        out = []

        def rec(path, node, parent):
            out.append((path, node, parent))
            for cb, ch in list(node.children.items()):
                c = comp_model(cb)
                rec(path + (('l', c[0], c[1]),), ch, node)
            for (z, ty), (var, ch) in list(node.matches.items()):
                rec(path + (('p', ty, ''),), ch, node)
        rec((), self.root, None)
        return out

    def lookup(self, path):
        node = self.root
        for e in path:
            if e[0] == 'l':
                node = node.children[comp_real((e[1], e[2]))]
            else:
                node = node.matches[(0, int(e[1]))][1]
        return node

    def path_of(self, node):
        for p, n, _ in self.walk():
            if n is node:
                return [list(e) for e in p]
        return ['?']

    def _new(self, kind):
        if kind == 'seg':
            return SegmentedNode(timeout=LIFETIME, retry_times=self.seg_retry, segment_size=SEG_SIZE)
        if kind == 'local':
            return LocalResource()
        return Node()

    def _build(self, init):
        tree = init['tree']
        self.root.prefix = name_real(init.get('rprefix', ()))

        def rec(path):
            nd = tree[path]
            node = self.lookup(path)
            for c in tlaval.seq(nd['lits']):
                e = ('l', c[0], c[1])
                sub = tree[path + (e,)]
                if sub['kind'] == 'node':
                    node[pat_str([e])]
                else:
                    node[pat_str([e])] = self._new(sub['kind'])
                rec(path + (e,))
            for ty, var in sorted(nd['pats']):
                e = ('p', ty, '')
                sub = tree[path + (e,)]
                if sub['kind'] == 'segchild':
                    pass
                elif sub['kind'] == 'node':
                    node[pat_str([('p', ty, var)])]
                else:
                    node[pat_str([('p', ty, var)])] = self._new(sub['kind'])
                rec(path + (e,))
            for ty, v in nd['pol'].items():
                if v != 'none':
                    node.set_policy(PT[ty], make_policy(self.caches, ty, v))
        rec(())

    def _instrument(self):
        """record process_int / process_data on every node (instance attributes that call the class's method)"""
        for path, node, _ in self.walk():
            if '_x02' in node.__dict__:
                continue
            node.__dict__['_x02'] = True
            cls_int, cls_data = type(node).process_int, type(node).process_data

            async def pint(match, param, app_param, raw_packet, node=node, orig=cls_int):
                self.ints.append({'path': self.path_of(match.node), 'pos': match.pos, 'ap': content_model(app_param)})
                return await orig(node, match, param, app_param, raw_packet)

            async def pdata(match, meta_info, content, raw_packet, node=node, orig=cls_data):
                self.pdata.append(self.path_of(match.node))
                return await orig(node, match, meta_info, content, raw_packet)
            node.process_int = pint
            node.process_data = pdata

    # ---- loop helpers
    def _run(self, advance=STEP):
        self.loop.settle()
        self.loop.advance_to(self.loop.time() + advance)

    def _scan(self):
        """new packets on the face: register commands -> self.reg (returned), everything else -> self.sent"""
        cmds = []
        while self.seen < len(self.face.out):
            w = self.face.out[self.seen]
            self.seen += 1
            typ, _ = enc.parse_tl_num(w)
            if typ == enc.TypeNumber.DATA:
                d = data_model(w)
                d['t'] = 'D'
                self.sent.append(d)
                continue
            name, _, _, _ = enc.parse_interest(w)
            if len(name) > 4 and Name.to_str(name[:4]) == '/localhost/nfd/rib/register':
                cp = nfd_mgmt.ControlParameters.parse(Component.get_value(name[4]))
                cmds.append((w, name, name_model(cp.cp.name)))
                continue
            self.last_int = w
            self.sent.append(interest_model(w))
        return cmds

    def _deliver(self, wire):
        typ, _ = enc.parse_tl_num(wire)
        box = {}

        async def go():
            try:
                await self.face.callback(typ, wire)
            except BaseException as e:  # noqa
                box['exc'] = e
        self.loop.create_task(go())
        self.loop.settle()
        if 'exc' in box:
            self.problems.append('receive raised %r' % (box['exc'],))

    def _task_res(self, op):
        """what the pending need() says now"""
        t = self.task
        if t is None or not t.done():
            return {'op': op, 'k': 'pending'}
        self.task = None
        if t.cancelled():
            return {'op': op, 'k': 'raise', 'err': 'CancelledError'}
        e = t.exception()
        if e is not None:
            return {'op': op, 'k': 'raise', 'err': type(e).__name__}
        r = t.result()
        if self.need_kind == 'local':
            return {'op': op, 'k': 'local', 'c': content_model(r)}
        content, meta = r
        std = ('content_type', 'freshness_period', 'final_block_id', 'block_count')
        fbi = meta.get('final_block_id')
        if 'block_count' in meta:       # the joined segments: plain bytes whatever they look like
            cm = {'k': 'c', 'e': '', 'v': bytes(content).decode('latin-1')}
        else:
            cm = content_model(content)
        return {'op': op, 'k': 'data', 'c': cm,
                'env': sorted([k, env_val(v)] for k, v in meta.items() if k not in std),
                'path': self.pdata[-1] if self.pdata else ['?'],
                'fbi': comp_model(fbi) if fbi is not None else list(NOCOMP), 'blocks': meta.get('block_count', 0)}

    # ---- actions
    def apply(self, call):
        """call = (action name, *arguments) as parsed from the TLC state (tuples / dicts)"""
        self.sent, self.ints = [], []
        self._instrument()
        act, args = call[0], call[1:]
        try:
            getattr(self, 'do_' + act)(*args)
        except Unexpected:
            raise
        self._instrument()
        if self.loop.errors:
            self.problems += ['background: %s' % (c.get('exception') or c.get('message')) for c in self.loop.errors]
            del self.loop.errors[:]

    def do_GetItem(self, base, ks):
        r = self.lookup(base)[pat_str(ks)]
        self.res = {'op': 'getitem', 'k': 'ok', 'at': self.path_of(r)}

    def do_SetItem(self, base, ks, kind):
        node = self.lookup(base)
        val = self._new(kind)
        try:
            node[pat_str(ks)] = val
        except NodeExistsError:
            self.res = {'op': 'setitem', 'k': 'raise', 'err': 'NodeExistsError'}
            return
        self.res = {'op': 'setitem', 'k': 'ok', 'at': self.path_of(val)}

    def do_SetPolicy(self, p, ty, v):
        self.lookup(p).set_policy(PT[ty], make_policy(self.caches, ty, v))
        self.res = {'op': 'setpolicy', 'k': 'ok'}

    def do_SetPolicyWrong(self, p):
        try:
            self.lookup(p).set_policy(policy.Cache, TLocalOnly())
        except TypeError:
            self.res = {'op': 'setpolicy', 'k': 'raise', 'err': 'TypeError'}
            return
        self.res = {'op': 'setpolicy', 'k': 'ok'}

    def do_SetPrefix(self, rp):
        self.root.prefix = name_real(rp)
        self.res = {'op': 'setprefix', 'k': 'ok'}

    def _match_model(self, op, m):
        return {'op': op, 'k': 'match', 'path': self.path_of(m.node), 'name': name_model(m.name), 'pos': m.pos,
                'env': sorted([k, env_val(v)] for k, v in m.env.items()),
                'pol': self._pol(m.policies)}

    def _pol(self, pols):
        out = {t: 'none' for t in PTYPES}
        for t, cls in PT.items():
            if cls in pols:
                out[t] = self._vid(pols[cls])
        extra = [k.__name__ for k in pols if k not in PT.values()]
        if extra:
            out['other'] = sorted(extra)
        return out

    def _vid(self, p):
        if isinstance(p, MemoryCachePolicy):
            for cid, c in self.caches.items():
                if p.cache is c:
                    return cid
            return '?'
        return getattr(p, 'vid', '?')

    def do_QMatch(self, p, name):
        try:
            m = self.lookup(p).match(name_real(name))
        except ValueError:
            self.res = {'op': 'match', 'k': 'raise', 'err': 'ValueError'}
            return
        self.res = self._match_model('match', m)

    def do_QFinerMatch(self, name, new):
        m = self.root.match(name_real(name)).finer_match(name_real(new))
        self.res = self._match_model('finer', m)

    def do_QExist(self, p, k):
        key = comp_real((k[1], k[2])) if k[0] == 'l' else (0, int(k[1]), k[2])
        self.res = {'op': 'exist', 'k': 'val', 'v': bool(self.lookup(p).exist(key))}

    def do_QGetPolicy(self, p, ty):
        r = self.lookup(p).get_policy(PT[ty])
        self.res = {'op': 'getpolicy', 'k': 'str', 'v': 'none' if r is None else self._vid(r)}

    def do_Attach(self, prefix, fail_at):
        t = self.sess.spawn(self.root.attach(self.app, name_real(prefix)))
        n = 0
        for _ in range(200):
            self._run()
            for w, cname, pfx in self._scan():
                n += 1
                self.reg.append(pfx)
                ok = not (fail_at and n == fail_at)
                cr = nfd_mgmt.ControlResponse()
                cr.status_code = 200 if ok else 403
                cr.status_text = 'OK' if ok else 'refused'
                body = cr.encode()
                content = bytes([0x65, len(body)]) + bytes(body)
                self._deliver(bytes(enc.make_data(cname, MetaInfo(), content, signer=DigestSha256Signer())))
            if t.done():
                break
        if not t.done():
            raise Unexpected('attach() did not finish')
        self.attached = True
        if t.exception() is not None:
            self.res = {'op': 'attach', 'k': 'raise', 'err': type(t.exception()).__name__}
        else:
            self.res = {'op': 'attach', 'k': 'val', 'v': t.result()}

    def do_Provide(self, name, c, send):
        self._call('provide', self.root.match(name_real(name)).provide(content_real(c), send_packet=bool(send)))

    def do_ProvideSeg(self, name, chunks, send):
        content = b''.join(x.encode() for x in chunks)
        self._call('provide', self.root.match(name_real(name)).provide(content, send_packet=bool(send)))

    def _call(self, op, coro):
        t = self.sess.spawn(coro)
        self._run()
        self._scan()
        if not t.done():
            raise Unexpected('%s() did not return' % op)
        if t.exception() is not None:
            self.res = {'op': op, 'k': 'raise', 'err': type(t.exception()).__name__}
        else:
            self.res = {'op': op, 'k': 'ok'}

    def do_Need(self, name, ap, cbp):
        self.pdata = []
        try:
            m = self.root.match(name_real(name))
        except ValueError:
            self.res = {'op': 'need', 'k': 'raise', 'err': 'ValueError'}
            return
        self.need_kind = 'local' if isinstance(m.node, LocalResource) else 'other'
        kw = {'can_be_prefix': bool(cbp), 'lifetime': LIFETIME}
        if ap['k'] != 'none':
            kw['app_param'] = content_real(ap)
        self.task = self.sess.spawn(m.need(**kw))
        self.loop.settle()
        self._scan()
        self.res = self._task_res('need')

    def do_Deliver(self, ext, c, ok, fin):
        name, _, _, _ = enc.parse_interest(self.last_int)
        dn = [bytes(x) for x in name] + name_real(ext)
        mi = MetaInfo()
        if fin:
            mi.final_block_id = dn[-1]
        self._deliver(bytes(enc.make_data(dn, mi, content_real(c), signer=TagSigner('net', good=bool(ok)))))
        self._scan()
        self.res = self._task_res('deliver')

    def do_Fail(self, kind):
        if kind == 'nack':
            self._deliver(bytes(enc.make_network_nack(self.last_int, 150)))
        else:
            self.loop.advance_to(self.loop.time() + LIFETIME / 1000.0 + 0.001)
        self._scan()
        self.res = self._task_res('fail')

    def do_Interest(self, name, ap, sg):
        signer = None if sg == 'none' else DigestSha256Signer() if sg == 'good' else BadDigestSigner()
        wire, fname = enc.make_interest(name_real(name), InterestParam(lifetime=4000), content_real(ap), signer=signer,
                                        need_final_name=True)
        interest_model(bytes(wire))        # notes the digest
        self._deliver(bytes(wire))
        self._scan()
        k = 'hit' if any(p['t'] == 'D' for p in self.sent) else 'proc' if self.ints else 'nothing'
        self.res = {'op': 'interest', 'k': k, 'n': name_model(fname)}

    # ---- projection
    def project(self):
        nodes = []
        for path, node, parent in self.walk():
            pats = sorted([ty, var] for (z, ty), (var, ch) in node.matches.items())
            if isinstance(node, SegmentedNode):
                kind = 'seg'
            elif isinstance(node, LocalResource):
                kind = 'local'
            elif isinstance(parent, SegmentedNode) and path[-1][0] == 'p' and path[-1][1] == Component.TYPE_SEGMENT:
                kind = 'segchild'
            else:
                kind = 'node'
            up = 'none' if node.parent is None else 'ok' if node.parent is parent else 'wrong'
            nodes.append({'path': [list(e) for e in path], 'lits': [comp_model(cb) for cb in node.children],
                          'pats': pats, 'pol': self._pol(node.policies), 'kind': kind,
                          'data': content_model(getattr(node, 'data', None)), 'up': up})
        caches = {}
        for cid, c in self.caches.items():
            ents = []
            for k, v in c.data.iteritems():      # the trie hands out its internal path list: convert while iterating
                ents.append({'n': name_model(list(k)), 'p': data_model(v)})
            caches[cid] = sorted(ents, key=lambda e: repr(e['n']))
        filt = sorted((name_model(list(k)) for k, n in self.app._prefix_tree.iteritems() if n.callback is not None), key=repr)
        return {'tree': sorted(nodes, key=lambda n: repr(n['path'])), 'rprefix': name_model(self.root.prefix),
                'phase': 'run' if self.root.app is not None else 'build',
                'reg': list(self.reg), 'filt': filt, 'caches': caches,
                'npend': 0 if self.task is None or self.task.done() else 1,
                'sent': list(self.sent), 'ints': list(self.ints), 'res': self.res,
                'problems': list(self.problems)}


# ------------------------------------------------------------------ expected projection from a TLC state

def jsonable(v):
    if isinstance(v, dict):
        return {k: jsonable(x) for k, x in v.items()}
    if isinstance(v, (tuple, list)):
        return [jsonable(x) for x in v]
    if isinstance(v, frozenset):
        items = [jsonable(x) for x in v]
        try:
            return sorted(items)
        except TypeError:
            return sorted(items, key=repr)
    return v


def expected(st, dev=('AttachNoPrefix', 'EmptySearch', 'SegNoParent')):
    nodes = []
    for path, nd in st['tree'].items():
        path = tlaval.seq(path)
        up = 'none' if len(path) == 0 or (nd['kind'] == 'segchild' and 'SegNoParent' in dev) else 'ok'
        nodes.append({'path': jsonable(path), 'lits': jsonable(tlaval.seq(nd['lits'])), 'pats': jsonable(nd['pats']),
                      'pol': dict(nd['pol']), 'kind': nd['kind'], 'data': dict(nd['data']), 'up': up})
    caches = {}
    for cid, es in st['caches'].items():
        caches[cid] = sorted(({'n': jsonable(tlaval.seq(e['n'])), 'p': _pkt(e['p'])} for e in tlaval.seq(es)),
                             key=lambda e: repr(e['n']))
    res = {k: v for k, v in jsonable(dict(st['res'])).items() if k not in UNCOMPARED}
    if 'env' in res:
        res['env'] = sorted(res['env'])
    if res.get('op') == 'interest':
        res['k'] = res['k'] if res['k'] in ('hit', 'proc') else 'nothing'
    return {'tree': sorted(nodes, key=lambda n: repr(n['path'])), 'rprefix': jsonable(tlaval.seq(st['rprefix'])),
            'phase': st['phase'], 'reg': jsonable(tlaval.seq(st['reg'])), 'filt': sorted(jsonable(st['filt']), key=repr),
            'caches': caches, 'npend': len(tlaval.seq(st['pend'])),
            'sent': [_pkt(p) for p in tlaval.seq(st['sent'])],
            'ints': [{'path': jsonable(tlaval.seq(i['path'])), 'pos': i['pos'], 'ap': dict(i['ap'])} for i in tlaval.seq(st['ints'])],
            'res': res, 'problems': []}


def _pkt(p):
    d = jsonable(dict(p))
    return d


FIELDS = ('tree', 'rprefix', 'phase', 'reg', 'filt', 'caches', 'npend', 'sent', 'ints', 'res', 'problems')


def diff(exp, got):
    return [(k, exp[k], got[k]) for k in FIELDS if exp[k] != got[k]]
