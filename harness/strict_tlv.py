"""Strict NDN-TLV reader / writer, independent of ndn.encoding (trusted base, keep it small).

Abstract element tree
    tree  = [node, ...]
    node  = (t, value)            t: int type number; value: bytes (leaf) or tree (container)
Public functions
    parse_var(buf, off=0, end=None, shortest=True) -> (number, size)
        one TLV-VAR-NUMBER at buf[off:end]; TlvError if it is truncated or (shortest=True) not
        in its shortest form (NDN packet format 0.3: 1 byte <=252, 0xFD+2, 0xFE+4, 0xFF+8).
    write_var(n) -> bytes          shortest form of 0 <= n < 2**64
    var_size(n) -> 1|3|5|9
    read_tlv(buf, containers=None, shortest=True) -> tree
        buf must be *exactly* a sequence of elements, each lying entirely inside buf; recursion
        only into types marked as containers, and there every child must lie entirely inside its
        parent.  `containers`: None (all leaves) | set of type numbers (recurse into them at any
        depth) | dict {t: containers-for-its-children} (context dependent) | callable(path)->bool
        where path is the tuple of type numbers from the root down to this element.
        Anything else raises TlvError(reason, offset).
    read_elements(buf, start=0, end=None, shortest=True) -> [(t, off_tl, off_v, end_v), ...]
        flat scan of one level (offsets are absolute in buf).
    write_tlv(tree) -> bytes
        nodes may also be: bytes (copied verbatim), (t, value, declared_len) to announce a Length
        different from the real one (to build ill-formed inputs), value may be int (written as the
        smallest NonNegativeInteger) .
    uint_bytes(n) -> bytes         NonNegativeInteger in the smallest legal width 1/2/4/8
    read_uint(b) -> int            TlvError unless len(b) in {1,2,4,8}
    to_json(tree) / from_json(obj) -> JSON-friendly form  [[t, [bytes...]] | [t, [[...]]]]
"""

__all__ = ['TlvError', 'parse_var', 'write_var', 'var_size', 'read_tlv', 'read_elements', 'write_tlv',
           'uint_bytes', 'read_uint']


class TlvError(Exception):
    def __init__(self, reason, offset=0):
        super().__init__('%s at offset %d' % (reason, offset))
        self.reason = reason
        self.offset = offset


def var_size(n):
    if n < 0 or n >= 1 << 64:
        raise ValueError('TLV number out of range: %r' % n)
    return 1 if n <= 252 else 3 if n <= 0xFFFF else 5 if n <= 0xFFFFFFFF else 9


def write_var(n):
    s = var_size(n)
    if s == 1:
        return bytes([n])
    return bytes([{3: 0xFD, 5: 0xFE, 9: 0xFF}[s]]) + n.to_bytes(s - 1, 'big')


def parse_var(buf, off=0, end=None, shortest=True):
    end = len(buf) if end is None else end
    if off >= end:
        raise TlvError('truncated-number', off)
    b = buf[off]
    if b <= 252:
        return b, 1
    s = {0xFD: 3, 0xFE: 5, 0xFF: 9}[b]
    if off + s > end:
        raise TlvError('truncated-number', off)
    n = int.from_bytes(bytes(buf[off + 1:off + s]), 'big')
    if shortest and var_size(n) != s:
        raise TlvError('non-shortest-number', off)
    return n, s


def read_elements(buf, start=0, end=None, shortest=True):
    end = len(buf) if end is None else end
    out, off = [], start
    while off < end:
        t, st = parse_var(buf, off, end, shortest)
        ln, sl = parse_var(buf, off + st, end, shortest)
        off_v = off + st + sl
        if off_v + ln > end:
            raise TlvError('element-overruns-parent', off)
        out.append((t, off, off_v, off_v + ln))
        off = off_v + ln
    return out


def _sub(containers, t, path):
    """-> (is_container, containers for the children)"""
    if containers is None:
        return False, None
    if callable(containers):
        return bool(containers(path)), containers
    if isinstance(containers, dict):
        return (t in containers and containers[t] is not None), containers.get(t)
    return t in containers, containers


def read_tlv(buf, containers=None, shortest=True, _start=0, _end=None, _path=()):
    buf = bytes(buf) if _path == () and not isinstance(buf, bytes) else buf
    tree = []
    for t, _, off_v, end_v in read_elements(buf, _start, _end, shortest):
        is_c, sub = _sub(containers, t, _path + (t,))
        if is_c:
            tree.append((t, read_tlv(buf, sub, shortest, off_v, end_v, _path + (t,))))
        else:
            tree.append((t, buf[off_v:end_v]))
    return tree


def uint_bytes(n):
    w = 1 if n <= 0xFF else 2 if n <= 0xFFFF else 4 if n <= 0xFFFFFFFF else 8
    return n.to_bytes(w, 'big')


def read_uint(b):
    if len(b) not in (1, 2, 4, 8):
        raise TlvError('illegal-uint-width', 0)
    return int.from_bytes(bytes(b), 'big')


def write_tlv(tree):
    out = bytearray()
    for node in tree:
        if isinstance(node, (bytes, bytearray, memoryview)):
            out += bytes(node)
            continue
        t, v = node[0], node[1]
        if isinstance(v, int) and not isinstance(v, bool):
            body = uint_bytes(v)
        elif isinstance(v, (bytes, bytearray, memoryview)):
            body = bytes(v)
        else:
            body = write_tlv(v)
        ln = node[2] if len(node) > 2 else len(body)
        out += write_var(t) + write_var(ln) + body
    return bytes(out)


def to_json(tree):
    return [[t, list(v)] if isinstance(v, (bytes, bytearray)) else [t, {'kids': to_json(v)}] for t, v in tree]


def from_json(obj):
    return [(t, from_json(v['kids'])) if isinstance(v, dict) else (t, bytes(v)) for t, v in obj]
