"""Helpers shared by executors that drive the two NDNApp front-ends on the virtual loop."""
import asyncio as aio
import logging

from harness.vloop import Session, make_face, SpinError  # noqa: F401  (use_repo() runs on import)

from ndn import encoding as enc
from ndn import types as ndn_types

logging.getLogger('ndn').setLevel(logging.CRITICAL)
logging.getLogger('ndn.app').setLevel(logging.CRITICAL)
logging.getLogger('ndn.appv2').setLevel(logging.CRITICAL)


class _FormatOnly(logging.Handler):
    """formats every record (so that the arguments of the log call are really evaluated) and drops it"""
    def emit(self, record):
        record.getMessage()

    def handleError(self, record):     # an exception while formatting must not be swallowed by logging
        raise


_FORMAT_ONLY = _FormatOnly()
_run_counter = [0]


def log_mode(app):
    """Every second application runs with its logger at DEBUG (the usual development setting): the debug branches of the
    receive path and the arguments of every log call are then executed; nothing is printed.  Returns a function that
    restores the quiet setting."""
    _run_counter[0] += 1
    lg = app.logger
    if _run_counter[0] % 2 == 0:
        return lambda: None
    lg.setLevel(logging.DEBUG)
    lg.addHandler(_FORMAT_ONLY)
    old = lg.propagate
    lg.propagate = False

    def restore():
        lg.setLevel(logging.CRITICAL)
        lg.removeHandler(_FORMAT_ONLY)
        lg.propagate = old
    return restore


class _DummyKeychain:
    def get_signer(self, kwargs):
        from ndn.security.signer import DigestSha256Signer
        return DigestSha256Signer()


class _NoReg:
    """Prefix registerer stand-in for appv2 (no forwarder commands)."""
    def set_app(self, app):
        self.app = app

    async def register(self, name):
        return True

    async def unregister(self, name):
        return True


def new_app(front, registerer=None, debug_log=False):
    """Return (app, face) for front in {'v2','legacy'} with the face marked as connected."""
    face = make_face()
    if front == 'v2':
        from ndn import appv2
        app = appv2.NDNApp(face=face, client_conf={'transport': 'unix:///nonexistent'},
                           registerer=registerer or _NoReg())
    else:
        from ndn import app as app1
        app = app1.NDNApp(face=face, keychain=_DummyKeychain())
        app._prefix_register_semaphore = aio.Semaphore(1)
    face.running = True
    app._verif_restore_log = log_mode(app) if debug_log else (lambda: None)
    return app, face


_DELIVER = {'n': 0}


def deliver(sess, face, wire, timers_now=True, before_run=None):
    """Hand one packet to the application's receive callback as a transport would and settle.
    Returns the exception that escaped the awaited callback (None if it returned normally)."""
    try:
        typ, _ = enc.parse_tl_num(wire)
    except Exception:
        # no transport can frame this byte string as a packet (stream faces read T and L first;
        # the datagram face is exercised separately in C06): nothing is delivered
        return None
    box = {}
    # the buffer type is the transport's choice: the stream / datagram faces hand over bytes, DummyFace and custom faces
    # whatever they were given - bytes, a bytearray, a view of either (seed round 7: name-tree keys taken from a writable view)
    _DELIVER['n'] += 1
    k = _DELIVER['n'] % 5
    if k == 1:
        wire = bytearray(wire)
    elif k == 2:
        wire = memoryview(bytearray(wire))
    elif k == 3:
        wire = memoryview(bytes(wire))

    async def go():
        try:
            await face.callback(typ, wire)
        except BaseException as e:  # noqa
            box['exc'] = e
    t = sess.loop.create_task(go())
    if before_run is not None:
        before_run()      # something that happens after the packet was queued but before it is processed
    sess.loop.settle(timers_now=timers_now)
    if not t.done():
        box['exc'] = RuntimeError('receive callback did not return within the instant')
    return box.get('exc')


def outcome_of(task):
    """Classify a finished express task: ('data', name, content) | ('nack', reason) | ('timeout',) |
    ('cancel',) | ('vfail', name, content, result) | ('error', repr)."""
    if not task.done():
        return None
    if task.cancelled():
        return ('cancelled-task',)
    e = task.exception()
    if e is None:
        return ('data', task.result())
    if isinstance(e, ndn_types.InterestNack):
        return ('nack', e.reason)
    if isinstance(e, ndn_types.InterestTimeout):
        return ('timeout',)
    if isinstance(e, ndn_types.InterestCanceled):
        return ('cancel',)
    if isinstance(e, ndn_types.ValidationFailure):
        return ('vfail', e)
    return ('error', '%s: %s' % (type(e).__name__, e))


def nm(comps):
    """spec name (sequence of short strings) -> URI string"""
    return '/' + '/'.join(comps)
