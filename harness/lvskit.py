"""Shared code of the Light VerSec checks C11 / C12 / C13.

Spec side : spec/Lvs.tla (meaning of the source text), spec/LvsTree.tla (binary model, sanity rules,
            Checker._match as a state machine), spec/LvsJudge.tla (judge of recorded results),
            spec/LvsEnum.tla (TLC-enumerated small schemas / trees with expected results).
Code side : compile_lvs, Checker(model, fns), Checker.match / check / save / load  (public API only).

Abstract components are strings (URI form of one component); DIGEST stands for an implicit-digest
component.  A schema is a JSON-able AST (see Lvs.tla) rendered to LVS text by render().
"""
import itertools, json, os, re, sys
from concurrent.futures import ThreadPoolExecutor

from harness import tlc, tlaval

DIGEST = 'sha256digest=0'
# a ParametersSha256Digest component is an ordinary component for the schema (only the IMPLICIT digest is ignored)
PDIGEST = 'params-sha256=' + '00' * 32


def lvs():
    import ndn.app_support.light_versec as m
    return m


def enc():
    import ndn.encoding as e
    return e


# ------------------------------------------------------------------ components / names

_comp_cache = {}


def comp(s):
    b = _comp_cache.get(s)
    if b is None:
        C = enc().Component
        if s == DIGEST:
            b = bytes(C.from_bytes(b'\x00' * 32, typ=C.TYPE_IMPLICIT_SHA256))
        else:
            b = bytes(C.from_str(s))
        _comp_cache[s] = b
    return b


def comp_str(b):
    C = enc().Component
    if C.get_type(b) == C.TYPE_IMPLICIT_SHA256:
        return DIGEST
    return C.to_str(b)


def real_name(n):
    return [comp(c) for c in n]


def names_upto(alpha, L):
    return [list(t) for k in range(0, L + 1) for t in itertools.product(alpha, repeat=k)]


_builtin_fns = {}


def builtin_fns():
    """the library's own $eq / $eq_type, taken once, before this process constructs its first Checker"""
    if not _builtin_fns:
        _builtin_fns.update(lvs().DEFAULT_USER_FNS)
    return _builtin_fns


def user_fns():
    """$eq / $eq_type are the library's; $in / $isv are harness functions whose meaning is Lvs!Fn."""
    C = enc().Component
    fns = dict(builtin_fns())
    fns['$in'] = lambda c, args: any(x is not None and bytes(x) == bytes(c) for x in args)
    fns['$isv'] = lambda c, args: C.get_type(c) == C.TYPE_VERSION
    return fns


# ------------------------------------------------------------------ function tables (Lvs!Retab)

FN_NAMES = ['$eq', '$eq_type', '$in', '$isv']          # identifiers the generated schemas use
DEFAULT_TAB = {f: f for f in FN_NAMES}
MEANINGS = ['$eq', '$in', '$isv', '$ne', '$true', '$false']   # canonical meanings a table may give to an identifier


def meaning_fns():
    """canonical meaning -> callable; the harness functions mean exactly what Lvs!Fn says ('$false': not listed
    there, holds for nothing)."""
    C = enc().Component
    b = builtin_fns()
    return {'$eq': b['$eq'], '$eq_type': b['$eq_type'],
            '$in': lambda c, args: any(x is not None and bytes(x) == bytes(c) for x in args),
            '$isv': lambda c, args: C.get_type(c) == C.TYPE_VERSION,
            '$ne': lambda c, args: all(x is None or bytes(x) != bytes(c) for x in args),
            '$true': lambda c, args: True,
            '$false': lambda c, args: False}


class InjectedFault(Exception):
    """raised by a user function of the harness at a chosen call (a callee of Checker.match failing)"""


class FnTable:
    """The dictionary of user functions handed to ONE checker (a dict object of its own): identifier -> function
    with the meaning tab[identifier].  Counts the calls and can make the k-th call of an enumeration raise."""

    def __init__(self, tab):
        self.tab = dict(tab)
        self.calls = 0
        self.fault_at = None
        self.raised = False
        m = meaning_fns()
        self.fns = {name: self._wrap(m[mean]) for name, mean in self.tab.items()}

    def _wrap(self, fn):
        def call(c, args):
            self.calls += 1
            if self.fault_at is not None and self.calls == self.fault_at:
                self.raised = True
                raise InjectedFault()
            return fn(c, args)
        return call

    def arm(self, k):
        self.calls, self.fault_at, self.raised = 0, k, False

    def disarm(self):
        self.fault_at = None


def fns_used(rules):
    return sorted({o['f'] for r in rules for cs in r['cons'] for c in cs for o in c['opts'] if o['k'] == 'f'})


def other_tab(rules, rng):
    """a table that gives at least one identifier the schema uses another meaning (identity when it uses none)"""
    tab = dict(DEFAULT_TAB)
    used = fns_used(rules)
    if used:
        for f in rng.sample(used, rng.randint(1, len(used))):
            tab[f] = rng.choice([m for m in MEANINGS if m != f])
    return tab


# ------------------------------------------------------------------ schema AST helpers / rendering

def V(v): return {'k': 'v', 'v': v}
def P(p): return {'k': 'p', 'p': p}
def R(r): return {'k': 'r', 'r': r}
def F(f, *a): return {'k': 'f', 'f': f, 'args': list(a)}
def CONS(pat, *opts): return {'pat': pat, 'opts': list(opts)}


def rule(rid, name, cons=(), sign=()):
    return {'id': rid, 'name': list(name), 'cons': [list(cs) for cs in cons], 'sign': list(sign)}


def _item(i):
    return '"%s"' % i['v'] if i['k'] == 'v' else i['p'] if i['k'] == 'p' else i['r']


def _opt(o):
    if o['k'] == 'v':
        return '"%s"' % o['v']
    if o['k'] == 'p':
        return o['p']
    return o['f'] + '(' + ', '.join(_opt(a) for a in o['args']) + ')'


def render(rules):
    out = []
    for n, r in enumerate(rules):
        s = '%s: %s%s' % (r['id'], '/' if n % 2 else '', '/'.join(_item(i) for i in r['name']))
        if r['cons']:
            s += ' & ' + ' | '.join(
                '{ ' + ', '.join('%s: %s' % (c['pat'], ' | '.join(_opt(o) for o in c['opts'])) for c in cs) + ' }'
                for cs in r['cons'])
        if r['sign']:
            s += ' <= ' + ' | '.join(r['sign'])
        out.append(s)
    return '\n'.join(out) + '\n'


def literals(rules):
    s = set()
    for r in rules:
        for i in r['name']:
            if i['k'] == 'v':
                s.add(i['v'])
        for cs in r['cons']:
            for c in cs:
                for o in c['opts']:
                    if o['k'] == 'v':
                        s.add(o['v'])
                    elif o['k'] == 'f':
                        s.update(a['v'] for a in o['args'] if a['k'] == 'v')
    return sorted(s)


# ------------------------------------------------------------------ real library: compile / dump / query

_RE_TEMP_RULE = re.compile(r'^(#_\w*)#\d+$')
_RE_SYNTH = re.compile(r'^#_\d+$')


def norm_rule(rn):
    m = _RE_TEMP_RULE.match(rn)
    return m.group(1) if m else rn


def build(text, fns=None):
    """compile_lvs + Checker(model, fns). Returns (outcome, checker|None, message)."""
    L = lvs()
    try:
        model = L.compile_lvs(text)
        ck = L.Checker(model, user_fns() if fns is None else fns)
        return 'ok', ck, ''
    except L.SemanticError as e:
        return 'SemanticError', None, str(e)
    except L.LvsModelError as e:
        return 'LvsModelError', None, str(e)
    except RecursionError as e:
        return 'RecursionError', None, ''
    except Exception as e:  # noqa
        return type(e).__name__, None, str(e)


_prev_text = [None]


def build2(text, fns=None):
    """The schema as an application may meet it: compile_lvs(text) is called, then another schema is compiled
    (the previous one of this run), then compile_lvs(text) again, and the Checker whose answers are recorded
    is built from the SECOND model.  A compilation must not depend on earlier compilations in the process.
    Returns (outcome, checker|None, message, note); note is None, 'model-differs' (the two models encode
    differently) or 'second-compile-<outcome>' (the first attempt was accepted, the second not)."""
    L = lvs()
    oc, ck, msg = build(text)               # (the checker that is kept gets the caller's function dictionary)
    prev, _prev_text[0] = _prev_text[0], text
    if ck is None:
        return oc, ck, msg, None
    first = bytes(ck.model.encode())
    _prev_text.append(None)                       # (call counter) the other schema is compiled at every 2nd call
    if prev is not None and prev != text and len(_prev_text) % 2:
        try:
            L.compile_lvs(prev)
        except Exception:  # noqa - outcome of the other schema is judged where it is generated
            pass
    oc2, ck2, msg2 = build(text, fns)
    if ck2 is None:
        return oc, ck, msg, 'second-compile-%s' % oc2
    note = None if bytes(ck2.model.encode()) == first else 'model-differs'
    return 'ok', ck2, '', note


def recompile_violation(ctx, prop, note, text):
    if note:
        ctx.violation('%s/compile_lvs/recompile/%s' % (prop, note),
                      'compiling the same schema text twice in one process (another schema compiled in between) gives '
                      '%s for\n%s' % ('two different models' if note == 'model-differs' else note, text),
                      {'kind': 'recompile', 'text': text})


def _build_job(text):
    oc, ck, msg = build(text)
    if ck is None:
        return oc, msg, None, False
    try:
        lvs().Checker.load(ck.save(), user_fns())
        loadok = True
    except Exception:  # noqa
        loadok = False
    return oc, msg, dump_model(ck.model), loadok


def build_many(texts, procs):
    """build() on many texts in worker processes (compile_lvs constructs its parser on every call, ~25 ms).
    Returns [(outcome, message, model JSON | None, loadable)] in order."""
    if procs <= 1 or len(texts) < 16:
        return [_build_job(t) for t in texts]
    import multiprocessing
    from concurrent.futures import ProcessPoolExecutor
    with ProcessPoolExecutor(procs, mp_context=multiprocessing.get_context('fork')) as ex:
        return list(ex.map(_build_job, texts, chunksize=max(1, len(texts) // (procs * 8))))


def _optj(o):
    return {'hv': o.value is not None, 'v': comp_str(o.value) if o.value else '',
            'ht': o.tag is not None, 'tag': o.tag if o.tag is not None else 0,
            'hf': o.fn is not None, 'fn': (o.fn.fn_id or '') if o.fn is not None else '',
            'args': [{'hv': a.value is not None, 'v': comp_str(a.value) if a.value else '',
                      'ht': a.tag is not None, 'tag': a.tag if a.tag is not None else 0}
                     for a in (o.fn.args if o.fn is not None else [])]}


def dump_model(m):
    """LvsModel -> JSON tree for LvsTree.tla (optional element e = (he, e))."""
    def num(x):
        return x if x is not None else 0
    nodes = []
    for n in m.nodes:
        nodes.append({
            'hid': n.id is not None, 'id': num(n.id), 'hp': n.parent is not None, 'parent': num(n.parent),
            'rules': [norm_rule(r) for r in n.rule_name],
            'v': [{'hd': e.dest is not None, 'dest': num(e.dest), 'hv': bool(e.value),
                   'val': comp_str(e.value) if e.value else ''} for e in n.v_edges],
            'p': [{'hd': e.dest is not None, 'dest': num(e.dest), 'ht': e.tag is not None, 'tag': num(e.tag),
                   'cons': [[_optj(o) for o in c.options] for c in e.cons_sets]} for e in n.p_edges],
            'sign': [int(s) for s in n.sign_cons]})
    return {'hver': m.version is not None, 'version': num(m.version),
            'hstart': m.start_id is not None, 'start': num(m.start_id), 'npc': num(m.named_pattern_cnt),
            'nodes': nodes, 'symbols': [{'tag': s.tag, 'ident': s.ident} for s in m.symbols]}


def exc_class(e):
    """exception class name; a TypeError raised inside the library's own $eq_type (argument pattern without a
    value -> Component.get_type(None)) is named apart: it is a known behaviour of the unchanged library."""
    import traceback
    if isinstance(e, RecursionError):
        return 'RecursionError'
    if isinstance(e, TypeError):
        for fr, _ in traceback.walk_tb(e.__traceback__):
            if fr.f_code.co_name == '<lambda>' and fr.f_code.co_filename.endswith('light_versec/checker.py'):
                return 'TypeError@eq_type-unbound-argument'
    return type(e).__name__


def decode_matches(raw):
    """items yielded by Checker.match -> ('ok', [{rule, ctx}]) | ('BadResult:<type>', [])
    (synthetic '#_<node>' results dropped)"""
    out = []
    for item in raw:
        if type(item) is not tuple or len(item) != 2 or not isinstance(item[1], dict):
            return 'BadResult:%s' % type(item).__name__, []
        rules, cx = item
        c = sorted([k, comp_str(v)] for k, v in cx.items())
        for rn in rules:
            if _RE_SYNTH.match(rn):
                continue
            out.append({'rule': norm_rule(rn), 'ctx': c})
    return 'ok', out


def run_match(ck, name):
    """-> ('ok', [{rule, ctx}]) or (exception class name, [])   (synthetic '#_<node>' results dropped).
    All results are collected first (as `list(checker.match(n))` in an application) and looked at afterwards:
    every yielded pair must stay valid after the generator moved on."""
    try:
        return decode_matches(list(ck.match(real_name(name))))
    except Exception as e:  # noqa
        return exc_class(e), []


# ------------------------------------------------------------------ histories: long-lived checkers, ways of consuming match

class History:
    """One process lifetime: several Checker objects over one model (constructed from the model object or loaded
    from its bytes, each with a function dictionary of its own) and a sequence of enumerations
    `Checker.match(name)` consumed in different ways.  Executes a list of operations (plain data, so that a
    history can be replayed) and records one event per enumeration, in the order the enumerations START:

      {'a': 'new', 'tab': {identifier: meaning}, 'via': 'direct' | 'load'}
      {'a': 'enum', 'ck': c, 'ni': i, 'mode': m, 'k': k, 'end': e, 'inner': [operations]}
         mode 'full'    list(match(n))
              'take'    the consumer stops after k results (next / any / break); the abandoned generator is then
                        closed (end 'close'), dropped (end 'drop') or kept suspended until the history ends ('keep')
              'abort'   the k-th user function call of this enumeration raises InjectedFault
              'nested'  k results are taken, the `inner` operations run while the generator is suspended, then the
                        rest is taken
    event: {'ck', 'ni', 'mode', 'k', 'ny': items delivered, 'oc': 'ok' | exception class, 'res': decoded results,
            'conc': enumerations of the same checker that are suspended meanwhile and resumed later}
    (indices are 1-based)"""

    def __init__(self, model, saved, names, decode=decode_matches):
        self.model, self.saved, self.names = model, saved, names
        self.decode = decode
        self.cks = []          # (checker, FnTable, via)
        self.hist = []
        self.nest = []         # (ck index, generator) suspended at the moment, to be resumed ('nested')
        self.susp = []         # (ck index, generator) abandoned by their consumers but still referenced ('keep')

    def add(self, ck, ft, via):
        self.cks.append((ck, ft, via))
        return len(self.cks)

    def new(self, tab, via):
        L = lvs()
        ft = FnTable(tab)
        ck = L.Checker(self.model, ft.fns) if via == 'direct' else L.Checker.load(self.saved, ft.fns)
        return self.add(ck, ft, via)

    def cks_json(self):
        return [{'tab': ft.tab, 'via': via} for _, ft, via in self.cks]

    def run(self, ops):
        for op in ops:
            if op['a'] == 'new':
                self.new(op['tab'], op['via'])
            else:
                self.enum(op['ck'], op['ni'], op['mode'], op.get('k', 0), op.get('end', 'close'), op.get('inner', ()))

    def enum(self, c, ni, mode, k=0, end='close', inner=()):
        ck, ft, _ = self.cks[c - 1]
        ev = {'ck': c, 'ni': ni, 'mode': mode, 'k': k, 'ny': 0, 'oc': 'ok', 'res': [],
              'conc': sum(1 for c2, _ in self.nest if c2 == c)}
        self.hist.append(ev)
        raw = []
        gen = None
        if mode == 'abort':
            ft.arm(k)
        try:
            gen = ck.match(real_name(self.names[ni - 1]))
            if mode in ('full', 'abort'):
                for item in gen:
                    raw.append(item)
            else:
                for item in gen:
                    raw.append(item)
                    if len(raw) >= k:
                        break
                if mode == 'nested':
                    me = (c, gen)
                    self.nest.append(me)
                    try:
                        self.run(inner)
                    finally:
                        self.nest.remove(me)
                    for item in gen:
                        raw.append(item)
        except Exception as e:  # noqa
            ev['oc'] = exc_class(e)
        if mode == 'abort':
            if ft.raised and ev['oc'] == 'ok':
                ev['oc'] = 'fault-swallowed'
            ft.disarm()
        if mode == 'take' and gen is not None:
            if end == 'close':
                gen.close()
            elif end == 'keep':
                self.susp.append((c, gen))
        ev['ny'] = len(raw)
        oc, ev['res'] = self.decode(raw)
        if oc != 'ok' and ev['oc'] == 'ok':
            ev['oc'] = oc
        return ev

    def finish(self):
        """the history ends: generators kept suspended are released"""
        for _, gen in self.susp:
            gen.close()
        self.susp = []

    def judged(self, ctx, prop, text):
        """events for the judge; an exception out of an enumeration in which no fault was injected is reported here"""
        out = []
        for ev in self.hist:
            if ev['oc'] != 'ok' and ev['mode'] != 'abort':
                nm = self.names[ev['ni'] - 1]
                ctx.violation('%s/Checker.match/history/%s/%s' % (prop, ev['mode'], ev['oc']),
                              'Checker.match(%r) consumed as %r raises %s; schema\n%s'
                              % ('/' + '/'.join(nm), ev['mode'], ev['oc'], text),
                              {'kind': 'text', 'text': text, 'name': nm})
                continue
            out.append(ev)
        return out


def _answer(res):
    """Checker.check is documented to return bool: anything else is reported, not coerced."""
    if type(res) is not bool:
        return 'NotBool:%s' % type(res).__name__, bool(res)
    return 'ok', res


def run_check(ck, pkt, key):
    try:
        return _answer(ck.check(real_name(pkt), real_name(key)))
    except Exception as e:  # noqa
        return exc_class(e), False


def run_check_reused(ck, bufp, bufk, pkt, key):
    """Checker.check with the caller's two long-lived list objects, overwritten in place for every call
    (an application filling one buffer per packet): the answer may depend on the contents only."""
    bufp[:] = real_name(pkt)
    bufk[:] = real_name(key)
    try:
        return _answer(ck.check(bufp, bufk))
    except Exception as e:  # noqa
        return exc_class(e), False


def reload(ck):
    return lvs().Checker.load(ck.save(), user_fns())


# ------------------------------------------------------------------ seeded generator of well-formed schemas

LIT_POOL = ['x', 'y', 'KEY', 'v=1', 'z']
NAMED = ['a', 'b', 'c', 'd']
TEMPS = ['_', '_t', '_u']


class Gen:
    """Well-formed by construction: references only to rules of lower rank, signers later in a fixed
    permutation, constrained patterns occur in the expanded name of the constraining rule (temporaries:
    in its own text) or - `foreign` - only in the own text of a rule that refers to it, option/argument
    patterns are named patterns occurring in some rule name.  Shapes added on top of the random rules, each
    with a probability of its own: twin definitions, carried constraints, dual definitions, inherited
    constraints on foreign patterns (_foreign), flat copies of one chain of a rule (_flat)."""

    def __init__(self, rng, max_rules=6, max_len=4, signing=0.5, p_forward=0.15, p_redef=0.18, p_twin=0.5, force_twin=0.0, carried=0.0, dual=0.0,
                 foreign=0.0, flat=0.0, stack=0.0, tower=0.0, wide=0.0):
        self.rng = rng
        self.max_rules = max_rules
        self.max_len = max_len
        self.signing = signing
        self.p_forward = p_forward
        self.p_redef = p_redef
        self.p_twin = p_twin
        self.force_twin = force_twin
        self.carried = carried
        self.dual = dual
        self.foreign = foreign        # P(a constraint inherited through a reference onto a pattern only the referring rule has)
        self.flat = flat              # P(a rule written like ONE chain of another rule, with signers of its own)
        self.stack = stack            # P(one pattern of an expanded name gets several constraints with mixed alternatives)
        self.tower = tower            # P(references nested 3-4 deep that reach one rule twice without naming it twice)
        self.wide = wide              # P(a schema of 10+ rules with 10+ named and 10+ temporary patterns)
        self.force = set()            # shapes the NEXT schema gets whatever the dice say ({'wide'}): a driver with few schemas
        self.stat = {'foreign': 0, 'flat': 0, 'stack': 0, 'tower': 0, 'wide': 0}

    def schema(self):
        rng = self.rng
        nlit = rng.choice([2, 2, 3])
        self.lits = rng.sample(LIT_POOL, nlit)
        self.named = rng.sample(NAMED, rng.choice([2, 3, 3]))
        n = rng.randint(2, self.max_rules)
        ids, rank, rules = [], {}, []
        self.minlen = {}          # id -> minimal expanded length over its definitions
        self.uses = {}            # id -> rule ids inlined by its definitions (transitively, itself included)
        self.pats = {}            # id -> named patterns possibly in its expansion
        for i in range(n):
            x = rng.random()
            if ids and x < self.p_redef:
                rid = rng.choice(ids)                      # redefinition
            elif x < self.p_redef + 0.12:
                rid = rng.choice(['#_k', '#_', '#_t'])     # temporary rule (never referenced)
            else:
                rid = '#r%d' % (len(ids) + 1)
            if rid not in rank:
                rank[rid] = len(rank)
                if rid[1] != '_':
                    ids.append(rid)
            twins = [k for k, r in enumerate(rules) if r['id'] == rid]
            if twins and rng.random() < self.p_twin:
                # a twin definition: the same name (and, below, the same constraints) written once more, to be
                # given its own signers - both definitions end on one node of the tree, signers are alternatives
                plain = [k for k in twins if not any(i['k'] == 'p' and i['p'][0] == '_' for i in rules[k]['name'])]
                src = rng.choice(plain or twins)
                r = rule(rid, json.loads(json.dumps(rules[src]['name'])))
                r['_named'] = list(rules[src]['_named'])
                r['_twin'] = src
                rules.append(r)
                continue
            # another definition of the same rule likes the temporary identifiers its siblings use (each definition
            # has temporaries and constraints of its own, whatever they are called)
            sib = sorted({i['p'] for r in rules if r['id'] == rid for i in r['name'] if i['k'] == 'p' and i['p'][0] == '_'})
            rules.append(self._rule(rid, [q for q in ids if rank[q] < rank[rid]], sib))
        # named patterns that occur in some name
        occurring = sorted({i['p'] for r in rules for i in r['name'] if i['k'] == 'p' and i['p'][0] != '_'})
        for r in rules:
            if '_twin' in r:
                r.pop('_named')
                r['cons'] = json.loads(json.dumps(rules[r['_twin']]['cons']))
                continue
            self._constraints(r, occurring)
        if rng.random() < self.signing or True:
            perm = list(ids)
            rng.shuffle(perm)
            pos = {q: k for k, q in enumerate(perm)}
            for r in rules:
                later = [q for q in perm if r['id'][1] == '_' or pos[q] > pos[r['id']]]
                if later and rng.random() < self.signing:
                    r['sign'] = sorted(set(rng.sample(later, min(len(later), rng.choice([1, 1, 2])))))
                if '_twin' in r:
                    src = rules[r.pop('_twin')]
                    other = [q for q in later if q not in src['sign']]
                    if other and set(r['sign']) <= set(src['sign']):      # the twin brings a signer of its own
                        r['sign'] = sorted(set(r['sign']) | {rng.choice(other)})
            if rng.random() < self.carried:
                # a signer rule K of D whose constraints name a pattern q that only D's name binds: K matches a key
                # name only with the bindings carried over from the packet ({p: q} or {p: $eq(q)} in every set)
                cands = []
                for d in rules:
                    for kid in d['sign']:
                        qs = [q for q in sorted(self.pats.get(d['id'], ())) if q not in self.pats.get(kid, ())]
                        qs = [q for q in qs if any(i['k'] == 'p' and i['p'] == q for i in d['name'])] or qs
                        for k in rules:
                            ps = [i['p'] for i in k['name'] if i['k'] == 'p']
                            if k['id'] == kid and qs and ps and self.minlen.get(kid, 9) <= 3 and self.minlen.get(d['id'], 9) <= 3:
                                cands.append((k, ps, qs))
                if cands:
                    k, ps, qs = rng.choice(cands)
                    p_, q_ = rng.choice(ps), rng.choice(qs)
                    c = CONS(p_, P(q_) if rng.random() < 0.5 else F('$eq', P(q_)))
                    if k['cons']:
                        for cs in k['cons']:
                            cs.append(json.loads(json.dumps(c)))
                    else:
                        k['cons'].append([c])
            if rng.random() < self.dual:
                # a second definition of a signed rule D with the SAME signers and complementary shape (literals of D
                # become named patterns - preferably ones its signer uses - and its patterns become literals): one
                # packet name then satisfies both definitions with different bindings, and which keys may sign
                # depends on the definition
                cands = [r for r in rules if r['sign'] and r['id'][1] != '_' and 2 <= len(r['name']) <= 3
                         and all(i['k'] in 'vp' for i in r['name']) and any(i['k'] == 'v' for i in r['name'])
                         and any(i['k'] == 'p' for i in r['name'])]
                if cands:
                    d = rng.choice(cands)
                    kp = sorted(set().union(*[self.pats.get(k, set()) for k in d['sign']]) - {i.get('p') for i in d['name']})
                    pool = kp or [q for q in NAMED if q not in {i.get('p') for i in d['name']}]
                    name = []
                    for it in d['name']:
                        if it['k'] == 'v':
                            q = rng.choice(pool)
                            name.append(P(q))
                        else:
                            name.append(V(rng.choice(self.lits)))
                    t = rule(d['id'], name, sign=list(d['sign']))
                    rules.insert(rules.index(d) + rng.choice([0, 1]), t)
                    self.pats[d['id']] = self.pats.get(d['id'], set()) | {i['p'] for i in name if i['k'] == 'p'}
            if rng.random() < self.dual:
                # the same situation in its plainest form, next to whatever the schema has: one packet name satisfies
                # two definitions (or two rules) with IDENTICAL signer lists and different bindings; some keys are
                # allowed by the first only, some by the second only (check is an OR over packet nodes)
                l1, l2, l3 = rng.choice(self.lits), rng.choice(self.lits), rng.choice(self.lits)
                pa, qa = rng.sample(self.named, 2)
                two = rng.random() < 0.5
                gk = [rule('#gk', [V(l3), P(qa), P(pa)])]
                if rng.random() < 0.4:
                    gk.append(rule('#gk2', [V(l3), P(qa), P(pa), P('_')][:rng.choice([3, 4])]))
                sg = [r['id'] for r in gk]
                rules += gk + [rule('#gd', [V(l1), P(pa), P('_')], sign=sg),
                               rule('#gw' if two else '#gd', [P(qa), V(l2), P(rng.choice(['_', qa, 'seq']))], sign=sg)]
            if rng.random() < self.force_twin:
                # make sure there is a twin definition whose signer the earlier definitions do not have
                short = lambda q: self.minlen.get(q, 9) <= 3
                cands = []
                for k, r in enumerate(rules):
                    if r['id'][1] == '_' or not short(r['id']):
                        continue
                    have = set().union(*[set(x['sign']) for x in rules if x['id'] == r['id']])
                    other = [q for q in perm if pos[q] > pos[r['id']] and q not in have and short(q)]
                    if other:
                        plain = not any(i['k'] == 'p' and i['p'][0] == '_' for i in r['name'])
                        cands.append((0 if plain else 1, k, other))
                if cands:
                    best = min(c[0] for c in cands)
                    _, k, other = rng.choice([c for c in cands if c[0] == best])
                    t = json.loads(json.dumps(rules[k]))
                    t['sign'] = [rng.choice(other)]
                    rules.append(t)
            if rng.random() < self.foreign:
                self._foreign(rules)
            if rng.random() < self.flat:
                self._flat(rules, perm, pos)
            # (the two shapes below draw from the generator only when switched on: callers that leave them at 0 keep
            # their stream of schemas)
            if self.tower and rng.random() < self.tower:
                self._tower(rules)
            if self.stack and rng.random() < self.stack:
                self._stack(rules)
            if 'wide' in self.force or (self.wide and rng.random() < self.wide):
                self._wide(rules)
            self.force = set()
        return rules

    def _wide(self, rules):
        """Scale: 9 to 13 more rules #w1.. over the literals the schema already has, each with a named pattern of its
        own (n1, n2, ...: 10 and more distinct named patterns in the schema, numbered in whatever order the compiler
        meets them) that is repeated within the name, referred to by a constraint on another pattern ({q: n}, $eq(n)),
        shared with the rule that signs it (the key repeats the packet's binding) or simply reported in the bindings;
        every third rule has temporary patterns instead (10 and more of those as well).  #w1 <= #w2 <= ... ."""
        rng = self.rng
        n = rng.choice([9, 11, 13])
        for i in range(1, n + 1):
            p, q, prev = 'n%d' % i, 'm%d' % i, 'n%d' % (i - 1)
            lit = rng.choice(self.lits)
            x = rng.randrange(6)
            cons = []
            if x == 0:
                name = [P(p), P(p)] if rng.random() < 0.5 else [V(lit), P(p), P(p)]
            elif x == 1:
                name = [P(p), V(lit), P(q)]
                cons = [[CONS(q, P(p) if rng.random() < 0.5 else F('$eq', P(p)))]]
            elif x == 2 and i > 1:
                name = [V(lit), P(p), P(prev)]
            elif x == 3:
                name = [V(lit), P(p)]
            elif x == 4:
                t, u = rng.sample(['_', '_t', '_u', '_w%d' % i], 2)
                name = [P(t), V(lit), P(u)]
                cons = [[CONS(u, V(rng.choice(self.lits)), V('u'))]]
            else:
                name = [P(p), P('_w%d' % i), P(p)]
            rid = '#w%d' % i
            rules.append(rule(rid, name, cons, sign=['#w%d' % (i + 1)] if i < n else []))
            self.minlen[rid] = len(name)
            self.pats[rid] = {i_['p'] for i_ in name if i_['k'] == 'p' and i_['p'][0] != '_'}
            self.uses[rid] = {rid}
        self.stat['wide'] += 1

    def _tower(self, rules):
        """Depth of inlining: a rule K with a constrained pattern at the bottom, one or two rules that inline K (A, B),
        possibly a rule that inlines A (C), and a rule T on top whose expanded name holds K TWICE although neither T nor
        any rule below names K (or the rule between) twice itself: T: #A/#K, #K/#A, #A/#B, #C/#K, #C/#B (and, next to
        them, the direct double reference #A/#A of a rule that inlines K).  Every copy of a temporary pattern keeps the
        constraints of its text; a named pattern must repeat its value.  T is a packet rule (signed) and a key rule (the
        signer of a rule whose name binds a named pattern) at once.  Expanded names of T are 2 to 7 components long."""
        rng = self.rng
        lits = self.lits + ['u']

        def ctemp(d):
            ts = {i['p'] for i in d['name'] if i['k'] == 'p' and i['p'][0] == '_'}
            return any(c['pat'] in ts for cs in d['cons'] for c in cs)
        have = sorted({d['id'] for d in rules if d['id'][1] != '_' and self.minlen.get(d['id'], 9) <= 2 and ctemp(d)})
        if have and rng.random() < 0.4:
            k = rng.choice(have)
        else:
            k = '#tk'
            v = rng.choice(TEMPS + TEMPS + [rng.choice(self.named)])
            name = [P(v)]
            x = rng.random()
            if x < 0.3:
                name = [V(rng.choice(self.lits))] + name
            elif x < 0.45:
                name = name + [V(rng.choice(self.lits))]
            l1, l2 = rng.sample(lits, 2)
            x = rng.random()
            if x < 0.45:
                cons = [[CONS(v, V(l1), V(l2))]]
            elif x < 0.7:
                cons = [[CONS(v, V(l1))], [CONS(v, V(l2))]]
            elif x < 0.85:
                cons = [[CONS(v, F('$in', V(l1), V(l2)))]]
            else:
                cons = [[CONS(v, V(l1), F('$isv'))]]
            rules.append(rule(k, name, cons))
            self.minlen[k] = len(name)
            self.pats[k] = {v} if v[0] != '_' else set()
            self.uses[k] = {k}

        def mid(rid, ref):
            name, cons = [R(ref)], []
            x = rng.random()
            if x < 0.3:
                name.append(V(rng.choice(self.lits)))
            elif x < 0.45:
                name.insert(0, V(rng.choice(self.lits)))
            elif x < 0.8:
                # a constrained temporary pattern of its own after / before the inlined rule: temporaries of different
                # rules meet in one expanded name
                m = rng.choice(['_m', '_m', '_t'])
                name.insert(rng.choice([0, 1, 1]), P(m))
                cons = [[CONS(m, V(rng.choice(lits)))]]
            rules.append(rule(rid, name, cons))
            self.minlen[rid] = self.minlen[ref] + len(name) - 1
            self.pats[rid] = set(self.pats.get(ref, ()))
            self.uses[rid] = {rid} | self.uses.get(ref, {ref})
            return rid
        a = mid('#ta', k)
        shape = rng.choice(['ak', 'ka', 'ab', 'ck', 'cb', 'a-k', 'aa', 'ak', 'ab'])
        b = mid('#tb', k) if 'b' in shape else None
        c = mid('#tc', a) if 'c' in shape else None
        ref = {'a': a, 'b': b, 'c': c, 'k': k}
        name = [V(rng.choice(self.lits)) if ch == '-' else R(ref[ch]) for ch in shape]
        existing = sorted({d['id'] for d in rules if d['id'][1] != '_' and d['id'][:2] != '#t' and self.minlen.get(d['id'], 9) <= 3})
        if existing and rng.random() < 0.5:
            signer = rng.choice(existing)
        else:
            signer = '#ts'
            rules.append(rule(signer, [V(rng.choice(self.lits)), P('_')][:rng.choice([1, 2, 2])]))
            self.minlen[signer], self.pats[signer], self.uses[signer] = 1, set(), {signer}
        rules.append(rule('#tt', name, sign=[signer]))
        self.minlen['#tt'] = sum(self.minlen[i['r']] if i['k'] == 'r' else 1 for i in name)
        self.pats['#tt'] = set(self.pats.get(k, ()))
        self.uses['#tt'] = {'#tt'}.union(*[self.uses[i['r']] for i in name if i['k'] == 'r'])
        q = rng.choice(sorted(self.pats[k]) or self.named)
        rules.append(rule('#td', [V(rng.choice(self.lits)), P(q if rng.random() < 0.7 else '_')], sign=['#tt']))
        self.minlen['#td'], self.pats['#td'], self.uses['#td'] = 2, {q}, {'#td'}
        self.stat['tower'] += 1

    def _stack(self, rules):
        """Number of constraints on ONE pattern of one expanded name: a pattern p of a short rule D (of D's own text, or
        inherited through a reference) gets a further constraint in every constraint set of D - two when it has none
        yet.  The constraints hold together, each through one of its options; the options of the new constraint are
        literals - mostly other ones than the constraints already there allow - mixed with "equal to pattern q",
        $eq(q), $in(literals the other constraint allows), $isv: constraints whose literals exclude each other may
        still hold at once through another alternative (and do exclude each other when there is none)."""
        rng = self.rng
        signers = {q for d in rules for q in d['sign']}
        occurring = sorted({i['p'] for r in rules for i in r['name'] if i['k'] == 'p' and i['p'][0] != '_'})
        cands = []
        for d in rules:
            if self.minlen.get(d['id'], 9) > 3:
                continue
            own = {i['p'] for i in d['name'] if i['k'] == 'p'}
            inh = set().union(*[self.pats.get(i['r'], set()) for i in d['name'] if i['k'] == 'r']) if d['name'] else set()
            for p in sorted(own | inh):
                there = self._lits_on(rules, d, p)
                w = (2 if d['sign'] or d['id'] in signers else 1) * (3 if there is not None else 1)
                cands += [(d, p)] * w
        if not cands:
            return
        d, p = rng.choice(cands)
        there = self._lits_on(rules, d, p)
        new = []
        for _ in range(1 if there is not None else 2):
            pool = self.lits + ['u']              # (no further literals: the alphabet of the names grows with them)
            away = [v for v in pool if v not in (there or ())]
            src = away if away and rng.random() < 0.65 else pool
            opts = [V(v) for v in rng.sample(src, min(len(src), rng.choice([1, 1, 2])))]
            x = rng.random()
            before = []
            for i in d['name']:                      # named patterns that have a value when p is met
                if i['k'] == 'p' and i['p'] == p:
                    break
                before += [i['p']] if i['k'] == 'p' and i['p'][0] != '_' else sorted(self.pats.get(i['r'], ())) if i['k'] == 'r' else []
            before = [q for q in before if q != p and q in occurring]
            qs = before if before and rng.random() < 0.7 else [q for q in occurring if q != p]
            if x < 0.3 and qs:
                opts.append(P(rng.choice(qs)))
            elif x < 0.5 and qs:
                opts.append(F('$eq', P(rng.choice(qs))))
            elif x < 0.7 and there:
                opts.append(F('$in', *[V(v) for v in rng.sample(sorted(there), min(len(there), rng.choice([1, 2])))]))
            elif x < 0.8:
                opts.append(F('$isv'))
            rng.shuffle(opts)
            new.append(CONS(p, *opts))
            there = (there or set()) | {o['v'] for o in opts if o['k'] == 'v'}
        if not d['cons']:
            d['cons'] = [new]
        else:
            for cs in d['cons']:
                cs.extend(json.loads(json.dumps(new)))
        self.stat['stack'] += 1

    @staticmethod
    def _lits_on(rules, d, p):
        """literal options of the constraints that definition d and (for a named p) the rules it inlines directly put
        on pattern p; None when there is no such constraint"""
        found, out = False, set()
        defs = [d] + ([r for i in d['name'] if i['k'] == 'r' for r in rules if r['id'] == i['r']] if p[0] != '_' else [])
        for r in defs:
            for cs in r['cons']:
                for c in cs:
                    if c['pat'] == p:
                        found = True
                        out |= {o['v'] for o in c['opts'] if o['k'] == 'v'}
        return out if found else None

    def _foreign(self, rules):
        """A rule A constrains a NAMED pattern q that its own expanded name does not contain (legal as soon as q occurs
        in some name); a rule B refers to #A and has q in its own part of the name: B inherits the constraint, for A
        itself it is without effect."""
        rng = self.rng
        pats = lambda q: self.pats.get(q, set())
        pairs = []
        for b in rules:
            own = [i['p'] for i in b['name'] if i['k'] == 'p' and i['p'][0] != '_']
            for it in b['name']:
                if it['k'] == 'r':
                    qs = sorted({q for q in own if q not in pats(it['r'])})
                    if qs:
                        pairs.append((it['r'], qs))
        if not pairs:
            # no such pair yet: a new rule  #rf: #A/q  (or q/#A)
            cands = [a for a in sorted(self.minlen) if a[1] != '_' and self.minlen[a] <= 2]
            if not cands:
                return
            a = rng.choice(cands)
            free = [q for q in NAMED if q not in pats(a)] or ['e']
            q = rng.choice(free)
            name = [R(a), P(q)] if rng.random() < 0.7 else [P(q), R(a)]
            sign = [rng.choice(cands)] if rng.random() < 0.5 else []
            rules.append(rule('#rf', name, sign=sign))
            self.minlen['#rf'] = self.minlen[a] + 1
            self.pats['#rf'] = pats(a) | {q}
            self.uses['#rf'] = {'#rf'} | self.uses.get(a, {a})
            pairs = [(a, [q])]
        a, qs = rng.choice(pairs)
        q = rng.choice(qs)
        occurring = sorted({i['p'] for r in rules for i in r['name'] if i['k'] == 'p' and i['p'][0] != '_'})
        self._own = sorted(pats(a))
        defs = [r for r in rules if r['id'] == a]
        for d in (defs if rng.random() < 0.5 else [rng.choice(defs)]):
            mk = lambda: CONS(q, *[self._option(occurring) for _ in range(rng.choice([1, 1, 2]))])
            if not d['cons']:
                d['cons'] = [[mk()]] if rng.random() < 0.6 else [[mk()], [mk()]]
            elif rng.random() < 0.6:
                c = mk()
                for cs in d['cons']:
                    cs.append(json.loads(json.dumps(c)))
            else:
                rng.choice(d['cons']).append(mk())
        self.stat['foreign'] += 1

    def _expand_one(self, rules, r, depth=0):
        """one chain of definition r as the compiler builds it: (name without references, constraints in the order
        own alternative first, then those of the inlined definitions in name order); None when too deep"""
        rng = self.rng
        cons = json.loads(json.dumps(rng.choice(r['cons']))) if r['cons'] else []
        name = []
        for it in r['name']:
            if it['k'] != 'r':
                name.append(dict(it))
                continue
            defs = [d for d in rules if d['id'] == it['r']]
            sub = self._expand_one(rules, rng.choice(defs), depth + 1) if defs and depth < 6 else None
            if sub is None:
                return None
            name += sub[0]
            cons += sub[1]
        return name, cons

    def _flat(self, rules, perm, pos):
        """A rule D1 with SEVERAL chains (alternative constraint sets, references to rules with alternatives or several
        definitions) and a definition D2 - of the same identifier, or of one that sorts before / after it, written
        before or after D1 - that is the text of ONE chain of D1: D2 ends where that chain ends.  D1 and D2 get
        non-empty, different signer lists (the signers of a definition are the signers of THAT definition only)."""
        rng = self.rng
        nchains = {}

        def chains(rid, seen=()):
            if rid in nchains:
                return nchains[rid]
            n = 0
            for d in rules:
                if d['id'] == rid:
                    k = max(1, len(d['cons']))
                    for it in d['name']:
                        if it['k'] == 'r' and it['r'] not in seen:
                            k *= max(1, chains(it['r'], seen + (rid,)))
                    n += k
            nchains[rid] = n
            return n

        def nch(d):
            k = max(1, len(d['cons']))
            for it in d['name']:
                if it['k'] == 'r':
                    k *= max(1, chains(it['r']))
            return k
        cands = [d for d in rules if d['id'][1] != '_' and self.minlen.get(d['id'], 2) <= 3]
        plain = lambda d: not any(i['k'] == 'p' and i['p'][0] == '_' for i in d['name'])
        multi = [d for d in cands if nch(d) >= 2]
        pool = [d for d in multi if plain(d)] or multi
        if pool and rng.random() < 0.8:
            d1 = rng.choice(pool)
        else:
            # give a rule with a named pattern of its own two alternative constraint sets
            own = [d for d in cands if any(i['k'] == 'p' and i['p'][0] != '_' for i in d['name'])]
            if not own:
                return
            d1 = rng.choice([d for d in own if plain(d)] or own)
            p_ = rng.choice([i['p'] for i in d1['name'] if i['k'] == 'p' and i['p'][0] != '_'])
            l1, l2 = rng.sample(self.lits + ['u'], 2)
            if not d1['cons']:
                d1['cons'] = [[CONS(p_, V(l1))], [CONS(p_, V(l2))]]
            elif len(d1['cons']) == 1:
                d1['cons'].append([CONS(p_, V(l1))])
        ex = self._expand_one(rules, d1)
        if ex is None or not 1 <= len(ex[0]) <= 4:
            return
        name, cons = ex
        x = rng.random()
        rid = d1['id'] if x < 0.4 else '#f1' if x < 0.6 else '#s1'
        d2 = rule(rid, name, cons=[cons] if cons else [])
        # signers: existing rules that may sign d1 / d2 without closing a cycle, else a key rule of its own
        def key_rule(kid, lit):
            qs = [i['p'] for i in name if i['k'] == 'p' and i['p'][0] != '_']
            rules.append(rule(kid, [V(lit), V('KEY' if lit != 'KEY' else 'x'), P(rng.choice(qs)) if qs else P('_')]))
            return kid
        later = [q for q in perm if d1['id'] in pos and pos[q] > pos[d1['id']]]
        if not d1['sign']:
            d1['sign'] = [rng.choice(later)] if later else [key_rule('#kf1', rng.choice(self.lits))]
        have = set().union(*[set(r['sign']) for r in rules if r['id'] == d1['id']])
        other = [q for q in later if q not in have]
        d2['sign'] = [rng.choice(other)] if other and rng.random() < 0.7 else [key_rule('#kf2', rng.choice(self.lits))]
        k = rules.index(d1)
        rules.insert(k + rng.choice([0, 1]), d2)
        self.stat['flat'] += 1

    def _rule(self, rid, refs, sib=()):
        rng = self.rng
        budget = rng.choice([1, 2, 2, 3, 3, self.max_len])
        name, used = [], 0
        own_named = set()
        refd = set()
        while used < budget and len(name) < 4:
            x = rng.random()
            refs_fit = [q for q in refs if self.minlen[q] <= budget - used]
            if refs_fit and x < 0.30:
                q = rng.choice(refs_fit)
                name.append(R(q)); used += self.minlen[q]; own_named |= self.pats[q]; refd.add(q)
                # "diamond": another rule that inlines a rule q inlines too (the same text reached through two ids)
                dia = [q2 for q2 in refs if q2 != q and self.uses[q2] & self.uses[q] and self.minlen[q2] <= budget - used]
                if dia and rng.random() < 0.5:
                    q2 = rng.choice(dia)
                    name.append(R(q2)); used += self.minlen[q2]; own_named |= self.pats[q2]; refd.add(q2)
                elif rng.random() < 0.35 and self.minlen[q] <= budget - used:    # the same rule once more
                    if rng.random() < 0.5 and used < budget - self.minlen[q]:
                        name.append(V(rng.choice(self.lits))); used += 1
                    name.append(R(q)); used += self.minlen[q]
            elif x < 0.60:
                name.append(V(rng.choice(self.lits))); used += 1
            elif x < (0.70 if sib else 0.85):
                p = rng.choice(self.named)
                name.append(P(p)); used += 1; own_named.add(p)
            else:
                have = [i['p'] for i in name if i['k'] == 'p' and i['p'][0] == '_']
                # the same temporary identifier at several positions: one constraint then covers them all
                if sib and not have and rng.random() < 0.7:
                    name.append(P(rng.choice(list(sib)))); used += 1
                    continue
                name.append(P(rng.choice(have) if have and rng.random() < 0.5 else rng.choice(TEMPS))); used += 1
        r = rule(rid, name)
        self.minlen[rid] = min(self.minlen.get(rid, 99), used)
        self.pats[rid] = self.pats.get(rid, set()) | own_named
        self.uses[rid] = self.uses.get(rid, {rid}) | set().union(*[self.uses[q] for q in refd]) if refd else self.uses.get(rid, {rid})
        r['_named'] = sorted(own_named)
        return r

    def _pat(self, occurring):
        """a named pattern usable as a value: mostly one of the rule's own expansion (certainly numbered
        before the constraint is processed), sometimes any pattern of the schema (bound by a packet only)."""
        rng = self.rng
        if rng.random() >= self.p_forward:
            return P(rng.choice(self._own)) if self._own else V(rng.choice(self.lits))
        return P(rng.choice(occurring))

    def _value(self, occurring):
        rng = self.rng
        if occurring and rng.random() < 0.3:
            return self._pat(occurring)
        return V(rng.choice(self.lits + ['u']))

    def _option(self, occurring):
        rng = self.rng
        x = rng.random()
        if x < 0.55:
            return V(rng.choice(self.lits + ['u']))
        if x < 0.75 and occurring:
            return self._pat(occurring)
        f = rng.choice(['$eq', '$eq', '$in', '$eq_type', '$isv'])
        if f == '$eq':
            return F(f, *[self._value(occurring) for _ in range(rng.choice([1, 1, 2]))])
        if f == '$in':
            return F(f, *[self._value(occurring) for _ in range(rng.choice([1, 2, 3]))])
        if f == '$eq_type':
            # 0, 1 or 2+ arguments; mostly literals, sometimes patterns (a pattern without a value makes the
            # library's own $eq_type raise TypeError: known, see exc_class)
            n = rng.choice([0, 1, 1, 1, 2, 3])
            # every fourth time the literals are of a component type that takes a three-octet TLV-TYPE (300, 301: both
            # start with 0xFD on the wire) - seed C11-d2m11
            pool = ['300=x', '300=x', '301=x'] if rng.random() < 0.25 else self.lits + ['v=1']
            return F(f, *[(self._pat(occurring) if occurring and rng.random() < 0.3 else V(rng.choice(pool)))
                          for _ in range(n)])
        return F(f)

    def _constraints(self, r, occurring):
        rng = self.rng
        named = r.pop('_named')
        self._own = named
        temps = sorted({i['p'] for i in r['name'] if i['k'] == 'p' and i['p'][0] == '_'})
        cands = named + temps + temps          # constrained temporaries are the interesting case
        if not cands or rng.random() < 0.35:
            return
        nsets = rng.choice([1, 1, 1, 2, 2, 3])
        for _ in range(nsets):
            if r['cons'] and rng.random() < 0.35:
                # a near-copy of the previous alternative: same shape, one literal changed (alternatives that
                # differ only deep inside an option must stay different edges of the tree)
                cs = json.loads(json.dumps(r['cons'][-1]))
                lits = [x for c in cs for o in c['opts'] for x in ([o] if o['k'] == 'v' else
                                                                   [a for a in o.get('args', []) if a['k'] == 'v'])]
                if lits:
                    x = rng.choice(lits)
                    x['v'] = rng.choice([v for v in self.lits + ['u'] if v != x['v']])
                    r['cons'].append(cs)
                    continue
            cs = []
            for _ in range(rng.choice([1, 1, 2])):
                pat = rng.choice(cands)
                opts = [self._option(occurring) for _ in range(rng.choice([1, 1, 2, 3]))]
                foreign = [q for q in occurring if q not in named]
                if (foreign or occurring) and rng.random() < 0.25:
                    # an alternative naming a pattern that (mostly) has no value when the constraint is evaluated, BEFORE
                    # alternatives that can hold: the remaining options still decide
                    opts = [P(rng.choice(foreign or occurring))] + (opts if any(o['k'] != 'p' for o in opts)
                                                                      else opts + [V(rng.choice(self.lits))])
                cs.append(CONS(pat, *opts))
            r['cons'].append(cs)


def alphabet(rules, rng, size=5):
    """every literal of the schema + fresh components, at most `size` symbols (literals first)."""
    lits = literals(rules)
    fresh = ['w', 'v=9'] if any(c.startswith('v=') for c in lits) or 'isv' in json.dumps(rules) else ['w', 'q']
    if 'u' not in lits:
        fresh = ['u'] + fresh
    if any(c.startswith('300=') or c.startswith('301=') for c in lits):
        # components of the two long-typed classes: the other type first, so that it survives the cut
        fresh = [c for c in ('301=x', '300=y') if c not in lits] + fresh
    return lits + fresh[:max(1, size - len(lits))]      # never drops a literal; at least one fresh component


def _expand_random(rules, r, rng, depth=0):
    """one chain of definition r, chosen at random: (items without references, constraints met on the way)"""
    cons = list(rng.choice(r['cons'])) if r['cons'] else []
    name = []
    for it in r['name']:
        if it['k'] != 'r':
            name.append(it)
            continue
        defs = [d for d in rules if d['id'] == it['r']]
        sub = _expand_random(rules, rng.choice(defs), rng, depth + 1) if defs and depth < 8 else None
        if sub is None:
            return None
        name += sub[0]
        cons += sub[1]
    return name, cons


def chain_names(rules, alpha, rng, L, maxlen=7, limit=24):
    """Names LONGER than L (the bound up to which all names are asked) chosen by looking at the schema: for expanded
    names of L+1 .. maxlen components, the literals in place and the patterns filled with a literal one of their
    constraints allows or with any symbol of the alphabet (a named pattern mostly repeats its value), and the same
    names with one component replaced.  Only a choice of inputs: what the answers must be is decided by Lvs!Check."""
    out, seen = [], set()
    defs = [r for r in rules if any(i['k'] == 'r' for i in r['name']) or len(r['name']) > L]
    for _ in range(4 * limit):
        if len(out) >= limit or not defs:
            break
        ex = _expand_random(rules, rng.choice(defs), rng)
        if ex is None or not L < len(ex[0]) <= maxlen:
            continue
        items, cons = ex
        vals, nm = {}, []
        for it in items:
            if it['k'] == 'v':
                nm.append(it['v'])
                continue
            p = it['p']
            allowed = sorted({o['v'] for c in cons if c['pat'] == p for o in c['opts'] if o['k'] == 'v'} & set(alpha))
            if p[0] != '_' and p in vals and rng.random() < 0.85:
                v = vals[p]
            else:
                v = rng.choice(allowed) if allowed and rng.random() < 0.7 else rng.choice(alpha)
            vals[p] = v
            nm.append(v)
        mut = list(nm)
        k = rng.choice([j for j, it in enumerate(items) if it['k'] == 'p'] or list(range(len(nm)))) if rng.random() < 0.8 \
            else rng.randrange(len(nm))
        mut[k] = rng.choice([c for c in alpha if c != mut[k]] or alpha)
        for n in (nm, mut):
            if tuple(n) not in seen:
                seen.add(tuple(n))
                out.append(n)
    return out[:limit]


# ------------------------------------------------------------------ TLC judge

_RE_TEMPORAL = re.compile(r'Temporal property (\S+) was violated')


def run_tlc(module, cfg, **kw):
    """tlc.run, plus recognition of TLC's "Temporal property X was violated" (tlc.py only knows the
    "Temporal properties were violated" wording and reports the former as a machinery failure)."""
    try:
        return tlc.run(module, cfg, **kw)
    except tlc.MachineryError as e:
        m = _RE_TEMPORAL.search(str(e))
        if not m:
            raise
        r = tlc.TlcResult()
        r.violated = m.group(1)
        r.out = str(e)
        i = r.out.find('Error:')
        r.errtrace = r.out[i:i + 20000]
        for mm in re.finditer(r'(\d+) states generated, (\d+) distinct states found', r.out):
            r.generated, r.distinct = int(mm.group(1)), int(mm.group(2))
        return r


_scratch = []


def scratch(name):
    """a file under build/ that belongs to this process only (several checks / sessions may run at once) and is
    removed when the process ends"""
    import atexit
    if not _scratch:
        atexit.register(lambda: [os.path.exists(f) and os.remove(f) for f in _scratch])
    root, ext = os.path.splitext(name)
    fn = os.path.join(tlc.BUILD, '%s.%d%s' % (root, os.getpid(), ext))
    _scratch.append(fn)
    return fn


def par(jobs):
    """run thunks concurrently (each starts its own TLC process); results in order; first exception re-raised."""
    with ThreadPoolExecutor(len(jobs)) as ex:
        futs = [ex.submit(j) for j in jobs]
        return [f.result() for f in futs]


_RE_R = re.compile(r'^<<\s*"R",', re.M)


def parse_prints(out, marker='R'):
    res = []
    rx = re.compile(r'^<<\s*"%s",' % marker, re.M)
    for m in rx.finditer(out):
        p = tlaval._P(out)
        p.i = m.start()
        res.append(p.value())
    return res


JUDGE_CONSTS = {'MaxNodes': 1, 'MaxLen': 0, 'Corrupt': '"none"', 'CountSteps': 'FALSE', 'DevPrebound': 'FALSE'}


def judge(ctx, recs, tag, procs=4):
    """recs: list of dicts with unique 'sid' and 'kind'. Returns {sid: verdict} (parsed TLA value)."""
    if not recs:
        return {}
    cfg = scratch('LvsJudge_%s.cfg' % tag)
    tlc.write_cfg(cfg, spec=None, init='JInit', next_='JNext', constants=JUDGE_CONSTS)
    nsh = max(1, min(procs, len(recs) // 8 or 1))
    shards = [recs[i::nsh] for i in range(nsh)]
    files = []
    for k, sh in enumerate(shards):
        fn = scratch('lvs-%s-%s-%d.ndjson' % (tag, ctx.tier, k))
        with open(fn, 'w') as f:
            for r in sh:
                f.write(json.dumps(r) + '\n')
        files.append(fn)

    def one(fn):
        return tlc.run('LvsJudge', cfg, workers=1, heavy=False, env={'LVS_IN': fn}, tag='lvsj', timeout=3000)
    with ThreadPoolExecutor(nsh) as ex:
        results = list(ex.map(one, files))
    out = {}
    states = gen = 0
    wall = 0.0
    for r in results:
        for v in parse_prints(r.out):
            out[v[1]] = v[3]
        states += r.distinct
        gen += r.generated
        wall = max(wall, r.wall)
    agg = tlc.TlcResult()
    agg.distinct, agg.generated, agg.wall = states, gen, wall
    ctx.add_tlc('LvsJudge %s (%d records, %d shards)' % (tag, len(recs), nsh), agg)
    missing = [r['sid'] for r in recs if r['sid'] not in out]
    if missing:
        raise tlc.MachineryError('LvsJudge printed no verdict for records %s' % missing[:5])
    return out
