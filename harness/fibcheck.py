"""Shared driver for the properties decided on NdnFib.tla (C04, C05 Interest half, C10 token half, C06)."""
import json, os

from harness import tlc, graph, judge, tlaval
from harness import fibkit
from harness.pitcheck import JUNK_BASIC

INVS = ['TypeOK', 'LongestPrefix', 'AtMostOnce', 'RightHandler', 'IntGate', 'ReplyTruthful', 'TokenEcho']
PROPS = ['ReplyInTime', 'Inert', 'DetachIsolated']
WITNESSES = ['W_Nested', 'W_TokenReply', 'W_LateReply', 'W_ValidatedInt']


def mc_cfg(name, front, N, I, V, ints, maxt, ops, vals='no', reps=0, H='H6', R='Rep_one', E='E_two', J='J_one',
           invs=INVS, props=PROPS):
    p = os.path.join(tlc.BUILD, name + '.cfg')
    tlc.write_cfg(p, constants={'Front': '"%s"' % front, 'Names': '<- N_' + N, 'Handlers': '<- ' + H,
                                'IntTemplates': '<- I_' + I, 'MaxInts': ints, 'MaxT': maxt, 'MaxOps': ops,
                                'MaxReplies': reps, 'Verdicts': '<- V_' + V, 'Vals': '<- Val_' + vals,
                                'Reprs': '<- ' + R, 'Envs': '<- ' + E, 'Junk': '<- ' + J},
                  invariants=invs, properties=props)
    return p


def trace_cfg(front, dev=None, max_ints=12):
    p = os.path.join(tlc.BUILD, 'NdnFibTrace-%s%s.cfg' % (front, '' if max_ints == 12 else '-%d' % max_ints))
    tlc.write_cfg(p, spec='TSpec',
                  constants={'Front': '"%s"' % ('v2' if front == 'dispatcher' else front), 'Names': '<- TrNames', 'Handlers': '<- TrHandlers',
                             'IntTemplates': '<- TrNone', 'MaxInts': max_ints, 'MaxT': 100000, 'MaxOps': 64,
                             'MaxReplies': 64 if max_ints == 12 else 4 * max_ints, 'Verdicts': '<- TrVerdicts', 'Vals': '<- TrNone',
                             'Reprs': '<- TrReprs', 'Envs': '<- TrEnvs', 'Junk': '<- TrJunk'},
                  invariants=['TypeOK', 'AtMostOnce', 'RightHandler', 'IntGate', 'ReplyTruthful', 'TokenEcho'],
                  constraints=['Mark'], postcondition='Post')
    return p


def check_witnesses(module, cfg_all, names):
    """Each witness W_x == ~(situation) must be VIOLATED (the situation is reachable). One short TLC run
    per witness (TLC stops at the first violation), run concurrently."""
    from concurrent.futures import ThreadPoolExecutor
    base = open(cfg_all).read()

    def one(w):
        p = cfg_all.replace('.cfg', '-%s.cfg' % w)
        lines = [l for l in base.splitlines() if not l.startswith('INVARIANT') and not l.startswith('PROPERTY')]
        with open(p, 'w') as f:
            f.write('\n'.join(lines) + '\nINVARIANT %s\n' % w)
        r = tlc.run(module, p, workers=2, heavy=False, timeout=600, tag='w-' + w)
        return w, r.violated
    with ThreadPoolExecutor(len(names)) as ex:
        for w, v in ex.map(one, names):
            if v != w:
                raise tlc.MachineryError('witness %s not reachable (TLC reported %r)' % (w, v))


def stage_a(ctx, configs, required=('Attach', 'AttachDup', 'Detach', 'RecvInterest', 'Tick', 'Shutdown', 'Connect', 'RecvJunk')):
    cov_total = {}
    for label, cfgp in configs:
        r = tlc.run('NdnFibMC', cfgp, coverage=True, workers=ctx.pick(8, 16), timeout=3000)
        ctx.add_tlc(label, r)
        if r.violated:
            ctx.violation('%s/spec/NdnFib/%s' % (ctx.prop, r.violated), 'TLC: %s violated in NdnFib (%s)' % (r.violated, label),
                          {'trace': r.errtrace})
        for a, (d, t) in r.coverage.items():
            cov_total[a] = cov_total.get(a, 0) + t
    for a in required:
        if cov_total.get(a, 0) == 0:
            raise tlc.MachineryError('vacuous: NdnFib action %s never taken in stage A' % a)
    ctx.extra.setdefault('action_coverage', {}).update({'Fib.' + k: v for k, v in cov_total.items()})
    wp = mc_cfg('fib-w', 'v2', 'small', 'small', 'v2two', 1, 2, 2, vals='both', reps=1, invs=WITNESSES, props=[])
    check_witnesses('NdnFibMC', wp, WITNESSES)


def events_of_path(path, vmap=None):
    evs = []
    vmap = vmap or {}
    for act, args, _ in path:
        a = [tlaval.to_json(x) for x in args]
        if act == 'Attach':
            evs.append({'a': act, 'n': a[0], 'h': a[1], 'val': a[2], 'repr': a[3]})
        elif act == 'AttachDup':
            evs.append({'a': act, 'n': a[0], 'h': a[1], 'val': False, 'repr': a[2]})
        elif act == 'Detach':
            evs.append({'a': act, 'n': a[0]})
        elif act == 'RecvInterest':
            evs.append({'a': act, 'it': a[0], 'env': a[1]})
        elif act == 'IntValFinish':
            evs.append({'a': act, 'i': a[0], 'v': vmap.get(a[1], a[1])})
        elif act == 'Reply':
            evs.append({'a': act, 'i': a[0]})
        elif act in ('Tick', 'Shutdown', 'Connect'):
            evs.append({'a': act})
        elif act == 'Jump':
            evs.append({'a': act, 'to': a[0]})
        elif act == 'RecvJunk':
            evs.append({'a': act, 'j': 'junk', 'hex': JUNK_BASIC[len(evs) % len(JUNK_BASIC)]})
        else:
            raise tlc.MachineryError('unknown action in graph: %s' % act)
    return evs


def nontrivial_key(evs):
    acts = [e['a'] for e in evs]
    if acts.count('RecvInterest') >= 1 and (acts.count('Attach') >= 1) and len(acts) >= 3:
        return json.dumps([[e['a']] + [e.get(k) for k in ('n', 'h', 'it', 'i', 'v', 'env', 'repr')] for e in evs], sort_keys=True)
    return None


_GRAPHS = {}


def stage_b(ctx, front, cfgp, label, max_len=30, max_paths=None, vmap=None, graph_key=None):
    if graph_key and graph_key in _GRAPHS:
        g, paths = _GRAPHS[graph_key]
    else:
        g = graph.dump('NdnFibMC', cfgp, workers=ctx.pick(8, 16), tag='fibB')
        ctx.add_tlc('%s graph (%d edges)' % (label, g.n_edges), g.tlc)
        paths = graph.edge_cover_paths(g, max_len=max_len, rng=ctx.rng, skip_self_loops=True)
        if graph_key:
            _GRAPHS[graph_key] = (g, paths)
    total = len(paths)
    if max_paths is not None and len(paths) > max_paths:
        paths = ctx.rng.sample(paths, max_paths)
    ctx.note('B %s %s: %d states, %d edges, %d cover paths, %d executed' % (front, label, len(g.state), g.n_edges, total, len(paths)))
    recs = []
    for init, path in paths:
        sched = events_of_path(path, vmap)
        rec = {'ev': fibkit.run_schedule(front, sched)}
        recs.append(rec)
        k = nontrivial_key(sched)
        if k:
            ctx.nt('B' + front + k)
    if recs:
        ctx.sample({'kind': 'B-schedule', 'front': front, 'events': [[e['a']] + [e.get(k) for k in ('n', 'h', 'i', 'v', 'env') if k in e] for e in recs[len(recs) // 2]['ev']]}, limit=4)
    ctx.traces += len(recs)
    ctx.evaluations += len(recs)
    judge.judge(ctx, 'NdnFibTrace', lambda dev: trace_cfg(front), recs, front, 'fibB-%s-%s' % (ctx.prop, front))
    return len(recs)


NAMES = [[], ['a'], ['a', 'b'], ['a', 'b', 'c'], ['a', 'c'], ['b'], ['a', 'b', 'd'], ['b', 'a']]
DEEP_NAMES = [['a', 'b', 'd', 'e'], ['a', 'b', 'd', 'e', 'f'], ['a', 'b', 'd', 'e', 'f', 'g'], ['b', 'a', 'e', 'f']]
REPRS = ['uri', 'strlist', 'byteslist', 'bytearraylist', 'memviewlist', 'wire', 'wirebuf', 'mutbuf', 'tuple', 'iter']


def random_schedule(rng, front, n_events, weights=None, junk=None, max_ints=10, names=None, verdicts=None, p_params=0.5, p_val=0.6, p_dig=0.75):
    w = dict(Attach=4, AttachDup=1, Detach=2, RecvInterest=8, IntValFinish=5, Reply=4, Tick=3, Shutdown=0.15, Connect=2, RecvJunk=1)
    if weights:
        w.update(weights)
    verdicts = verdicts or (['PASS', 'PASS', 'FAIL', 'TIMEOUT', 'SILENCE', 'BYPASS', 'RAISE'] if front == 'v2' else ['T', 'T', 'F', 'RAISE'])
    names = names or NAMES
    run = fibkit.FibRun(front)
    evs = []
    attached = set()
    ops = 0
    try:
        def emit(ev):
            ev = dict(ev)
            run.apply(ev)
            ev['post'] = run.post()
            evs.append(ev)
        for _ in range(n_events):
            up = run.face.running
            pend = sorted({j for (j, f) in run.vq if not f.done()})
            choices = ['Tick']
            free = [n for n in names if tuple(n) not in attached]
            if free and ops < 60:
                choices.append('Attach')
            if attached and ops < 60:
                choices += ['AttachDup', 'Detach']
            if up and run.nint < max_ints:
                choices.append('RecvInterest')
            if up:
                choices += ['RecvJunk', 'Shutdown']
            else:
                choices.append('Connect')
            if pend:
                choices.append('IntValFinish')
            if front == 'v2' and run.replyfn and len(run.rets) < (60 if max_ints <= 12 else 3 * max_ints):
                choices.append('Reply')
            a = rng.choices(choices, [w.get(c, 1) for c in choices])[0]
            if a == 'Attach':
                n = rng.choice(free)
                emit({'a': a, 'n': n, 'h': ops + 1, 'val': rng.random() < p_val, 'repr': rng.choice(REPRS)})
                attached.add(tuple(n)); ops += 1
            elif a == 'AttachDup':
                n = list(rng.choice(sorted(attached)))
                emit({'a': a, 'n': n, 'h': ops + 1, 'val': False, 'repr': rng.choice(REPRS)})
                ops += 1
            elif a == 'Detach':
                n = list(rng.choice(sorted(attached)))
                emit({'a': a, 'n': n, 'repr': rng.choice(REPRS)})
                attached.discard(tuple(n)); ops += 1
            elif a == 'RecvInterest':
                params = rng.random() < p_params
                signed = (params and rng.random() < 0.5) or (not params and rng.random() < 0.08)
                it = {'name': rng.choice([n for n in names if n] or NAMES[1:]), 'params': params, 'pe': params and rng.random() < 0.3, 'signed': signed,
                      'digOk': (rng.random() < p_dig) if params else not signed,
                      'tok': rng.choice([0, 0, 1, 2, 3, 4, 5]), 'life': rng.choice([0, 1, 1, 2, 3, 400])}
                env = rng.choice(['lp', 'lph', 'lpo']) if it['tok'] else rng.choice(['bare', 'lp', 'lph', 'lpo'])
                emit({'a': a, 'it': it, 'env': env})
            elif a == 'IntValFinish':
                emit({'a': a, 'i': rng.choice(pend), 'v': rng.choice(verdicts)})
            elif a == 'Reply':
                emit({'a': a, 'i': rng.choice(sorted(run.replyfn))})
            elif a == 'RecvJunk':
                hx = (junk(rng) if junk else rng.choice(JUNK_BASIC))
                hx, jc = hx if isinstance(hx, tuple) else (hx, 'junk')
                emit({'a': a, 'j': jc, 'hex': hx})
            elif a == 'Shutdown':
                emit({'a': a})
                if front == 'legacy':
                    attached.clear()
            elif a == 'Connect':
                emit({'a': a})
            else:
                # sometimes a long stretch: up to / past the deadline of an Interest whose lifetime is the 4 s default
                now = run.tick()
                far = sorted({info['dl'] for info in run.intinfo.values() if info.get('dl', 0) > now + 3})
                if far and rng.random() < 0.3:
                    emit({'a': 'Jump', 'to': far[0] + rng.choice([-1, 0, 0, 1])})
                else:
                    emit({'a': 'Tick'})
    finally:
        run.close()
    return {'ev': evs}


def stage_c(ctx, front, n, n_events, **kw):
    recs = []
    for i in range(n):
        rec = random_schedule(ctx.rng, front, n_events, **kw)
        recs.append(rec)
        k = nontrivial_key(rec['ev'])
        if k:
            ctx.nt('C' + front + k)
    if recs:
        ctx.sample({'kind': 'C-trace', 'front': front,
                    'events': [[e['a']] + [e.get(k) for k in ('n', 'h', 'i', 'v', 'env') if k in e] for e in recs[0]['ev']][:30]}, limit=6)
    ctx.traces += len(recs)
    ctx.evaluations += len(recs)
    judge.judge(ctx, 'NdnFibTrace', lambda dev: trace_cfg(front), recs, front, 'fibC-%s-%s' % (ctx.prop, front))
    return recs


def stage_c_long(ctx, front, n, max_ints=100, n_events=600):
    """Beyond the small scope: a few LONG histories on one application object - dozens of Interests that need validation,
    most of whose validators fail or raise, dozens of replies of every size class - judged by NdnFibTrace like the others
    (seeds C04-b1: a counter leaked by every failed validation; C04-b2 / C10-b1: reply sizes)."""
    recs = []
    for i in range(n):
        vs = (['RAISE'] * 6 + ['FAIL', 'TIMEOUT', 'PASS']) if front == 'v2' else (['RAISE'] * 5 + ['F', 'T'])
        if i % 2:
            vs = (['PASS'] * 3 + ['FAIL', 'RAISE', 'BYPASS']) if front == 'v2' else ['T', 'T', 'F', 'RAISE']
        rec = random_schedule(ctx.rng, front, n_events, max_ints=max_ints, verdicts=vs, p_params=0.9, p_val=0.6 if i % 2 else 0.9, p_dig=0.95,
                              names=NAMES + DEEP_NAMES,
                              weights=dict(Attach=2, AttachDup=0.5, Detach=0.5, RecvInterest=10, IntValFinish=9, Reply=6, Tick=1,
                                           Shutdown=0.02, Connect=3, RecvJunk=0.3))
        recs.append(rec)
        ctx.nt('Clong' + front + str(i))
    ctx.traces += len(recs)
    ctx.evaluations += len(recs)
    judge.judge(ctx, 'NdnFibTrace', lambda dev: trace_cfg(front, max_ints=max_ints + 8), recs, front, 'fibL-%s-%s' % (ctx.prop, front))
    return recs
