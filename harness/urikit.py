"""Helpers shared by the pure-function checks C09 / C20.

* read TLC's plain `-dump` output quickly (states whose variables are records of small integers,
  strings, booleans, sequences and sets) by rewriting the TLA+ value text into JSON;
* run several TLC judge batches in parallel (one JVM per batch, one worker each).
"""
import json, os, re
from concurrent.futures import ThreadPoolExecutor

from harness import tlc

_TR = str.maketrans({'[': '{', ']': '}', '{': '[', '}': ']', '\x01': '[', '\x02': ']'})
_KEY = re.compile(r'(\w+) \|->')


def tla_to_json(txt):
    """TLA+ value as printed by TLC -> Python (records -> dict, sequences and sets -> list).
    Only for values without functions (:> @@), model values or strings containing brackets."""
    t = txt.replace('<<', '\x01').replace('>>', '\x02').translate(_TR)
    t = _KEY.sub(r'"\1":', t).replace('TRUE', 'true').replace('FALSE', 'false')
    try:
        return json.loads(t)
    except ValueError as e:
        raise tlc.MachineryError('cannot convert TLC value to JSON: %s: %r' % (e, txt[:200]))


def read_dump(path, variables):
    """Yield {var: value} for every state of a TLC `-dump` file (plain format)."""
    pat = re.compile(r'^/\\ (\w+) = ', re.M)

    def conv(block):
        out = {}
        ms = list(pat.finditer(block))
        for k, m in enumerate(ms):
            name = m.group(1)
            if name not in variables:
                continue
            end = ms[k + 1].start() if k + 1 < len(ms) else len(block)
            out[name] = tla_to_json(block[m.end():end])
        return out

    with open(path) as f:
        buf = []
        for line in f:
            if line.startswith('State '):
                if buf:
                    yield conv(''.join(buf))
                buf = []
            else:
                buf.append(line)
        if buf:
            yield conv(''.join(buf))


_RE_CLAUSE = re.compile(r'"(\w+)"')


def judge_batches(module, cfg, name, recs, chunk, par):
    """Write recs (list of JSON-able dicts) in chunks to build/<name>-<k>.ndjson, run the judge
    module on every chunk (par JVMs at a time). Returns ([TlcResult], {index_in_recs: [clause,...]})."""
    files = []
    for k in range(0, len(recs), chunk):
        p = os.path.join(tlc.BUILD, '%s-%d.ndjson' % (name, k // chunk))
        with open(p, 'w') as f:
            for r in recs[k:k + chunk]:
                f.write(json.dumps(r, separators=(',', ':')) + '\n')
        files.append((k, p))

    def one(kp):
        k, p = kp
        r, rej = tlc.validate_traces(module, cfg, p, tag='%s-%d' % (name, k // chunk))
        return k, r, rej

    results, rejected = [], {}
    with ThreadPoolExecutor(max(1, par)) as ex:
        for k, r, rej in ex.map(one, files):
            results.append(r)
            if r.violated:
                raise tlc.MachineryError('judge module %s: unexpected invariant violation %s' % (module, r.violated))
            n = min(chunk, len(recs) - k)
            if r.distinct != n:
                raise tlc.MachineryError('judge module %s evaluated %d of %d records' % (module, r.distinct, n))
            for i, info in rej:
                rejected[k + i - 1] = _RE_CLAUSE.findall(info or '') or ['unknown']
    return results, rejected
