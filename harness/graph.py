"""Full state graph from `tlc -dump dot,actionlabels` and transition-cover path generation."""
import os, re, shutil, subprocess, tempfile, time, random
from collections import defaultdict, deque

from harness import tlc, tlaval

_STR = r'"((?:[^"\\]|\\.)*)"'
_RE_NODE = re.compile(r'^(-?\d+) \[label=' + _STR + r'(?:,tooltip=' + _STR.replace('(', '(?:', 1) + r')?(,style = filled)?\];?$')
_RE_EDGE = re.compile(r'^(-?\d+) -> (-?\d+) \[label=' + _STR + r',color=.*\];?$')


def _unescape(s):
    # dot label escaping used by TLC: \" for quotes, \\n for newlines inside states, \\ for backslash
    out = []
    i = 0
    while i < len(s):
        c = s[i]
        if c == '\\' and i + 1 < len(s):
            n = s[i + 1]
            if n == 'n':
                out.append('\n'); i += 2; continue
            if n == '"':
                out.append('"'); i += 2; continue
            if n == '\\':
                out.append('\\'); i += 2; continue
        out.append(c)
        i += 1
    return ''.join(out)


class Graph:
    def __init__(self):
        self.state = {}      # id -> parsed state dict
        self.init = []
        self.edges = defaultdict(list)   # id -> [(action, args(list), dst)]
        self.n_edges = 0
        self.tlc = None


def dump(module, cfg, workers=8, timeout=1800, env=None, tag=None, parse_states=True):
    os.makedirs(tlc.BUILD, exist_ok=True)
    d = tempfile.mkdtemp(prefix='dot-%s-' % (tag or module), dir=tlc.BUILD)
    base = os.path.join(d, 'g')
    try:
        r = tlc.run(module, cfg, workers=workers, heavy=True, timeout=timeout, env=env,
                    extra=['-dump', 'dot,actionlabels', base], tag=tag)
        g = Graph()
        g.tlc = r
        with open(base + '.dot') as f:
            for line in f:
                line = line.rstrip('\n')
                m = _RE_EDGE.match(line)
                if m:
                    a, b, lab = m.group(1), m.group(2), _unescape(m.group(3))
                    i = lab.find('(')
                    if i < 0:
                        act, args = lab, []
                    else:
                        act, args = lab[:i], tlaval.parse_args(lab[i + 1:lab.rindex(')')])
                    g.edges[a].append((act, args, b))
                    g.n_edges += 1
                    continue
                m = _RE_NODE.match(line)
                if m:
                    sid, lab, filled = m.group(1), _unescape(m.group(2)), m.group(3)
                    g.state[sid] = tlaval.parse_state(lab) if parse_states else lab
                    if filled:
                        g.init.append(sid)
        return g
    finally:
        shutil.rmtree(d, ignore_errors=True)


def edge_cover_paths(g, max_len=40, max_paths=None, rng=None, skip_self_loops=False):
    """Greedy transition cover: a list of paths [(init_id, [(act,args,dst), ...])] such that every
    edge of the graph is on at least one path (subject to max_paths)."""
    rng = rng or random.Random(0)
    uncovered = set()
    for s, es in g.edges.items():
        for k, (act, args, dst) in enumerate(es):
            if skip_self_loops and dst == s:
                continue
            uncovered.add((s, k))
    # BFS tree from the initial states: parent pointers for shortest prefix to any state
    parent = {}
    dq = deque()
    for i in g.init:
        parent[i] = None
        dq.append(i)
    while dq:
        s = dq.popleft()
        for k, (act, args, dst) in enumerate(g.edges.get(s, ())):
            if dst not in parent:
                parent[dst] = (s, k)
                dq.append(dst)

    def prefix_to(s):
        p = []
        while parent[s] is not None:
            ps, k = parent[s]
            p.append((ps, k))
            s = ps
        p.reverse()
        return s, p

    paths = []
    # successor lookup for "walk to the nearest state that still has an uncovered out-edge"
    has_unc = defaultdict(int)
    for (s, k) in uncovered:
        has_unc[s] += 1

    def take(path, s, k):
        path.append((s, k))
        if (s, k) in uncovered:
            uncovered.discard((s, k))
            has_unc[s] -= 1
        return g.edges[s][k][2]

    def bridge(cur, limit):
        """shortest edge sequence from cur to a state with an uncovered out-edge (BFS, depth<=limit)"""
        seen = {cur: None}
        dq = deque([(cur, 0)])
        while dq:
            s, dpt = dq.popleft()
            if has_unc.get(s, 0) > 0 and s != cur:
                p = []
                while seen[s] is not None:
                    ps, k = seen[s]
                    p.append((ps, k))
                    s = ps
                p.reverse()
                return p
            if dpt >= limit:
                continue
            for k, (act, args, dst) in enumerate(g.edges.get(s, ())):
                if dst not in seen:
                    seen[dst] = (s, k)
                    dq.append((dst, dpt + 1))
        return None

    while uncovered and (max_paths is None or len(paths) < max_paths):
        s0, k0 = min(uncovered) if len(uncovered) < 64 else next(iter(uncovered))
        init, pre = prefix_to(s0)
        path = list(pre)
        cur = take(path, s0, k0)
        while len(path) < max_len:
            cand = [k for k in range(len(g.edges.get(cur, ()))) if (cur, k) in uncovered]
            if cand:
                cur = take(path, cur, cand[0])
                continue
            br = bridge(cur, min(4, max_len - len(path) - 1))
            if not br:
                break
            for (s, k) in br:
                cur = take(path, s, k)
        for (s, k) in pre:
            if (s, k) in uncovered:
                uncovered.discard((s, k))
                has_unc[s] -= 1
        paths.append((init, [g.edges[s][k] for (s, k) in path]))
    return paths


def random_paths(g, n, depth, rng):
    paths = []
    for _ in range(n):
        s = rng.choice(g.init)
        init = s
        p = []
        for _ in range(depth):
            es = g.edges.get(s)
            if not es:
                break
            e = rng.choice(es)
            p.append(e)
            s = e[2]
        paths.append((init, p))
    return paths
