"""Shared driver for the properties decided on NdnPit.tla (C03, C05, C06, C10)."""
import json, os

from harness import tlc, graph, judge, tlaval
from harness import pitkit

INVS = ['TypeOK', 'NoResidue', 'RightOutcome']
PROPS = ['OnceOnly', 'NoUnvalidatedData', 'BufferedValidated', 'BufferedIsDelivered', 'AllAndOnlyMatching', 'JunkInert']
WITNESSES = ['W_NackAtDeadline', 'W_NackFireBoth', 'W_DataAtDeadline', 'W_TimeoutWhileValidating', 'W_TwoSatisfied', 'W_NackOne', 'W_VFail', 'W_LateAwaitData', 'W_RaceData']

JUNK_BASIC = ['6400', '0500', '0600', 'ff', '0a0102', '640350017f', '060107']


def mc_cfg(name, front, entries, maxt, T, V, R='R_one', E='E_one', J='J_one', dev='NoDev', live=False, defer='Def_no', races='Race_no',
           invs=INVS, props=PROPS, reconn=False):
    p = os.path.join(tlc.BUILD, name + '.cfg')
    tlc.write_cfg(p, constants={'Front': '"%s"' % front, 'MaxEntries': entries, 'MaxT': maxt,
                                'Templates': '<- T_' + T, 'DataSet': '<- D_' + T, 'Verdicts': '<- V_' + V,
                                'Reasons': '<- ' + R, 'Envs': '<- ' + E, 'Junk': '<- ' + J, 'Races': '<- ' + races, 'Defer': '<- ' + defer, 'Dev': '<- ' + dev,
                                'Reconn': 'TRUE' if reconn else 'FALSE'},
                  invariants=invs, properties=list(props) + (['Finishes'] if live else []))
    return p


def trace_cfg(front, dev, max_entries=8):
    p = os.path.join(tlc.BUILD, 'NdnPitTrace-%s-%s%s.cfg' % (front, dev or 'strict', '' if max_entries == 8 else '-%d' % max_entries))
    tlc.write_cfg(p, spec='TSpec',
                  constants={'Front': '"%s"' % front, 'MaxEntries': max_entries, 'MaxT': 100000,
                             'Templates': '<- TrNone', 'DataSet': '<- TrNone', 'Verdicts': '<- TrVerdicts',
                             'Reasons': '<- TrReasons', 'Envs': '<- TrEnvs', 'Junk': '<- TrJunk',
                             'Races': '<- Race_no', 'Defer': '<- Def_both', 'Reconn': 'TRUE', 'Dev': '<- ' + ('DevLegacy' if dev == 'legacySlowValidator' else 'NoDev')},
                  invariants=['TypeOK', 'NoResidue'], constraints=['Mark'], postcondition='Post')
    return p


def check_witnesses(module, cfg_all, names):
    """Each witness W_x == ~(situation) must be VIOLATED (the situation is reachable). One short TLC run
    per witness (TLC stops at the first violation), run concurrently."""
    from concurrent.futures import ThreadPoolExecutor
    base = open(cfg_all).read()

    def one(w):
        p = cfg_all.replace('.cfg', '-%s.cfg' % w)
        lines = [l for l in base.splitlines() if not l.startswith('INVARIANT') and not l.startswith('PROPERTY')]
        with open(p, 'w') as f:
            f.write('\n'.join(lines) + '\nINVARIANT %s\n' % w)
        r = tlc.run(module, p, workers=2, heavy=False, timeout=600, tag='w-' + w)
        return w, r.violated
    with ThreadPoolExecutor(len(names)) as ex:
        for w, v in ex.map(one, names):
            if v != w:
                raise tlc.MachineryError('witness %s not reachable (TLC reported %r)' % (w, v))


def stage_a(ctx, configs, witnesses_front='v2'):
    """configs: list of (label, cfgpath). Exhaustive TLC runs with coverage."""
    cov_total = {}
    for label, cfgp in configs:
        r = tlc.run('NdnPitMC', cfgp, coverage=True, workers=ctx.pick(8, 16), timeout=3000)
        ctx.add_tlc(label, r)
        if r.violated:
            ctx.violation('%s/spec/NdnPit/%s' % (ctx.prop, r.violated), 'TLC: %s violated in NdnPit (%s)' % (r.violated, label),
                          {'trace': r.errtrace})
        for a, (d, t) in r.coverage.items():
            cov_total[a] = cov_total.get(a, 0) + t
    for a in ('Express', 'RecvDataX', 'ValFinish', 'Fire', 'Tick', 'Cancel', 'Shutdown', 'RecvNackX', 'RecvNackFire', 'RecvJunk'):
        if cov_total.get(a, 0) == 0:
            raise tlc.MachineryError('vacuous: NdnPit action %s never taken in stage A' % a)
    ctx.extra.setdefault('action_coverage', {}).update(cov_total)
    wp = mc_cfg('pit-w', witnesses_front, 2, 3, 'small', 'v2two', invs=WITNESSES, props=[], defer='Def_both', races='Race_one')
    check_witnesses('NdnPitMC', wp, WITNESSES)


def events_of_path(path, vmap=None):
    """TLC graph path [(act,args,dst)] -> schedule of stimuli events."""
    evs = []
    vmap = vmap or {}
    skip = False
    for k, (act, args, _) in enumerate(path):
        a = [tlaval.to_json(x) for x in args]
        if skip:                     # the Fire that was merged into the packet before it
            skip = False
            continue
        if act in ('RecvData', 'RecvDataX') and (len(a) < 3 or not a[2]) and k + 1 < len(path) and path[k + 1][0] == 'Fire' and (k + len(path)) % 2 == 0:
            # every second "packet, then the timers of the same instant" is delivered as ONE loop iteration
            evs.append({'a': 'RecvDataFire', 'd': a[0], 'env': a[1]})
            skip = True
            continue
        if act == 'Express':
            evs.append({'a': act, 't': a[0], 'defer': bool(a[1])})
        elif act == 'ExpressNow':
            evs.append({'a': 'Express', 't': a[0], 'defer': False})
        elif act == 'ExpressDown':
            evs.append({'a': act, 't': a[0]})
        elif act == 'Await':
            evs.append({'a': act, 'e': a[0]})
        elif act in ('RecvData', 'RecvDataX'):
            evs.append({'a': 'RecvData', 'd': a[0], 'env': a[1], 'x': sorted(a[2]) if len(a) > 2 else []})
        elif act in ('ValFinish', 'LateFinish'):
            evs.append({'a': 'ValFinish', 'e': a[0], 'v': vmap.get(a[1], a[1])})
        elif act in ('Fire', 'Tick', 'Shutdown', 'Connect'):
            evs.append({'a': act})
        elif act == 'Jump':
            evs.append({'a': act, 'to': a[0]})
        elif act == 'Cancel':
            evs.append({'a': act, 'e': a[0]})
        elif act == 'RecvNackFire':
            evs.append({'a': act, 't': a[0], 'r': a[1], 'env': a[2]})
        elif act in ('RecvNack', 'RecvNackX'):
            evs.append({'a': 'RecvNack', 't': a[0], 'r': a[1], 'env': a[2], 'x': sorted(a[3]) if len(a) > 3 else []})
        elif act == 'RecvJunk':
            evs.append({'a': act, 'j': 'junk', 'hex': JUNK_BASIC[len(evs) % len(JUNK_BASIC)]})
        else:
            raise tlc.MachineryError('unknown action in graph: %s' % act)
    return evs


def universe_of(evs):
    ts, ds = [], []
    for e in evs:
        if 't' in e and e['t'] not in ts:
            ts.append(e['t'])
        if 'd' in e and e['d'] not in ds:
            ds.append(e['d'])
    return ts, ds


def record(front, schedule):
    evs = pitkit.run_schedule(front, schedule)
    ts, ds = universe_of(evs)
    # TLC needs a non-empty, homogeneous universe: add a dummy of the right shape
    return {'templates': ts or [{'name': ['zz'], 'cbp': False, 'dig': 0, 'life': 1}],
            'data': ds or [{'name': ['zz'], 'id': 99}], 'ev': evs}


def nontrivial_key(evs):
    acts = [e['a'] for e in evs]
    interesting = sum(1 for a in acts if a in ('Fire', 'Cancel', 'Shutdown', 'RecvNack', 'RecvNackFire', 'ValFinish', 'RecvJunk', 'Await'))
    nexp = acts.count('Express')
    if nexp >= 1 and interesting >= 1 and len(acts) >= 3:
        return json.dumps([[e['a']] + [e.get(k) for k in ('t', 'd', 'e', 'v', 'r', 'env')] for e in evs], sort_keys=True)
    return None


_GRAPHS = {}


def stage_b(ctx, front, cfgp, label, max_len=30, max_paths=None, devs=(), vmap=None, graph_key=None, report_devs=True):
    """Transition cover of the NdnPitMC graph for cfgp, executed on `front`. With graph_key the dumped
    graph and its cover are shared between front-ends (the graphs are isomorphic up to verdict names: vmap)."""
    if graph_key and graph_key in _GRAPHS:
        g, paths = _GRAPHS[graph_key]
    else:
        g = graph.dump('NdnPitMC', cfgp, workers=ctx.pick(8, 16), tag='pitB')
        ctx.add_tlc('%s graph (%d edges)' % (label, g.n_edges), g.tlc)
        paths = graph.edge_cover_paths(g, max_len=max_len, rng=ctx.rng, skip_self_loops=True)
        if graph_key:
            _GRAPHS[graph_key] = (g, paths)
    total = len(paths)
    if max_paths is not None and len(paths) > max_paths:
        paths = ctx.rng.sample(paths, max_paths)
    ctx.note('B %s %s: %d states, %d edges, %d cover paths, %d executed' % (front, label, len(g.state), g.n_edges, total, len(paths)))
    recs = []
    for init, path in paths:
        sched = events_of_path(path, vmap)
        rec = record(front, sched)
        recs.append(rec)
        k = nontrivial_key(sched)
        if k:
            ctx.nt('B' + front + k)
    if recs:
        ctx.sample({'kind': 'B-schedule', 'front': front, 'events': [[e['a']] + [e.get(k) for k in ('e', 'v', 'env') if k in e] for e in recs[len(recs) // 2]['ev']]}, limit=4)
    ctx.traces += len(recs)
    ctx.evaluations += len(recs)
    judge.judge(ctx, 'NdnPitTrace', lambda dev: trace_cfg(front, dev), recs, front, 'pitB-%s-%s' % (ctx.prop, front), devs=devs, report_devs=report_devs)
    return len(recs)


def stage_b_sim(ctx, front, cfgp, label, num, depth, devs=(), vmap=None, report_devs=True):
    """Behaviours sampled by `tlc -simulate` from a configuration too large for a transition cover (3 entries,
    all dimensions open) are executed as schedules and judged like every other execution."""
    behs, viol, out = tlc.simulate('NdnPitMC', cfgp, num=num, depth=depth, seed=ctx.seed % 100000, workers=1, tag='pitsim')
    recs = []
    seen = set()
    for b in behs:
        path = [(a, tlaval.parse_args(p), None) for (a, p, s) in b if a and a != 'Init']
        sched = events_of_path(path, vmap)
        key = json.dumps(sched, sort_keys=True)
        if not sched or key in seen:
            continue
        seen.add(key)
        recs.append(record(front, sched))
        k = nontrivial_key(sched)
        if k:
            ctx.nt('S' + front + k)
    ctx.note('B-sim %s %s: %d simulated behaviours, %d distinct schedules executed' % (front, label, len(behs), len(recs)))
    ctx.traces += len(recs)
    ctx.evaluations += len(recs)
    judge.judge(ctx, 'NdnPitTrace', lambda dev: trace_cfg(front, dev), recs, front, 'pitS-%s-%s' % (ctx.prop, front), devs=devs,
                report_devs=report_devs)
    return len(recs)


# ---------------------------------------------------------------- random schedules (stage C)

NAMES = [['a'], ['a', 'b'], ['a', 'b', 'c'], ['a', 'c'], ['b'], ['a', 'b', 'd']]
# names ending in "P": <base>/<ParametersSha256Digest> - Interests expressed with ApplicationParameters (see pitkit.uri)
ALLN = NAMES + [['a', 'P'], ['a', 'b', 'P']]
# long histories: names four to six components deep (Data below a CanBePrefix Interest several levels up)
DEEP = [['a', 'b', 'd', 'e'], ['a', 'b', 'd', 'e', 'f'], ['a', 'b', 'd', 'e', 'f', 'g']]
ALLN = ALLN + DEEP


NAME_BIAS = [0.0, 0.0]    # long histories: share of Interests / packets that go to ONE name (deep table nodes)


def pick_name(rng):
    if NAME_BIAS[0] and rng.random() < NAME_BIAS[0]:
        return NAMES[1]
    if NAME_BIAS[1] and rng.random() < NAME_BIAS[1]:
        return rng.choice(DEEP)
    return rng.choice(ALLN[len(NAMES):len(NAMES) + 2]) if rng.random() < 0.12 else rng.choice(NAMES)


def next_timer(entries, unfinished, now):
    """earliest instant after now at which a lifetime timer of an awaited, unfinished Interest can be armed"""
    ts = [d for i in unfinished for d in (entries[i]['dl'], entries[i].get('dl2', 0)) if d > now]
    return min(ts) if ts else None


def random_schedule(rng, front, n_events, weights=None, junk=None, verdicts=None, envs=('bare', 'lp', 'lph', 'lpo'),
                    max_entries=6, defer_p=0.2, race_p=0.15, lives=None, drain=12):
    """Generates stimuli on the fly while running the real code (the driver needs to know which
    validators are in flight and which timers are due). Returns the recorded trace record."""
    w = dict(Express=5, RecvData=6, ValFinish=6, Time=6, Cancel=1, Shutdown=0.2, Connect=3, RecvNack=2, RecvJunk=1, Await=3)
    if weights:
        w.update(weights)
    verdicts = verdicts or (['PASS', 'PASS', 'PASS', 'FAIL', 'TIMEOUT', 'SILENCE', 'BYPASS', 'RAISE', 'NONE', 'FALSEV'] if front == 'v2' else ['T', 'T', 'F'])
    run = pitkit.PitRun(front)
    evs = []
    entries = []     # dict(t, dl)
    datas = []
    try:
        def emit(ev):
            run.apply(ev)
            ev = dict(ev)
            ev['post'] = run.post()
            evs.append(ev)
            return ev['post']
        post = None
        for _ in range(n_events):
            now = run.tick()
            unfinished = [i for i, t in enumerate(run.tasks) if t is not None and not t.done()]
            # timers: the spec requires Fire before time passes an unfinished entry's deadline
            due = [i for i in unfinished if entries[i]['dl'] == now]
            # deferred Interests that may be awaited now: before their deadline, or (v2) once a verdict was given
            awaitable = [i for i, t in enumerate(run.tasks) if t is None and (now < entries[i]['dl'] or entries[i].get('verdict'))]
            pend_val = [(i + 1) for i in range(len(run.vfut)) if any(not f.done() for f in run.vfut[i])]
            choices = []
            up = run.face.running
            if up and len(entries) < max_entries:
                choices.append('Express')
            if not up and len(entries) < max_entries:
                choices.append('ExpressDown')
            if not up:
                choices.append('Connect')
            if up:
                choices += ['RecvData', 'RecvNack', 'RecvJunk', 'Shutdown']
            if pend_val:
                choices.append('ValFinish')
            choices.append('Time')
            if unfinished:
                choices.append('Cancel')
            if awaitable:
                choices.append('Await')
            a = rng.choices(choices, [w.get('Express' if c == 'ExpressDown' else c, 1) for c in choices])[0]
            if a in ('Express', 'ExpressDown'):
                name = pick_name(rng)
                dig = 0
                cbp = rng.random() < 0.4
                if rng.random() < 0.15 and name[-1] != 'P':
                    # CanBePrefix together with an implicit digest still names one packet
                    dig = rng.choice([1, 2]) + 10 * ALLN.index(name)
                # 400 ticks = 4000 ms: the lifetime is not given at all and the default applies
                t = {'name': name, 'cbp': cbp, 'dig': dig, 'life': rng.choice(lives or [1, 1, 2, 3, 1, 2, 3, pitkit.DEFAULT_LIFE])}
                df = rng.random() < defer_p
                if front == 'legacy' and not df and rng.random() < 0.08:
                    t['life'] = 0          # times out in the instant it is expressed (NdnPit!ExpressNow)
                if a == 'Express':
                    # every fifth appv2 Interest is expressed with the library's own pass_all validator (answers at once)
                    pa = front == 'v2' and not df and rng.random() < 0.2
                    emit(dict({'a': a, 't': t, 'defer': df}, **({'pa': True} if pa else {})))
                    entries.append({'t': t, 'dl': now + t['life']})
                else:
                    emit({'a': a, 't': t})
            elif a == 'RecvData':
                name = pick_name(rng)
                d = {'name': name, 'id': rng.choice([1, 2]) + 10 * ALLN.index(name)}
                # sometimes the caller cancels an Interest in the very instant the packet is processed
                x = [rng.choice(unfinished) + 1] if unfinished and rng.random() < race_p else []
                if due and not x and rng.random() < 0.6:
                    # the packet and the due lifetime timers are served in one loop iteration (packet first)
                    ev = {'a': 'RecvDataFire', 'd': d, 'env': rng.choice(envs)}
                    run.apply(ev)
                    ev['post'] = run.post()
                    evs.extend(pitkit.split_delivery(ev, run.take_pa_called()))
                    continue
                ev = {'a': a, 'd': d, 'env': rng.choice(envs), 'x': x}
                run.apply(ev)
                ev['post'] = run.post()
                evs.extend(pitkit.split_delivery(ev, run.take_pa_called()))
                continue
            elif a == 'RecvNack':
                if entries and rng.random() < 0.8:
                    t = rng.choice(entries)['t']
                else:
                    t = {'name': pick_name(rng), 'cbp': False, 'dig': 0, 'life': 1}
                x = [rng.choice(unfinished) + 1] if unfinished and rng.random() < race_p else []
                if due and not x and rng.random() < 0.6:
                    # the Nack and the due lifetime timers are served in one loop iteration (Nack first); it then names an
                    # Interest that is due more often than not
                    dues = [en['t'] for en in entries if en['dl'] == now]
                    if dues and rng.random() < 0.7:
                        t = rng.choice(dues)
                    emit({'a': 'RecvNackFire', 't': t, 'r': rng.randint(1, 5), 'env': rng.choice(['lp', 'lph', 'lpo'])})
                    continue
                emit({'a': a, 't': t, 'r': rng.randint(1, 5), 'env': rng.choice(['lp', 'lph', 'lpo']), 'x': x})
            elif a == 'RecvJunk':
                hx = (junk(rng) if junk else rng.choice(JUNK_BASIC))
                hx, jc = hx if isinstance(hx, tuple) else (hx, 'junk')
                emit({'a': a, 'j': jc, 'hex': hx})
            elif a == 'ValFinish':
                e = rng.choice(pend_val)
                emit({'a': a, 'e': e, 'v': rng.choice(verdicts)})
                if front == 'v2':
                    entries[e - 1]['verdict'] = True
            elif a == 'Await':
                k = rng.choice(awaitable)
                emit({'a': a, 'e': k + 1})
                entries[k]['dl2'] = now + entries[k]['t']['life']      # legacy: the lifetime may count from here
            elif a == 'Time':
                if due:
                    emit({'a': 'Fire'})
                else:
                    nxt = next_timer(entries, unfinished, now)
                    if nxt is not None and nxt > now + 1 and rng.random() < 0.5:
                        emit({'a': 'Jump', 'to': rng.choice([nxt, nxt, now + 2 + rng.randrange(nxt - now - 1)])})
                    else:
                        emit({'a': 'Tick'})
            elif a == 'Cancel':
                emit({'a': a, 'e': rng.choice(unfinished) + 1})
            elif a in ('Shutdown', 'Connect'):
                emit({'a': a})
        # drain: resolve validators, pass every deadline; everything must have finished
        for _ in range(drain):
            now = run.tick()
            unfinished = [i for i, t in enumerate(run.tasks) if t is not None and not t.done()]
            pend_val = [(i + 1) for i in range(len(run.vfut)) if any(not f.done() for f in run.vfut[i])]
            if not unfinished and not pend_val:
                break
            nxt = next_timer(entries, unfinished, now)
            if [i for i in unfinished if entries[i]['dl'] == now]:
                emit({'a': 'Fire'})
            elif pend_val and rng.random() < 0.5:
                emit({'a': 'ValFinish', 'e': pend_val[0], 'v': verdicts[0]})
            elif nxt is not None and nxt > now + 1:
                emit({'a': 'Jump', 'to': nxt})
            else:
                emit({'a': 'Tick'})
    finally:
        run.close()
    ts, ds = universe_of(evs)
    return {'templates': ts or [{'name': ['zz'], 'cbp': False, 'dig': 0, 'life': 1}],
            'data': ds or [{'name': ['zz'], 'id': 99}], 'ev': evs}


def stage_c(ctx, front, n, n_events, devs=(), report_devs=True, **kw):
    recs = []
    for i in range(n):
        rec = random_schedule(ctx.rng, front, n_events, **kw)
        recs.append(rec)
        k = nontrivial_key(rec['ev'])
        if k:
            ctx.nt('C' + front + k)
    if recs:
        ctx.sample({'kind': 'C-trace', 'front': front,
                    'events': [[e['a']] + [e.get(k) for k in ('e', 'v', 'env') if k in e] for e in recs[0]['ev']][:30]}, limit=6)
    ctx.traces += len(recs)
    ctx.evaluations += len(recs)
    judge.judge(ctx, 'NdnPitTrace', lambda dev: trace_cfg(front, dev), recs, front, 'pitC-%s-%s' % (ctx.prop, front), devs=devs, report_devs=report_devs)
    return recs


def stage_c_long(ctx, front, n, devs=(), report_devs=True, max_entries=48, n_events=420, **kw):
    """Beyond the small scope: a few LONG histories on one application object - dozens of Interests, many of them pending
    together on a handful of names (several entries per table node), lifetimes from one tick to 70 s (InterestLifetime values
    that take one, two and four octets), many cancellations - judged by NdnPitTrace like the short ones."""
    recs = []
    for i in range(n):
        w = dict(Express=12, RecvData=4, ValFinish=5, Time=3, Cancel=0.6, Shutdown=0.01, Connect=3, RecvNack=0.8, RecvJunk=0.3, Await=3)
        w.update(kw.get('weights') or {})
        NAME_BIAS[0] = 0.55 if i % 2 == 0 else 0.0
        NAME_BIAS[1] = 0.0 if i % 2 == 0 else 0.35
        try:
            rec = random_schedule(ctx.rng, front, n_events, weights=w, max_entries=max_entries, drain=3 * max_entries,
                                  lives=[2, 3, 5, 8, 20, 26, 30, 660, 7000, 7000, pitkit.DEFAULT_LIFE],
                                  **{k: v for k, v in kw.items() if k != 'weights'})
        finally:
            NAME_BIAS[0] = NAME_BIAS[1] = 0.0
        recs.append(rec)
        ctx.nt('Clong' + front + str(i))
    ctx.traces += len(recs)
    ctx.evaluations += len(recs)
    judge.judge(ctx, 'NdnPitTrace', lambda dev: trace_cfg(front, dev, max_entries=max_entries + 2), recs, front,
                'pitL-%s-%s' % (ctx.prop, front), devs=devs, report_devs=report_devs)
    return recs
