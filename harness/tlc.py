"""TLC driver: exhaustive runs, simulation (behaviour export), trace-batch validation.

Exit-code discipline: anything that is a *machinery* failure (SANY error, timeout,
missing output) raises MachineryError -> bin/check exits 2, never a VIOLATION.
"""
import os, re, shutil, subprocess, tempfile, time, json

VERIF = os.path.dirname(os.path.dirname(os.path.abspath(__file__)))
SPEC = os.path.join(VERIF, 'spec')
BUILD = os.path.join(VERIF, 'build')
JARS = '/opt/veriftools/tla/tla2tools.jar:/opt/veriftools/tla/CommunityModules-deps.jar'


class MachineryError(Exception):
    pass


class TlcResult:
    def __init__(self):
        self.generated = 0
        self.distinct = 0
        self.depth = 0
        self.ok = False
        self.violated = None        # name of violated invariant / property, or 'deadlock'
        self.out = ''
        self.coverage = {}          # action name -> (distinct, total)
        self.wall = 0.0
        self.errtrace = ''

    def __repr__(self):
        return 'TlcResult(ok=%s gen=%d distinct=%d depth=%d violated=%s wall=%.1f)' % (
            self.ok, self.generated, self.distinct, self.depth, self.violated, self.wall)


def _java(heavy, workers):
    if heavy:
        return ['java', '-XX:+UseParallelGC', '-Xmx%s' % os.environ.get('VERIF_TLC_HEAP', '8g'),
                '-Dtlc2.tool.fp.FPSet.impl=tlc2.tool.fp.OffHeapDiskFPSet', '-cp', JARS, 'tlc2.TLC']
    return ['java', '-XX:+UseSerialGC', '-Xmx2g', '-Xss16m', '-cp', JARS, 'tlc2.TLC']


def write_cfg(path, spec='Spec', constants=None, invariants=(), properties=(), constraints=(),
              action_constraints=(), postcondition=None, deadlock=False, view=None, init=None, next_=None,
              symmetry=None, raw=''):
    lines = []
    if init:
        lines += ['INIT %s' % init, 'NEXT %s' % next_]
    elif spec:
        lines.append('SPECIFICATION %s' % spec)
    if constants:
        lines.append('CONSTANTS')
        for k, v in constants.items():
            lines.append('  %s = %s' % (k, v) if not str(v).startswith('<-') else '  %s %s' % (k, v))
    for i in invariants:
        lines.append('INVARIANT %s' % i)
    for p in properties:
        lines.append('PROPERTY %s' % p)
    for c in constraints:
        lines.append('CONSTRAINT %s' % c)
    for c in action_constraints:
        lines.append('ACTION_CONSTRAINT %s' % c)
    if postcondition:
        lines.append('POSTCONDITION %s' % postcondition)
    if view:
        lines.append('VIEW %s' % view)
    if symmetry:
        lines.append('SYMMETRY %s' % symmetry)
    lines.append('CHECK_DEADLOCK %s' % ('TRUE' if deadlock else 'FALSE'))
    if raw:
        lines.append(raw)
    with open(path, 'w') as f:
        f.write('\n'.join(lines) + '\n')
    return path


_RE_STATES = re.compile(r'(\d+) states generated, (\d+) distinct states found')
_RE_DEPTH = re.compile(r'depth of the complete state graph search is (\d+)')
_RE_INV = re.compile(r'Invariant (\S+) is violated')
# TLC names a violated action property by name or by position ("Action property line 5, col 3 to line 7, col 9 of module M is violated")
_RE_PROP = re.compile(r'(?:Action property|Temporal propert(?:y|ies)) '
                      r'(?:line \d+, col \d+ to line \d+, col \d+ of module )?(\S*) ?(?:is|was|were) violated')
_RE_COV = re.compile(r'^<(\w+) line \d+, col \d+ to line \d+, col \d+ of module (\w+)(?: \(\d+ \d+ \d+ \d+\))?>: (\d+):(\d+)', re.M)


def run(module, cfg, workers=None, heavy=True, timeout=1800, env=None, extra=(), cwd=None,
        coverage=False, tag=None):
    """Run TLC on spec/<module>.tla with config file cfg (absolute or relative to build/)."""
    os.makedirs(BUILD, exist_ok=True)
    workers = workers or int(os.environ.get('VERIF_WORKERS', '16' if heavy else '1'))
    meta = tempfile.mkdtemp(prefix='md-%s-' % (tag or module), dir=BUILD)
    cmd = _java(heavy, workers) + ['-workers', str(workers), '-config', cfg, '-metadir', meta,
                                    '-noGenerateSpecTE']
    if coverage:
        cmd += ['-coverage', '1']
    cmd += list(extra) + [module]
    e = dict(os.environ)
    if env:
        e.update({k: str(v) for k, v in env.items()})
    t0 = time.time()
    try:
        p = subprocess.run(cmd, cwd=cwd or SPEC, env=e, stdout=subprocess.PIPE, stderr=subprocess.STDOUT,
                           timeout=timeout, text=True, errors='replace')
    except subprocess.TimeoutExpired as ex:
        shutil.rmtree(meta, ignore_errors=True)
        raise MachineryError('TLC timeout after %ss on %s %s' % (timeout, module, cfg))
    finally:
        pass
    shutil.rmtree(meta, ignore_errors=True)
    r = TlcResult()
    r.wall = time.time() - t0
    r.out = p.stdout
    m = None
    for m in _RE_STATES.finditer(p.stdout):
        pass
    if m:
        r.generated, r.distinct = int(m.group(1)), int(m.group(2))
    m = _RE_DEPTH.search(p.stdout)
    if m:
        r.depth = int(m.group(1))
    for m in _RE_COV.finditer(p.stdout):
        d0, t0_ = r.coverage.get(m.group(1), (0, 0))     # an action split into several sub-actions is reported once per part
        r.coverage[m.group(1)] = (d0 + int(m.group(3)), t0_ + int(m.group(4)))
    mi = _RE_INV.search(p.stdout)
    mp = _RE_PROP.search(p.stdout)
    if mi:
        r.violated = mi.group(1)
    elif mp:
        r.violated = mp.group(1) or 'temporal'
    elif 'Deadlock reached' in p.stdout:
        r.violated = 'deadlock'
    elif 'The postcondition has failed' in p.stdout or 'postcondition' in p.stdout.lower() and 'violat' in p.stdout.lower():
        r.violated = 'postcondition'
    if r.violated:
        i = p.stdout.find('Error:')
        r.errtrace = p.stdout[i:i + 20000]
    r.ok = ('Model checking completed. No error has been found' in p.stdout) and not r.violated
    if not r.ok and not r.violated:
        # parse / semantic / evaluation error: machinery failure
        raise MachineryError('TLC failed on %s (%s):\n%s' % (module, cfg, p.stdout[-6000:]))
    return r


def eval_only(module, cfg, env=None, timeout=1800, heavy=False, workers=1, cwd=None):
    """Run TLC on a module whose work is done by ASSUME / POSTCONDITION side effects."""
    return run(module, cfg, workers=workers, heavy=heavy, timeout=timeout, env=env, cwd=cwd)


# ---------------------------------------------------------------- simulation export

_RE_ACT = re.compile(r'^\\\* <(\w+)(?:\((.*)\))? line \d+, col \d+ to line \d+, col \d+ of module \w+>\s*$')


def simulate(module, cfg, num, depth, seed, workers=1, timeout=900, env=None, tag=None):
    """tlc -simulate file=...: returns list of behaviours; each behaviour is a list of
    (action_name, params_text_or_None, state_text) where state_text is the TLA+ conjunction."""
    os.makedirs(BUILD, exist_ok=True)
    out = tempfile.mkdtemp(prefix='sim-%s-' % (tag or module), dir=BUILD)
    meta = tempfile.mkdtemp(prefix='md-sim-', dir=BUILD)
    cmd = _java(False, workers) + ['-workers', str(workers), '-config', cfg, '-metadir', meta,
                                   '-noGenerateSpecTE', '-simulate', 'file=%s/tr,num=%d' % (out, num),
                                   '-depth', str(depth), '-seed', str(seed), module]
    e = dict(os.environ)
    if env:
        e.update({k: str(v) for k, v in env.items()})
    try:
        p = subprocess.run(cmd, cwd=SPEC, env=e, stdout=subprocess.PIPE, stderr=subprocess.STDOUT,
                           timeout=timeout, text=True, errors='replace')
    except subprocess.TimeoutExpired:
        shutil.rmtree(out, ignore_errors=True); shutil.rmtree(meta, ignore_errors=True)
        raise MachineryError('TLC simulate timeout on %s' % module)
    shutil.rmtree(meta, ignore_errors=True)
    if 'Error:' in p.stdout and 'violated' not in p.stdout:
        shutil.rmtree(out, ignore_errors=True)
        raise MachineryError('TLC simulate failed on %s:\n%s' % (module, p.stdout[-4000:]))
    behs = []
    for fn in sorted(os.listdir(out)):
        with open(os.path.join(out, fn)) as f:
            txt = f.read()
        behs.append(parse_sim_file(txt))
    shutil.rmtree(out, ignore_errors=True)
    viol = None
    mi = _RE_INV.search(p.stdout) or _RE_PROP.search(p.stdout)
    if mi:
        viol = mi.group(1)
    return behs, viol, p.stdout


def parse_sim_file(txt):
    steps = []
    cur_act = None
    cur_par = None
    buf = []
    in_state = False
    for line in txt.splitlines():
        m = _RE_ACT.match(line)
        if m:
            cur_act, cur_par = m.group(1), m.group(2)
            continue
        if line.startswith('STATE_'):
            in_state = True
            buf = []
            continue
        if in_state:
            if line.strip() == '':
                if buf:
                    steps.append((cur_act, cur_par, '\n'.join(buf)))
                    buf = []
                in_state = False
            else:
                buf.append(line)
    if in_state and buf:
        steps.append((cur_act, cur_par, '\n'.join(buf)))
    return steps


# ---------------------------------------------------------------- trace batches

_RE_REJ = re.compile(r'<<"REJECTED", (\d+)(?:, ([^>]*))?>>')


def validate_traces(module, cfg, trace_file, timeout=1800, env=None, tag=None, heavy=False):
    """Run a *Trace module over an ndjson file (IOEnv.TRACE_FILE). The module's POSTCONDITION
    prints <<"REJECTED", i, ...>> for every trace not fully consumed. Returns (TlcResult, rejected ids)."""
    e = {'TRACE_FILE': trace_file}
    if env:
        e.update(env)
    os.makedirs(BUILD, exist_ok=True)
    meta = tempfile.mkdtemp(prefix='md-tr-%s-' % (tag or module), dir=BUILD)
    cmd = _java(heavy, 1) + ['-workers', '1', '-config', cfg, '-metadir', meta, '-noGenerateSpecTE', module]
    ee = dict(os.environ)
    ee.update({k: str(v) for k, v in e.items()})
    t0 = time.time()
    try:
        p = subprocess.run(cmd, cwd=SPEC, env=ee, stdout=subprocess.PIPE, stderr=subprocess.STDOUT,
                           timeout=timeout, text=True, errors='replace')
    except subprocess.TimeoutExpired:
        shutil.rmtree(meta, ignore_errors=True)
        raise MachineryError('TLC trace validation timeout on %s' % module)
    shutil.rmtree(meta, ignore_errors=True)
    r = TlcResult()
    r.wall = time.time() - t0
    r.out = p.stdout
    m = None
    for m in _RE_STATES.finditer(p.stdout):
        pass
    if m:
        r.generated, r.distinct = int(m.group(1)), int(m.group(2))
    rejected = [(int(a), b) for a, b in _RE_REJ.findall(p.stdout)]
    mi = _RE_INV.search(p.stdout)
    if mi:
        r.violated = mi.group(1)
        i = p.stdout.find('Error:')
        r.errtrace = p.stdout[i:i + 20000]
    completed = 'Model checking completed' in p.stdout or 'postcondition' in p.stdout.lower()
    if not completed and not r.violated:
        raise MachineryError('TLC trace run failed on %s:\n%s' % (module, p.stdout[-6000:]))
    if not rejected and not r.violated and 'No error has been found' not in p.stdout:
        raise MachineryError('TLC trace run ended abnormally on %s:\n%s' % (module, p.stdout[-6000:]))
    r.ok = not rejected and not r.violated
    return r, rejected


def sany(module):
    p = subprocess.run(['java', '-cp', JARS, 'tla2sany.SANY', module + '.tla'], cwd=SPEC,
                       stdout=subprocess.PIPE, stderr=subprocess.STDOUT, text=True)
    ok = p.returncode == 0 and 'Semantic errors' not in p.stdout and 'Parse Error' not in p.stdout \
        and 'Fatal errors' not in p.stdout and 'Could not' not in p.stdout
    return ok, p.stdout
