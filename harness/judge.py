"""Batch trace validation with the strict spec first, then with named deviations (known findings).

recs: list of dicts {"ev":[{a,...,post}], ...universe fields...}.  Each rejected trace is re-validated
with each deviation set; if a deviation explains it the violation signature is
'<prop>/<front>/DEV:<name>' (to be matched by known_findings.json), otherwise a signature is derived
from the rejected event."""
import json, os
from concurrent.futures import ThreadPoolExecutor

from harness import tlc


def _summ(prev, cur):
    """Stable summary of what the rejected event changed in the observed projection."""
    if cur.get('bg'):
        return 'internal-error[%s]' % ','.join(cur.get('bgw', []))[:120]
    parts = []
    po = (prev or {}).get('out', [])
    co = cur.get('out', [])
    ch = sorted({c['k'] for i, c in enumerate(co) if i >= len(po) or po[i] != c} - {'none'})
    if ch:
        parts.append('finished=' + '+'.join(ch))
    for k in cur:
        if k in ('out', 'bg', 'bgw', 'now', 'at', 'vnew'):
            continue
        if prev is not None and prev.get(k) != cur.get(k):
            parts.append('%s-changed' % k)
    return ','.join(parts) or 'no-observable-change'


def signature(prop, front, rec, lno):
    ev = rec['ev']
    if not (1 <= lno <= len(ev)):
        return '%s/%s/end-of-trace' % (prop, front), None
    bad = ev[lno - 1]
    prev = ev[lno - 2]['post'] if lno >= 2 else None
    cls = ('[%s]' % bad['j']) if bad.get('a') == 'RecvJunk' and bad.get('j', 'junk') != 'junk' else ''
    return '%s/%s/%s%s/%s' % (prop, front, bad['a'], cls, _summ(prev, bad['post'])), bad


def _chunks(recs, n):
    k = max(1, (len(recs) + n - 1) // n)
    return [recs[i:i + k] for i in range(0, len(recs), k)]


def _run_one(module, cfgpath, recs, tag, idx):
    tf = os.path.join(tlc.BUILD, '%s-%d.ndjson' % (tag, idx))
    with open(tf, 'w') as f:
        for r in recs:
            f.write(json.dumps(r) + '\n')
    r, rej = tlc.validate_traces(module, cfgpath, tf, tag='%s-%d' % (tag, idx))
    try:
        os.unlink(tf)
    except OSError:
        pass
    return r, rej


def validate(ctx, module, cfgpath, recs, tag, parallel=8):
    """Returns list of (index into recs, rejected-at line). Accumulates TLC stats in ctx."""
    if not recs:
        return []
    parts = _chunks(recs, min(parallel, max(1, len(recs) // 50)))
    out = []
    with ThreadPoolExecutor(len(parts)) as ex:
        futs = [ex.submit(_run_one, module, cfgpath, p, tag, i) for i, p in enumerate(parts)]
        base = 0
        for p, f in zip(parts, futs):
            r, rej = f.result()
            ctx.add_tlc('%s traces(%d)' % (module, len(p)), r)
            if r.violated:
                # an invariant failed on a recorded trace: report on the whole part
                ctx.violation('%s/trace-invariant/%s' % (ctx.prop, r.violated),
                              'invariant %s violated while validating recorded traces' % r.violated,
                              {'errtrace': r.errtrace})
            for tid, info in rej:
                out.append((base + tid - 1, int(info) if info and info.strip().isdigit() else 0))
            base += len(p)
    return out


def judge(ctx, module, cfg_for, recs, front, tag, devs=(), report_devs=True):
    """cfg_for(devname|None) -> cfg path. Reports violations into ctx. Returns number rejected (strict)."""
    rej = validate(ctx, module, cfg_for(None), recs, tag)
    remaining = rej
    for dev in devs:
        if not remaining:
            break
        sub = [recs[i] for i, _ in remaining]
        rej2 = validate(ctx, module, cfg_for(dev), sub, tag + '-' + dev)
        still = {i for i, _ in rej2}
        nxt = []
        for k, (i, lno) in enumerate(remaining):
            if k in still:
                nxt.append((i, dict(rej2)[k]))
            else:
                sig, bad = signature(ctx.prop, front, recs[i], lno)
                if not report_devs:
                    # the deviation is another property's known finding; here it only explains the trace
                    ctx.extra['explained_by_' + dev] = ctx.extra.get('explained_by_' + dev, 0) + 1
                    continue
                ctx.violation('%s/%s/DEV:%s' % (ctx.prop, front, dev),
                              'explained only by deviation %s; first strict rejection: %s' % (dev, sig),
                              {'kind': 'trace', 'front': front, 'rec': recs[i], 'rejected_at': lno, 'dev': dev})
        remaining = nxt
    for i, lno in remaining:
        sig, bad = signature(ctx.prop, front, recs[i], lno)
        ctx.violation(sig, 'trace rejected by %s at event %d: %s' % (module, lno, json.dumps(bad)[:600]),
                      {'kind': 'trace', 'front': front, 'rec': recs[i], 'rejected_at': lno})
    return len(rej)
