"""bin/check dispatcher."""
import argparse, importlib, json, os, sys, traceback

from harness import core
from harness.tlc import MachineryError


def main():
    ap = argparse.ArgumentParser()
    ap.add_argument('prop', nargs='?')
    ap.add_argument('--tier', default=os.environ.get('VERIF_TIER', 'quick'), choices=['quick', 'thorough'])
    ap.add_argument('--replay')
    ap.add_argument('--setup', action='store_true')
    ap.add_argument('--stage', default='ABC', help='subset of stages A,B,C to run (development)')
    a = ap.parse_args()
    if a.setup:
        from harness import setup
        sys.exit(setup.run())
    prop = a.prop.upper()
    seed = int(os.environ.get('VERIF_SEED', '20260924'))
    core.use_repo()
    mod = importlib.import_module('harness.props.%s' % prop.lower())
    ctx = core.Ctx(prop, a.tier, seed)
    ctx.stages = a.stage.upper()
    try:
        if a.replay:
            rc = mod.replay(ctx, a.replay)
            sys.exit(rc)
        mod.run(ctx)
        rc = ctx.finish()
    except MachineryError as e:
        print('MACHINERY-FAILURE property=%s: %s' % (prop, e), file=sys.stderr)
        # a check that had already recorded violations when it could not go on (typically: the changed library left it
        # nothing to continue with) reports them - stopping silently would hide what it had found
        if ctx.violations and not a.replay:
            rc = ctx.finish()
            sys.exit(rc if rc else 2)
        sys.exit(2)
    except SystemExit:
        raise
    except BaseException:
        traceback.print_exc()
        print('MACHINERY-FAILURE property=%s: unexpected exception in the harness' % prop, file=sys.stderr)
        sys.exit(2)
    sys.exit(rc)


if __name__ == '__main__':
    main()
