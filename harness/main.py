"""bin/check dispatcher."""
import argparse, importlib, json, os, sys, traceback

from harness import core
from harness.tlc import MachineryError


def main():
    ap = argparse.ArgumentParser()
    ap.add_argument('prop', nargs='?')
    ap.add_argument('--tier', default=os.environ.get('VERIF_TIER', 'quick'), choices=['quick', 'thorough'])
    ap.add_argument('--replay')
    ap.add_argument('--setup', action='store_true')
    ap.add_argument('--stage', default='ABC', help='subset of stages A,B,C to run (development)')
    a = ap.parse_args()
    if a.setup:
        from harness import setup
        sys.exit(setup.run())
    prop = a.prop.upper()
    seed = int(os.environ.get('VERIF_SEED', '20260924'))
    core.use_repo()
    mod = importlib.import_module('harness.props.%s' % prop.lower())
    ctx = core.Ctx(prop, a.tier, seed)
    ctx.stages = a.stage.upper()
    try:
        if a.replay:
            rc = mod.replay(ctx, a.replay)
            sys.exit(rc)
        mod.run(ctx)
        rc = ctx.finish()
    except MachineryError as e:
        print('MACHINERY-FAILURE property=%s: %s' % (prop, e), file=sys.stderr)
        # a check that had already recorded violations when it could not go on (typically: the changed library left it
        # nothing to continue with) reports them - stopping silently would hide what it had found
        if ctx.violations and not a.replay:
            rc = ctx.finish()
            sys.exit(rc if rc else 2)
        sys.exit(2)
    except SystemExit:
        raise
    except BaseException as e:
        traceback.print_exc()
        # An exception that the LIBRARY raised (innermost frame in its sources) where the check did not expect one: the
        # code under test does not do what the check's driver relies on - a violation, not a fault of the machinery
        # (a check that merely stopped on a changed tree would hide what it ran into).
        tb = traceback.extract_tb(e.__traceback__)
        lib = os.path.join(core.repo_root(), 'src') + os.sep
        if tb and os.path.abspath(tb[-1].filename).startswith(os.path.abspath(lib)) and not a.replay:
            where = '%s:%s' % (os.path.relpath(tb[-1].filename, lib), tb[-1].name)
            ctx.violation('%s/unexpected-library-exception/%s/%s' % (prop, type(e).__name__, where),
                          'the library raised %s: %s in %s where the check relies on it not to' % (type(e).__name__, e, where),
                          {'kind': 'exception', 'traceback': traceback.format_exc()[-3000:]})
            rc = ctx.finish()
            sys.exit(rc if rc else 2)
        print('MACHINERY-FAILURE property=%s: unexpected exception in the harness' % prop, file=sys.stderr)
        sys.exit(2)
    sys.exit(rc)


if __name__ == '__main__':
    main()
