"""Executor for the producer side (NdnFib.tla): attached handlers, incoming Interests, Interest
validators, reply callback with deadline and PIT-token echo; both front-ends on the virtual loop."""
import asyncio as aio

from harness.appkit import Session, new_app, deliver, enc, ndn_types
from harness.pitkit import lp_wrap, TICK_MS
from harness import strict_tlv as st

TOKENS = [None, b'\x01', b'\xaa' * 8, b'', bytes(range(32)), b'T' * 33]     # index -> PIT token bytes
NONCE0 = 0x5000


# The spec component "c" stands for an ImplicitSha256Digest component: a prefix may end in any component type, and an
# Interest name may end in one (seed round 6: the handler lookup dropped a trailing digest component, attach did not).
DIGEST_C = 'sha256digest=' + '5c' * 32


def comp_uri(c):
    return DIGEST_C if c == 'c' else c


def nm(comps):
    """spec name (sequence of short strings) -> URI string"""
    return '/' + '/'.join(comp_uri(c) for c in comps)


def name_repr(comps, kind):
    """The same name in every accepted representation."""
    uri = nm(comps)
    formal = enc.Name.from_str(uri)
    if kind == 'uri':
        return uri
    if kind == 'strlist':
        return [comp_uri(c) for c in comps]
    if kind == 'byteslist':
        return [bytes(c) for c in formal]
    if kind == 'tuple':
        return tuple(bytes(c) for c in formal)
    if kind == 'iter':
        return (bytes(c) for c in formal)            # a one-shot iterator is an Iterable of components too
    if kind == 'bytearraylist':
        return [bytearray(c) for c in formal]
    if kind == 'memviewlist':
        return [memoryview(bytes(c)) for c in formal]
    if kind == 'wire':
        return bytes(enc.Name.to_bytes(formal))
    if kind == 'wirebuf':
        # the encoded name in a scratch buffer which the caller reuses afterwards (see scribble())
        return bytearray(enc.Name.to_bytes(formal))
    if kind == 'mutbuf':
        # components as writable views into one scratch buffer which the caller reuses afterwards
        buf = bytearray(b''.join(bytes(c) for c in formal))
        out, off = [], 0
        for c in formal:
            out.append(memoryview(buf)[off:off + len(c)])
            off += len(c)
        return out
    raise ValueError(kind)


def scribble(rep):
    """The caller reuses the scratch buffer it passed a name in: overwrite it."""
    if isinstance(rep, bytearray):
        for i in range(len(rep)):
            rep[i] = 0x2a
    elif isinstance(rep, list):
        for c in rep:
            if isinstance(c, memoryview) and not c.readonly:
                c[:] = b'\x2a' * len(c)


class FibRun:
    def __init__(self, front):
        self.front = front
        self.sess = Session()
        self.sess.__enter__()
        self.loop = self.sess.loop
        self.t0 = self.loop.time()
        self.app, self.face = new_app(front, debug_log=True)
        self.face.running = False
        self.main = self.sess.spawn(self.app.main_loop())
        self.loop.settle()
        self.handled = []       # {'h','i'}
        self.wire = []
        self.rets = []
        self.injected = []      # exceptions the harness validators raised on purpose
        self.good_digests = []  # parameter digests of the correctly built Interests delivered so far
        self.replyfn = {}       # int id -> reply callable (v2)
        self.intinfo = {}       # int id -> dict(it, name, wire)
        self.vq = []            # pending validator futures: (int id, fut)
        self.vnew = []
        self.bg = []
        self.cur = None         # int id being delivered (attribution of validator calls in legacy)
        self.nint = 0
        self.natt = 0
        self.seen_out = 0
        if front == 'legacy':
            self.app.int_validator = self.validator()

    def close(self):
        self.app._verif_restore_log()
        self.sess.__exit__(None, None, None)

    def tick(self):
        return int(round((self.loop.time() - self.t0) * 1000)) // TICK_MS

    def int_id_of(self, param):
        n = getattr(param, 'nonce', None)
        if n is None:
            return 0
        return n - NONCE0

    def validator(self):
        async def hv(name, sig, ctx=None):
            if getattr(hv, 'retired', False):
                # legacy: app.int_validator was reassigned since; the validator "in force" is the current one
                self.bg.append('retired-int-validator-called')
            if getattr(hv, 'refused', False):
                # the validator that came with a registration the library REFUSED (prefix taken): it judges nothing
                self.bg.append('refused-registration-validator-called')
            if ctx is not None:
                i = self.int_id_of(ctx['int_param'])
            else:
                i = self.cur or 0
            fut = self.loop.create_future()
            self.vq.append((i, fut))
            self.vnew.append(i)
            return await fut
        return hv

    def handler(self, h):
        if self.front == 'v2':
            def on_int(name, app_param, reply, context):
                i = self.int_id_of(context['int_param'])
                self.handled.append({'h': h, 'i': i})
                self.replyfn[i] = reply
                info = self.intinfo.get(i)
                if info is None or enc.Name.to_str(name) != enc.Name.to_str(info['fullname']):
                    self.bg.append('handler-got-wrong-name')
                elif (app_param is None) != (not (info['it']['params'] or info['it']['signed'])):
                    self.bg.append('handler-got-wrong-app-param')
        else:
            def on_int(name, param, app_param, **kw):
                i = self.int_id_of(param)
                self.handled.append({'h': h, 'i': i})
                info = self.intinfo.get(i)
                if info is None or enc.Name.to_str(name) != enc.Name.to_str(info['fullname']):
                    self.bg.append('handler-got-wrong-name')
        return on_int

    def post(self):
        for c in self.loop.errors:
            ex = c.get('exception')
            if any(ex is x for x in self.injected):
                continue
            self.bg.append('loop:' + (type(ex).__name__ if ex is not None else str(c.get('message'))[:40]))
        self.loop.errors.clear()
        self.scan_out()
        if hasattr(self.face, 'overwritten') and self.face.overwritten() and 'sent-buffer-overwritten-after-send' not in self.bg:
            # seed C10-b2: replies encoded into a scratch buffer of the application that the transport still holds
            self.bg.append('sent-buffer-overwritten-after-send')
        p = {'now': self.tick(), 'up': bool(self.face.running), 'handled': list(self.handled),
             'wire': list(self.wire), 'rets': list(self.rets), 'natt': self.count_attached(),
             'vnew': sorted(self.vnew), 'bg': len(self.bg), 'bgw': sorted(set(self.bg))}
        self.vnew = []
        return p

    def count_attached(self):
        tree = self.app._fib if self.front == 'v2' else self.app._prefix_tree
        return sum(1 for node in tree.itervalues() if node.callback is not None)

    def scan_out(self):
        """Classify everything the application put on the face since the last look."""
        while self.seen_out < len(self.face.out):
            w = self.face.out[self.seen_out]
            self.seen_out += 1
            try:
                top = st.read_tlv(w)
                if len(top) != 1:
                    raise st.TlvError('not-one-element')
                t, v = top[0]
                if t == 0x05:
                    continue          # a registration command of the application (legacy register()), not a reply
                tok = None
                env = 'bare'
                inner = w
                if t == 0x64:
                    env = 'lp'
                    els = st.read_tlv(v)
                    types_ = [e[0] for e in els]
                    if sorted(types_) != sorted(set(types_)) or set(types_) - {0x62, 0x50}:
                        env = 'lp-unexpected-headers'
                    elif types_ and types_[-1] != 0x50:
                        env = 'lp-fragment-not-last'
                    tok = dict(els).get(0x62)
                    inner = dict(els).get(0x50, b'')
                # which reply is it?
                rid = None
                for (i, k), dw in self.sent_data.items():
                    if dw == bytes(inner):
                        rid = i
                if rid is None:
                    self.wire.append({'i': 0, 'tok': -1, 'env': 'modified-or-unknown'})
                    continue
                tokidx = 0 if tok is None else (TOKENS.index(bytes(tok)) if bytes(tok) in TOKENS[1:] else -1)
                self.wire.append({'i': rid, 'tok': tokidx, 'env': env})
            except st.TlvError:
                self.wire.append({'i': 0, 'tok': -1, 'env': 'malformed'})

    sent_data = None
    natt_dups = 0

    # ---- stimuli
    def apply(self, ev):
        a = ev['a']
        loop = self.loop
        if self.sent_data is None:
            self.sent_data = {}
        if a in ('Attach', 'AttachDup'):
            rep = name_repr(ev['n'], ev['repr'])
            val = self.validator() if ev.get('val') else None
            if a == 'AttachDup' and self.natt_dups % 2 == 0:
                # every second duplicate declaration brings a validator of its own (seed C05-b1: the refused registration
                # must leave the owner's validator in place)
                val = self.validator()
                val.refused = True
            if a == 'AttachDup':
                self.natt_dups += 1
            # every third (first-time) attach goes through the other public entry point that installs a handler:
            # appv2 route() (= attach_handler + auto-registration list), legacy register() (= set_interest_filter + one
            # registration command, which nobody answers here)
            self.natt_calls = getattr(self, 'natt_calls', 0) + 1
            other = a == 'Attach' and self.natt_calls % 3 == 0 and self.face.running
            try:
                if self.front == 'v2':
                    if other:
                        self.app.route(rep, val)(self.handler(ev['h']))
                    else:
                        self.app.attach_handler(rep, self.handler(ev['h']), val)
                elif other:
                    t = loop.create_task(self.app.register(rep, self.handler(ev['h']), val))

                    def done(t):
                        # the caller of register() gets its result: False (nobody answers), or the documented
                        # NetworkError when the face went down while the call was waiting for its turn
                        if not t.cancelled() and t.exception() is not None and \
                                not isinstance(t.exception(), (ndn_types.NetworkError, ValueError)):
                            self.bg.append('register:' + type(t.exception()).__name__)
                    t.add_done_callback(done)
                    loop.settle(timers_now=False)
                    if t.done() and not t.cancelled() and isinstance(t.exception(), ValueError):
                        raise t.exception()
                else:
                    self.app.set_interest_filter(rep, self.handler(ev['h']), val)
                ev['raised'] = False
            except ValueError:
                ev['raised'] = True
            # the caller may reuse its buffer as soon as a SYNCHRONOUS call has returned; legacy register() is a coroutine
            # that is still running (waiting for the forwarder), its argument has to stay as it is until it is done
            if not (other and self.front == 'legacy'):
                scribble(rep)
            loop.settle(timers_now=False)
        elif a == 'Detach':
            rep = name_repr(ev['n'], ev.get('repr', 'uri'))
            try:
                if self.front == 'v2':
                    self.app.detach_handler(rep)
                else:
                    self.app.unset_interest_filter(rep)
            except Exception as ex:  # noqa
                self.bg.append('detach:' + type(ex).__name__)
            scribble(rep)
            loop.settle(timers_now=False)
        elif a == 'RecvInterest':
            it = ev['it']
            self.nint += 1
            i = self.nint
            if self.front == 'legacy' and i % 3 == 0:
                # the application replaces its default Interest validator while handlers are attached (seed round 6:
                # the default had been frozen into the handler entry at attach time)
                self.app.int_validator.retired = True
                self.app.int_validator = self.validator()
            signer = None
            app_param = None
            if it['params'] or it['signed']:
                app_param = b'' if it.get('pe') else b'P%d' % i
            if it['signed']:
                # who signed does not matter for the gate: a signed Interest is one that carries SignatureInfo - also when
                # its SignatureValue is empty (NullSigner) - and the validator in force decides
                from ndn.security.signer import DigestSha256Signer, NullSigner, HmacSha256Signer
                signer = (DigestSha256Signer(), NullSigner(), HmacSha256Signer('/fib/KEY/k', b'0123456789abcdef'))[i % 3]
            # life 400 ticks stands for "no InterestLifetime element": the default of 4000 ms applies
            life_ms = None if it['life'] == 400 else it['life'] * TICK_MS
            # components below every attached prefix do not change the route; unusual ones must not disturb delivery
            sfx = [[], [enc.Component.from_bytes(b'\x01' + bytes(8), enc.Component.TYPE_SEGMENT)], [enc.Component.from_bytes(b'')],
                   [enc.Component.from_bytes(b'x', 65535)]][i % 4]
            # fields that do not matter for dispatch, varied with the Interest number
            ip = enc.InterestParam(lifetime=life_ms, nonce=NONCE0 + i, can_be_prefix=(i % 3 == 0), must_be_fresh=(i % 5 == 0),
                                   hop_limit=(None, 0, 5, 255)[i % 4],
                                   forwarding_hint=([enc.Name.from_str('/hint/%d' % i)] if i % 6 == 2 else []))
            if it['signed'] and not it['params']:
                # signature elements but no ApplicationParameters (and therefore no digest component): built by hand, the
                # library's encoder always adds parameters
                from harness import strict_tlv as st
                comps = [(0x08, c.encode()) for c in it['name']] + [bytes(x) for x in sfx]
                els = [(0x07, comps), (0x0a, (NONCE0 + i).to_bytes(4, 'big'))]
                if life_ms is not None:
                    els.append((0x0c, life_ms))
                els += [(0x2c, [(0x1b, 0)]), (0x2e, bytes(32) if i % 2 else b'')]
                w = st.write_tlv([(0x05, els)])
                fullname = enc.parse_interest(w)[0]
            else:
                w, fullname = enc.make_interest(enc.Name.from_str(nm(it['name'])) + sfx, ip, app_param, signer=signer,
                                                need_final_name=True)
            w = bytearray(w)
            if it['signed'] and not it['params']:
                pass
            elif (it['params'] or it['signed']) and not it['digOk']:
                dig = bytes(enc.Component.get_value(fullname[-1]))
                k = bytes(w).find(dig)
                assert k >= 0 and len(dig) == 32
                # a wrong digest is either a damaged one or the (correct) digest of an earlier Interest's parameters
                prev = [d for d in self.good_digests if d != dig]
                if prev and i % 2 == 0:
                    w[k:k + 32] = prev[-1]
                else:
                    w[k + 5] ^= 0x40
                fullname = enc.parse_interest(bytes(w))[0]
            elif it['params'] or it['signed']:
                self.good_digests.append(bytes(enc.Component.get_value(fullname[-1])))
            w = bytes(w)
            self.intinfo[i] = {'it': it, 'fullname': fullname, 'wire': w, 'dl': self.tick() + it['life']}
            tok = TOKENS[it['tok']]
            if ev['env'] != 'bare':
                w = lp_wrap(w, token=tok, extra=(ev['env'] == 'lph'), odd=(ev['env'] == 'lpo'))
            self.cur = i
            ex = deliver(self.sess, self.face, w, timers_now=False)
            self.cur = None
            if ex is not None:
                self.bg.append('receive:' + type(ex).__name__)
        elif a == 'IntValFinish':
            i, v = ev['i'], ev['v']
            pend = [(j, f) for (j, f) in self.vq if j == i and not f.done()]
            if pend:
                f = pend[0][1]
                if v == 'RAISE':
                    # the application's validator fails (e.g. an unknown key): nothing was accepted, the Interest must
                    # not reach the handler; the exception itself surfacing in the loop's handler is the validator's
                    # own and is not counted against the library
                    ex = KeyError('validator failed: unknown key')
                    self.injected.append(ex)
                    f.set_exception(ex)
                elif self.front == 'v2':
                    f.set_result({'PASS': ndn_types.ValidResult.PASS, 'FAIL': ndn_types.ValidResult.FAIL,
                                  'TIMEOUT': ndn_types.ValidResult.TIMEOUT, 'SILENCE': ndn_types.ValidResult.SILENCE,
                                  'BYPASS': ndn_types.ValidResult.ALLOW_BYPASS}[v])
                else:
                    variants = {'T': [True, 1, 'x'], 'F': [False, 0, None, '']}[v]
                    f.set_result(variants[i % len(variants)])
            loop.settle(timers_now=False)
        elif a == 'Reply':
            i = ev['i']
            fn = self.replyfn.get(i)
            k = sum(1 for r in self.rets if r['i'] == i)
            info = self.intinfo.get(i)
            if fn is None or info is None:
                self.rets.append({'i': i, 'ret': 'no-reply-callback'})
            else:
                # every other reply is a full-size segment; every fifth a Data whose size sits on a TLV length boundary
                # (243..256 octets: with a PIT token the envelope's length crosses 253 while the fragment's does not;
                # 65530..65540) or is larger than a forwarder's MTU (8.8 kB) - seeds C10-b1, C04-b2
                body = b'R%d-%d' % (i, k) + (b'.' * 1500 if (i + k) % 2 else b'')
                dw = bytes(enc.make_data(info['fullname'], enc.MetaInfo(), body))
                self.nreplies = getattr(self, 'nreplies', 0) + 1
                if self.nreplies % 5 in (2, 4):
                    target = (list(range(243, 257)) + [8801, 9000, 65530, 65535, 65536, 65540])[(self.nreplies // 5 * 2 + self.nreplies % 5 // 4) % 20]
                    base = b'R%d-%d' % (i, k)
                    pad = max(0, target - len(bytes(enc.make_data(info['fullname'], enc.MetaInfo(), base))))
                    for _ in range(4):
                        dw2 = bytes(enc.make_data(info['fullname'], enc.MetaInfo(), base + b'.' * pad))
                        if len(dw2) == target or pad == 0:
                            break
                        pad = max(0, pad - (len(dw2) - target))
                    dw = dw2
                self.sent_data[(i, k)] = dw
                try:
                    r = fn(dw)
                    self.rets.append({'i': i, 'ret': 'T' if r is True else 'F' if r is False else 'other:%r' % (r,)})
                except ndn_types.NetworkError:
                    self.rets.append({'i': i, 'ret': 'E'})
                except Exception as ex:  # noqa
                    self.rets.append({'i': i, 'ret': 'raised:' + type(ex).__name__})
            loop.settle(timers_now=False)
        elif a == 'Tick':
            loop.settle(timers_now=True)
            loop.set_time(self.t0 + (self.tick() + 1) * TICK_MS / 1000.0)
            loop.settle(timers_now=True)
        elif a == 'Jump':
            target = self.t0 + ev['to'] * TICK_MS / 1000.0
            loop.advance_to(target - 0.0005)
            loop.set_time(target)
            loop.settle(timers_now=True)
        elif a == 'Shutdown':
            self.app.shutdown()
            loop.settle(timers_now=False)
        elif a == 'Connect':
            # main_loop again on the same application object (the previous one has returned)
            self.main = self.sess.spawn(self.app.main_loop())
            loop.settle(timers_now=False)
        elif a == 'RecvJunk':
            w = bytes.fromhex(ev['hex'])
            ex = deliver(self.sess, self.face, w, timers_now=False) if len(w) > 0 else None
            if ex is not None:
                self.bg.append('receive:' + type(ex).__name__)
        else:
            raise ValueError(a)


class DispatcherRun:
    """ndn.app_support.dispatcher.Dispatcher driven through the same events as a front-end (it is a handler
    table without validators, tokens or replies): Attach = register, Detach = unregister, RecvInterest = dispatch."""
    def __init__(self):
        from ndn.app_support.dispatcher import Dispatcher
        self.d = Dispatcher()
        self.handled = []
        self.bg = []
        self.nint = 0
        self.natt = 0

    def close(self):
        pass

    def apply(self, ev):
        a = ev['a']
        if a in ('Attach', 'AttachDup'):
            h = ev['h']
            try:
                rep = name_repr(ev['n'], ev['repr'])
                self.d.register(rep, lambda name, param, app_param, h=h: self.handled.append({'h': h, 'i': param.nonce - NONCE0}))
                ev['raised'] = False
                self.natt += 1
                scribble(rep)
            except ValueError:
                ev['raised'] = True
        elif a == 'Detach':
            try:
                self.d.unregister(name_repr(ev['n'], ev.get('repr', 'uri')))
                self.natt -= 1
            except Exception as ex:  # noqa
                self.bg.append('detach:' + type(ex).__name__)
        elif a == 'RecvInterest':
            self.nint += 1
            before = len(self.handled)
            ret = self.d.dispatch(enc.Name.from_str(nm(ev['it']['name'])), enc.InterestParam(nonce=NONCE0 + self.nint), None)
            if bool(ret) != (len(self.handled) > before):
                self.bg.append('dispatch-return-value-untruthful')
        elif a in ('Tick', 'Jump', 'RecvJunk', 'Shutdown', 'Connect'):
            pass
        else:
            raise ValueError(a)

    def post(self):
        return {'now': 0, 'up': True, 'handled': list(self.handled), 'wire': [], 'rets': [], 'natt': self.natt,
                'vnew': [], 'bg': len(self.bg), 'bgw': sorted(set(self.bg))}


def run_schedule(front, schedule):
    r = DispatcherRun() if front == 'dispatcher' else FibRun(front)
    out = []
    try:
        for ev in schedule:
            ev2 = dict(ev)
            r.apply(ev2)
            ev2['post'] = r.post()
            out.append(ev2)
    finally:
        r.close()
    return out
