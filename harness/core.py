"""Check context: evidence, violations vs known findings, exit codes.

exit 0  property held on everything explored (KNOWN-FINDING lines allowed)
exit 1  at least one VIOLATION line (violation not listed in known_findings.json)
exit 2  machinery failure (never a VIOLATION)
"""
import fnmatch, json, os, sys, time, hashlib, random

VERIF = os.path.dirname(os.path.dirname(os.path.abspath(__file__)))
EVID = os.path.join(VERIF, 'evidence')
BUILD = os.path.join(VERIF, 'build')
KF_FILE = os.path.join(VERIF, 'known_findings.json')


def repo_root():
    return os.environ.get('VERIF_REPO', '/repo')


def use_repo():
    """Make `import ndn` resolve to the working tree under test (default /repo)."""
    src = os.path.join(repo_root(), 'src')
    if src not in sys.path:
        sys.path.insert(0, src)
    os.environ.setdefault('PYTHON_NDN_VERIF', '1')


class Ctx:
    def __init__(self, prop, tier, seed):
        self.prop = prop
        self.tier = tier
        self.seed = seed
        self.quick = tier == 'quick'
        self.t0 = time.time()
        self.rng = random.Random(seed)
        self.states = 0
        self.transitions = 0
        self.traces = 0            # traces_validated_against_impl (B paths + C traces executed on real code)
        self.evaluations = 0
        self.nontrivial = set()    # distinct non-trivial case keys
        self.samples = []
        self.violations = []       # dicts: sig, what, replay
        self.notes = []
        self.tlc_runs = []
        self.assumptions = []
        self.rule = ''
        self.level = 'model_checking'
        self.extra = {}
        os.makedirs(os.path.join(EVID, 'replay', prop), exist_ok=True)
        os.makedirs(BUILD, exist_ok=True)
        # per-run scratch directory: concurrent runs of checks never share generated files
        from harness import tlc as _tlc
        self.scratch = os.path.join(BUILD, 'run-%s-%s-%d' % (prop, tier, os.getpid()))
        os.makedirs(self.scratch, exist_ok=True)
        _tlc.BUILD = self.scratch

    # ---- bookkeeping
    def pick(self, quick, thorough):
        return quick if self.quick else thorough

    def add_tlc(self, name, r):
        self.states += r.distinct
        self.transitions += r.generated
        self.tlc_runs.append({'cfg': name, 'distinct': r.distinct, 'generated': r.generated,
                              'depth': r.depth, 'wall_s': round(r.wall, 1)})

    def sample(self, s, limit=6):
        if len(self.samples) < limit:
            self.samples.append(s)

    def nt(self, key):
        self.nontrivial.add(key if isinstance(key, (str, int)) else json.dumps(key, sort_keys=True, default=str))

    def note(self, s):
        self.notes.append(s)
        print('[%s] %s' % (self.prop, s), flush=True)

    def replay_path(self, name, obj):
        h = hashlib.sha1(json.dumps(obj, sort_keys=True, default=str).encode()).hexdigest()[:10]
        p = os.path.join(EVID, 'replay', self.prop, '%s-%s.json' % (name, h))
        with open(p, 'w') as f:
            json.dump(obj, f, indent=1, default=str)
        return p

    def violation(self, sig, what, replay_obj):
        """sig: stable signature string 'Cxx/<front-or-fn>/<action>/<field-or-invariant>[/detail]'."""
        for v in self.violations:
            if v['sig'] == sig:
                v['count'] += 1
                return
        path = self.replay_path(sig.replace('/', '_').replace(' ', '')[:80], replay_obj)
        self.violations.append({'sig': sig, 'what': what, 'replay': path, 'count': 1})

    # ---- finish
    def finish(self):
        known = load_known(self.prop)
        n_viol = 0
        kf_lines = []
        for v in self.violations:
            k = match_known(known, v['sig'])
            if k is not None:
                kf_lines.append('KNOWN-FINDING: property=%s %s [%s] (%s; %d occurrence(s))' % (
                    self.prop, k['what'], k['id'], v['sig'], v['count']))
                v['known'] = k['id']
            else:
                n_viol += 1
                print('VIOLATION property=%s replay=%s' % (self.prop, v['replay']))
                print('  signature: %s\n  what: %s' % (v['sig'], v['what']))
        for l in sorted(set(kf_lines)):
            print(l)
        wall = time.time() - self.t0
        cov = {
            'states': int(self.states),
            'transitions': int(self.transitions),
            'traces_validated_against_impl': int(self.traces),
            'evaluations': int(self.evaluations),
            'distinct_nontrivial': len(self.nontrivial),
            'rule': self.rule,
            'samples': self.samples or ['(none)'],
            'tlc_runs': self.tlc_runs,
            'notes': self.notes[-40:],
            'known_findings_hit': sorted({v.get('known') for v in self.violations if v.get('known')}),
        }
        cov.update(self.extra)
        ev = {
            'property_id': self.prop, 'tier': self.tier, 'seed': int(self.seed), 'level': self.level,
            'coverage': cov, 'assumptions': self.assumptions, 'wall_s': round(wall, 2),
            'violations': n_viol,
        }
        # runs against another tree (VERIF_REPO, seeded-change experiments) must not overwrite the evidence
        # of the tree under /repo
        evdir = EVID if os.path.realpath(repo_root()) == '/repo' else os.path.join(EVID, 'alt')
        os.makedirs(evdir, exist_ok=True)
        with open(os.path.join(evdir, self.prop + '.json'), 'w') as f:
            json.dump(ev, f, indent=1, default=str)
        import shutil
        shutil.rmtree(self.scratch, ignore_errors=True)
        print('[%s] tier=%s states=%d transitions=%d impl-traces=%d evaluations=%d nontrivial=%d violations=%d wall=%.1fs' % (
            self.prop, self.tier, self.states, self.transitions, self.traces, self.evaluations,
            len(self.nontrivial), n_viol, wall), flush=True)
        return 1 if n_viol else 0


def load_known(prop):
    items = []
    try:
        with open(KF_FILE) as f:
            items = json.load(f)
    except FileNotFoundError:
        pass
    d = os.path.join(VERIF, 'known_findings.d')
    if os.path.isdir(d):
        for fn in sorted(os.listdir(d)):
            if fn.endswith('.json'):
                with open(os.path.join(d, fn)) as f:
                    items += json.load(f)
    return [k for k in items if k.get('property') == prop and k.get('status') == 'known']


def match_known(known, sig):
    for k in known:
        pats = k['sig'] if isinstance(k['sig'], list) else [k['sig']]
        for p in pats:
            if fnmatch.fnmatchcase(sig, p):
                return k
    return None
