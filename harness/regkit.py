"""C17 executor: drives prefix registration of both front-ends on the virtual loop.

* Scenario      one application (appv2.NDNApp + NfdRegister, or legacy app.NDNApp) with a scripted
                wall clock, stimuli = the external actions of spec/NfdReg.tla, projection = the
                observables the property names (command Interests on the wire, return values).
* decode_command  independent strict-TLV decoding + signature/digest check of a command Interest.
* make_reply    forwarder replies built with the strict TLV writer (never with ndn.encoding).
* Walker        belief-set walk over a TLC state graph whose spec is nondeterministic at the
                deviation points (used by C17 and C14): stimuli come from the planned path, the
                implementation picks the branch, the walker keeps every state that explains what
                was observed.
"""
import asyncio as aio
import hashlib
import logging
import time as _time

from harness.vloop import Session
from harness import strict_tlv as T

from ndn import appv2, app as app1, types as ndn_types
from ndn.transport.face import Face

logging.getLogger('ndn').setLevel(100)   # also keeps LogRecord creation (a time.time() call) out of the scripted clock

T0_MS = 1_700_000_000_000          # wall-clock value of spec clock 0 (ms)
CP, NAME, GENERIC, PARAMS_DIGEST = 0x68, 0x07, 0x08, 0x02
INTEREST, DATA, LP = 0x05, 0x06, 0x64

# Nack reason codes: the assigned ones (0, 50, 100, 150), their neighbours, and large / unassigned values
NACK_REASONS = [150, 0, 1, 49, 50, 51, 100, 151, 255, 256, 1000, 65536, 2 ** 32, 2 ** 64 - 1]
# payload lengths of the "long" prefix: with them the command name crosses 253 bytes before / after the digest component
LONG_LENS = list(range(150, 265, 5)) + [181, 182, 183, 184, 214, 215, 216, 217, 218, 219]
STATUS = {'r200': 200, 'r400': 400, 'r403': 403, 'r503': 503}
# The spec's reply kinds r400 / r403 / r503 are three representatives of "a status other than 200". The executor
# instantiates them with codes of every class: other 2xx, 1xx / 3xx, 0, codes >= 600, codes whose low bits are 200.
STATUS_CODES = {'r200': [200],
                'r400': [400, 201, 204, 299, 399, 404],
                'r403': [403, 0, 100, 199, 300, 409],
                'r503': [503, 600, 65536 + 200, 2 ** 32 + 200, 2 ** 64 - 1, 500]}

GARBAGE = b'\xde\xad\xbe\xef\x00garbage'


class WireError(Exception):
    def __init__(self, check, msg=''):
        super().__init__('%s %s' % (check, msg))
        self.check = check


# ------------------------------------------------------------------ faces / apps

class RegFace(Face):
    """Virtual local face: records what is sent; isLocalFace is synchronous like the real faces."""
    def __init__(self):
        super().__init__()
        self.out = []
        self.stop = None

    async def open(self):
        self.running = True
        self.stop = aio.get_running_loop().create_future()

    def shutdown(self):
        self.running = False
        if self.stop is not None and not self.stop.done():
            self.stop.set_result(None)

    def send(self, data):
        self.out.append(bytes(data))

    async def run(self):
        await self.stop

    local = True

    def isLocalFace(self):
        return self.local


class _V2App(appv2.NDNApp):
    """appv2.NDNApp whose Data validator can be made to fail by the harness: NfdRegister hard-wires
    pass_all, so a validation failure of the reply is injected at the public express() boundary."""
    fail_next_validation = False

    def express(self, name, validator, **kwargs):
        orig = validator

        async def v(n, sig, ctx):
            if self.fail_next_validation:
                self.fail_next_validation = False
                return ndn_types.ValidResult.FAIL
            return await orig(n, sig, ctx)
        return super().express(name, v, **kwargs)


class _Keychain:
    def get_signer(self, kwargs):
        from ndn.security.signer import DigestSha256Signer
        return DigestSha256Signer()


# ------------------------------------------------------------------ strict decoding of commands

def _sha(*parts):
    h = hashlib.sha256()
    for p in parts:
        h.update(p)
    return h.digest()


def _name_uri(comps):
    out = []
    for t, v in comps:
        if t != GENERIC:
            raise WireError('prefix-component-type', str(t))
        out.append(v.decode('ascii'))
    return '/' + '/'.join(out)


def _control_parameters(value):
    """value of the ControlParameters name component -> prefix URI (strict)."""
    try:
        tree = T.read_tlv(value, {CP: {NAME: None}})
    except T.TlvError as e:
        raise WireError('control-parameters-tlv', str(e))
    if len(tree) != 1 or tree[0][0] != CP:
        raise WireError('control-parameters-shape')
    fields = tree[0][1]
    names = [v for t, v in fields if t == NAME]
    if len(names) != 1 or fields[0][0] != NAME:
        raise WireError('control-parameters-name')
    try:
        comps = T.read_tlv(names[0])
    except T.TlvError as e:
        raise WireError('control-parameters-name-tlv', str(e))
    return _name_uri(comps), [t for t, _ in fields]


def decode_command(wire, fmt, local=True):
    """Strictly decode one command Interest. Returns dict(verb, prefix, ts, nonce) or raises WireError
    naming the failed check."""
    try:
        top = T.read_elements(wire)
    except T.TlvError as e:
        raise WireError('interest-tlv', str(e))
    if len(top) != 1 or top[0][0] != INTEREST:
        raise WireError('not-a-single-interest')
    _, _, iv, iend = top[0]
    try:
        els = T.read_elements(wire, iv, iend)
    except T.TlvError as e:
        raise WireError('interest-tlv', str(e))
    types = [e[0] for e in els]
    if not types or types[0] != NAME:
        raise WireError('name-first')
    _, _, nv, nend = els[0]
    try:
        comps = T.read_elements(wire, nv, nend)
    except T.TlvError as e:
        raise WireError('name-tlv', str(e))
    cvals = [(t, wire[a:b], wire[o:b]) for (t, o, a, b) in comps]    # (type, value, whole TLV)
    if len(cvals) < 5:
        raise WireError('command-name-length')
    head = [v for t, v, _ in cvals[:4]]
    # commands go to /localhost/nfd on a local face, to /localhop/nfd on a face to a remote forwarder
    if any(t != GENERIC for t, _, _ in cvals[:5]) or head[:3] != [b'localhost' if local else b'localhop', b'nfd', b'rib']:
        raise WireError('command-name-prefix', repr(head))
    verb = head[3].decode('ascii', 'replace')
    if verb not in ('register', 'unregister'):
        raise WireError('command-verb', verb)
    prefix, cp_fields = _control_parameters(cvals[4][1])
    rest = {t: (a, b, o) for (t, o, a, b) in els[1:]}
    if 0x0c not in rest or T.read_uint(wire[rest[0x0c][0]:rest[0x0c][1]]) != 1000:
        raise WireError('lifetime')
    if 0x0a not in rest or rest[0x0a][1] - rest[0x0a][0] != 4:
        raise WireError('nonce')
    if fmt == 'v2':
        # /localhost/nfd/rib/<verb>/<ControlParameters>/<params-sha256>, signed Interest (packet format 0.3)
        if len(cvals) != 6 or cvals[5][0] != PARAMS_DIGEST or len(cvals[5][1]) != 32:
            raise WireError('params-digest-component')
        if types[-3:] != [0x24, 0x2c, 0x2e]:
            raise WireError('signed-interest-elements', repr(types))
        ap_off = rest[0x24][2]
        if _sha(wire[ap_off:iend]) != cvals[5][1]:
            raise WireError('params-digest-value')
        try:
            si = dict((t, wire[a:b]) for (t, o, a, b) in T.read_elements(wire, rest[0x2c][0], rest[0x2c][1]))
        except T.TlvError as e:
            raise WireError('signature-info-tlv', str(e))
        if 0x1b not in si or T.read_uint(si[0x1b]) != 0:
            raise WireError('signature-type')
        if 0x28 not in si or 0x26 not in si:
            raise WireError('signature-time-or-nonce-missing')
        sv = wire[rest[0x2e][0]:rest[0x2e][1]]
        covered = b''.join(w for _, _, w in cvals[:5]) + wire[ap_off:rest[0x2e][2]]
        if len(sv) != 32 or _sha(covered) != sv:
            raise WireError('signature-value')
        ts = T.read_uint(si[0x28])
        nonce = bytes(si[0x26])
    else:
        # signed Interest 0.2 command: .../<ControlParameters>/<timestamp>/<nonce>/<SignatureInfo>/<SignatureValue>
        if len(cvals) != 9 or any(t != GENERIC for t, _, _ in cvals):
            raise WireError('legacy-command-components', str(len(cvals)))
        if 0x24 in rest or 0x2c in rest or 0x2e in rest:
            raise WireError('legacy-command-has-parameters')
        if len(cvals[5][1]) != 8 or len(cvals[6][1]) != 8:
            raise WireError('legacy-timestamp-or-nonce-size')
        try:
            si = T.read_tlv(cvals[7][1], {0x16: None})
            sv = T.read_tlv(cvals[8][1])
        except T.TlvError as e:
            raise WireError('legacy-signature-components-tlv', str(e))
        if len(si) != 1 or si[0][0] != 0x16:
            raise WireError('legacy-signature-info')
        sif = dict(T.read_tlv(si[0][1]))
        if 0x1b not in sif or T.read_uint(sif[0x1b]) != 0:
            raise WireError('signature-type')
        if len(sv) != 1 or sv[0][0] != 0x17 or len(sv[0][1]) != 32:
            raise WireError('legacy-signature-value-shape')
        if _sha(*[w for _, _, w in cvals[:8]]) != sv[0][1]:
            raise WireError('signature-value')
        ts = int.from_bytes(cvals[5][1], 'big')
        nonce = bytes(cvals[6][1])
    return {'verb': verb, 'prefix': prefix, 'ts': ts, 'nonce': nonce, 'cp_fields': cp_fields,
            'name_tlv': bytes(wire[els[0][1]:nend])}


# ------------------------------------------------------------------ forwarder replies (strict writer)

BODY_FIELDS = [('name', NAME, 'name'), ('face_id', 0x69, 'uint'), ('uri', 0x72, 'text'), ('local_uri', 0x81, 'text'),
               ('origin', 0x6f, 'uint'), ('cost', 0x6a, 'uint'), ('capacity', 0x83, 'uint'), ('count', 0x84, 'uint'),
               ('base_congestion_mark_interval', 0x87, 'uint'), ('default_congestion_threshold', 0x88, 'uint'),
               ('mtu', 0x89, 'uint'), ('flags', 0x6c, 'uint'), ('mask', 0x70, 'uint'), ('strategy', 0x6b, 'strategy'),
               ('expiration_period', 0x6d, 'uint'), ('face_persistency', 0x85, 'uint')]


def _name_tree(uri):
    return [(GENERIC, c.encode()) for c in uri.split('/') if c]


def control_response(status, text, body):
    """body: None (no ControlParameters element) or dict field -> value (only present fields)."""
    els = [(0x66, int(status)), (0x67, text.encode())]
    if body is not None:
        kids = []
        for fname, t, kind in BODY_FIELDS:
            if fname not in body:
                continue
            v = body[fname]
            if kind == 'uint':
                kids.append((t, int(v)))
            elif kind == 'text':
                kids.append((t, v.encode()))
            elif kind == 'name':
                kids.append((t, _name_tree(v)))
            else:
                kids.append((t, [(NAME, _name_tree(v))]))
        els.append((CP, kids))
    return T.write_tlv([(0x65, els)])


def data_packet(name_tlv, content, bad_sig=False):
    """Data with DigestSha256 signature over Name..SignatureInfo; name_tlv is the full Name TLV.
    content None: a Data packet without Content element."""
    meta = T.write_tlv([(0x14, [(0x19, 1000)])])
    cont = T.write_tlv([(0x15, content)]) if content is not None else b''
    sinfo = T.write_tlv([(0x16, [(0x1b, 0)])])
    dig = _sha(name_tlv, meta, cont, sinfo)
    if bad_sig:
        dig = bytes([dig[0] ^ 0x55]) + dig[1:]
    return T.write_tlv([(DATA, name_tlv + meta + cont + sinfo + T.write_tlv([(0x17, dig)]))])


def nack_packet(interest_wire, reason=150):
    return T.write_tlv([(LP, [(0x0320, [(0x0321, reason)]), (0x50, bytes(interest_wire))])])


def garbage_variants(prefix):
    """Content values that are not a well-formed ControlResponse (None = no Content element at all): register and
    unregister must report failure for each, whatever status code may be hidden in it."""
    ok = control_response(200, 'OK', {'name': prefix, 'face_id': 300, 'origin': 0, 'cost': 0, 'flags': 1})
    return [GARBAGE, b'', None, b'\x65', b'\x65\x05\x66', b'\x65\xfd', ok[:-3], ok[:7],
            T.write_tlv([(CP, [(NAME, _name_tree(prefix))])]),                       # Content of another TLV type
            T.write_tlv([(0x65, [(0x67, b'OK'), (0x66, 200)])]),                     # StatusText before StatusCode
            T.write_tlv([(0x65, [(0x66, 200), (0x67, b'OK'), (CP, [(0x69, 300), (NAME, _name_tree(prefix))])])]),  # body out of order
            T.write_tlv([(0x65, [(0x66, 200), (0x67, b'\xff\xfe OK')])]),            # StatusText that is not UTF-8
            T.write_tlv([(0x65, [(0x66, b'\x00\x00\xc8'), (0x67, b'OK')])])]        # 3-byte NonNegativeInteger


def make_reply(kind, body, cmd, interest_wire, garbage=GARBAGE, code=None):
    """-> wire to deliver, or None for silence. cmd: decode_command() result of the Interest answered."""
    if kind in STATUS:
        b = {'name': cmd['prefix'], 'face_id': 300, 'origin': 0, 'cost': 0, 'flags': 1} if body else None
        return data_packet(cmd['name_tlv'], control_response(STATUS[kind] if code is None else code,
                                                             'OK' if kind == 'r200' else 'refused', b))
    if kind == 'garbage':
        return data_packet(cmd['name_tlv'], garbage)
    if kind == 'vfail':
        return data_packet(cmd['name_tlv'], control_response(200, 'OK', {'name': cmd['prefix']}), bad_sig=True)
    if kind == 'nack':
        return nack_packet(interest_wire)
    if kind == 'silence':
        return None
    raise ValueError(kind)


# ------------------------------------------------------------------ the scenario

class Scenario:
    """One front-end instance under a scripted wall clock. Stimuli mirror the Env actions of NfdReg.tla."""

    def __init__(self, front, routes=(), ncalls=8, long_len=200, variant=0):
        """long_len: payload length of the one-component prefix the spec calls "long"; variant: where the Nack
        reasons start in NACK_REASONS (successive Nacks of a scenario use successive reasons)."""
        self.front = front
        self.long_prefix = '/L' + 'x' * (long_len - 1)
        self.nacks = variant
        self.sess = Session()
        self.sess.__enter__()
        self.clock = 0                    # spec clock (ms since T0)
        self.pend = 0
        self.reads = 0
        _time.time = self._now            # Session.__exit__ restores the real function
        self.face = RegFace()
        self.local = variant % 4 != 3          # every fourth scenario talks to a remote forwarder
        self.face.local = self.local
        self.nstat = variant
        self.ngarb = variant
        self.fresh_loops = variant % 2 == 0        # every second scenario: a new event loop per connection
        self.loop_errors = []
        # Two applications live in the process, each with its own face, both built the DEFAULT way (appv2: no
        # registerer argument, so client_conf.default_registerer() is used). The second one is a bystander: it is
        # connected together with the first and never asked to do anything - every command of the application under
        # test must go out on its OWN face, the bystander's face must stay silent.
        self.face2 = RegFace()
        if front == 'v2':
            self.app = _V2App(face=self.face, client_conf={'transport': 'unix:///nonexistent'})
            self.app2 = _V2App(face=self.face2, client_conf={'transport': 'unix:///nonexistent'})
            self.reg = self.app.registerer
        else:
            self.app = app1.NDNApp(face=self.face, keychain=_Keychain())
            self.app2 = app1.NDNApp(face=self.face2, keychain=_Keychain())
        self.ncalls = ncalls
        self.tasks = {}                   # call id -> task
        self.res = {}
        self.cmds = []                    # decoded commands in wire order
        self.wire_errors = []
        self.seen = 0
        self.main = None
        self.routes = list(routes)
        for r in self.routes:
            if front == 'v2':
                self.app.route('/' + r)(lambda name, app_param, reply, context: None)
            else:
                self.app.route('/' + r)(lambda name, param, app_param: None)
        self.main_errors = []

    def close(self):
        try:
            if self.face.running or self.face2.running:
                self.face.shutdown()
                self.face2.shutdown()
                self.sess.loop.settle()
        finally:
            self.sess.__exit__(None, None, None)

    # ---- scripted wall clock: the pending tick falls between the first and the second read of a run
    def _now(self):
        self.reads += 1
        if self.reads == 2 and self.pend:
            self.clock += self.pend
            self.pend = 0
        return (T0_MS + self.clock) / 1000.0 + 0.0004

    def _run(self, d=0, advance=None):
        """settle the loop for one stimulus; d = pending tick of this run."""
        self.reads = 0
        self.pend = d
        if advance:
            self.sess.loop.advance_to(self.sess.loop.time() + advance)
        else:
            self.sess.loop.settle()
        if self.pend:                     # no second read in this run: the tick simply elapses
            self.clock += self.pend
            self.pend = 0
        self._scan()

    def _scan(self):
        if self.face2.out:
            self.wire_errors.append(('foreign-face', 'packet(s) of the application under test were sent on the face of '
                                     'another application of the process', self.face2.out[0].hex()))
            del self.face2.out[:]
        while self.seen < len(self.face.out):
            w = self.face.out[self.seen]
            self.seen += 1
            try:
                c = decode_command(w, self.front, self.local)
                c['wire'] = w
                c['ts'] -= T0_MS
                self.cmds.append(c)
            except WireError as e:
                self.wire_errors.append((e.check, str(e), w.hex()))

    # ---- stimuli
    def _fresh_loop(self):
        """A later connection runs in a NEW event loop, as NDNApp.run_forever() does (asyncio.run per connection): whatever
        the application object keeps from the previous connection must not be tied to the loop that is gone. Only when the
        old loop has nothing left to run (every call and both main_loops have returned)."""
        old = self.sess.loop
        import asyncio
        if any(not t.done() for t in asyncio.all_tasks(old)):
            return False
        self.loop_errors += [str(c.get('exception') or c.get('message')) for c in old.errors]
        t = old.time()
        self.sess.__exit__(None, None, None)
        self.sess = Session(start=t)
        self.sess.__enter__()
        _time.time = self._now
        return True

    def connect(self, d=0):
        self.nconn = getattr(self, 'nconn', 0) + 1
        if self.nconn > 1 and self.fresh_loops:
            self._fresh_loop()
        async def run_main():
            try:
                await self.app.main_loop()
            except BaseException as e:  # noqa
                self.main_errors.append(type(e).__name__)
        async def run_other():
            try:
                await self.app2.main_loop()
            except BaseException as e:  # noqa
                self.main_errors.append('bystander:' + type(e).__name__)
        self.main = self.sess.spawn(run_main())
        self.main2 = self.sess.spawn(run_other())
        self._run(d)

    def disconnect(self):
        self.face.shutdown()
        self.face2.shutdown()
        self._run(0)

    def call(self, c, verb, prefix, with_func=False, d=0):
        # the spec's prefix "root" is the empty name, "long" a prefix that makes the command name cross 253 bytes
        name = '/' if prefix == 'root' else self.long_prefix if prefix == 'long' else '/' + prefix

        async def go():
            try:
                if verb == 'register':
                    if self.front == 'v2':
                        r = await self.app.register(name)
                    else:
                        r = await self.app.register(name, (lambda n, p, a: None) if with_func else None)
                else:
                    r = await self.app.unregister(name)
                self.res[c] = 'T' if r is True else 'F' if r is False else 'other:%r' % (r,)
            except aio.CancelledError:
                self.res[c] = 'canc'          # only the harness cancels (cancel()); anywhere else the spec has no explanation
            except BaseException as e:  # noqa
                self.res[c] = 'exc'
                self.res[('exc', c)] = '%s: %s' % (type(e).__name__, e)
        self.tasks[c] = self.sess.spawn(go())
        self._run(d)

    def cancel(self, c, d=0):
        """the caller cancels call c while it is in progress (task.cancel(), what asyncio.wait_for / a TaskGroup do), then
        the loop runs until nothing is ready: the call ends, the calls behind it go on."""
        self.tasks[c].cancel()
        self._run(d)

    def pending(self):
        """user calls in progress"""
        return [c for c, t in self.tasks.items() if not t.done()]

    def tick(self):
        self.clock += 1

    def wake(self, d=0, adv=1):
        """1 ms of loop time passes; the wall clock advances by adv ms (0: it stands still)"""
        self.clock += adv
        self._run(d, advance=0.001)

    def declare(self, route, d=0):
        """@app.route('/route') while the application is running"""
        if self.front == 'v2':
            self.app.route('/' + route)(lambda name, app_param, reply, context: None)
        else:
            self.app.route('/' + route)(lambda name, param, app_param: None)
        self._run(d)

    def reply(self, idx, kind, body, d=0, garbage=GARBAGE):
        """answer the idx-th (0-based) command Interest on the wire."""
        cmd = self.cmds[idx]
        code = None
        if kind in STATUS_CODES:
            code = STATUS_CODES[kind][self.nstat % len(STATUS_CODES[kind])]
            self.nstat += 1
        if kind == 'garbage' and garbage is GARBAGE:
            gv = garbage_variants(cmd['prefix'])
            garbage = gv[self.ngarb % len(gv)]
            self.ngarb += 1
        wire = make_reply(kind, body, cmd, cmd['wire'], garbage, code)
        if kind == 'nack':
            wire = nack_packet(cmd['wire'], NACK_REASONS[self.nacks % len(NACK_REASONS)])
            self.nacks += 1
        if kind == 'silence':
            self.clock += 1
            self._run(d, advance=1.0)
            return
        if kind == 'vfail' and self.front == 'v2':
            self.app.fail_next_validation = True
            wire = make_reply('r200', True, cmd, cmd['wire'])
        typ, _ = T.parse_var(wire)
        box = {}

        async def go():
            try:
                await self.face.callback(typ, wire)
            except BaseException as e:  # noqa
                box['exc'] = e
        self.sess.spawn(go())
        self._run(d)
        if 'exc' in box:
            self.wire_errors.append(('receive-raised', repr(box['exc']), wire.hex()))

    # ---- projection
    def post(self):
        def tok(p):
            return 'root' if p == '/' else 'long' if p == self.long_prefix else p[1:]
        return {'cmds': [{'v': c['verb'], 'p': tok(c['prefix']), 'ts': c['ts']} for c in self.cmds],
                'res': [self.res.get(c, 'none') for c in range(1, self.ncalls + 1)]}

    def background_errors(self):
        return self.loop_errors + [str(c.get('exception') or c.get('message')) for c in self.sess.loop.errors]


# ------------------------------------------------------------------ belief-set walk over a TLC graph

class Walker:
    """The TLC graph of a spec that is nondeterministic at deviation points, used as an oracle NFA.
    env: set of action names that are external stimuli; every other action is internal and is
    followed to quiescence. proj(state) must return a hashable projection comparable with the
    implementation's."""

    def __init__(self, g, env, proj):
        self.g = g
        self.env = set(env)
        self.proj = proj
        self._closure = {}
        self.covered = set()

    def closure(self, sid):
        """quiescent states reachable from sid through internal edges only."""
        r = self._closure.get(sid)
        if r is not None:
            return r
        out, seen, stack = set(), {sid}, [sid]
        while stack:
            s = stack.pop()
            internal = [(a, ar, d) for (a, ar, d) in self.g.edges.get(s, ()) if a not in self.env]
            if not internal:
                out.add(s)
                continue
            for _, _, d in internal:
                if d not in seen:
                    seen.add(d)
                    stack.append(d)
        self._closure[sid] = frozenset(out)
        return self._closure[sid]

    def start(self, init):
        return self.closure(init)

    def enabled(self, belief, act, args):
        """the stimulus is possible in EVERY state that explains the execution so far (a stimulus that only
        some explanations allow - e.g. waking a call that sleeps in one explanation and waits in another - is not
        applied: the path ends there)."""
        return bool(belief) and all(any(a == act and list(ar) == list(args) for (a, ar, d) in self.g.edges.get(s, ()))
                                    for s in belief)

    def step(self, belief, act, args):
        cand = set()
        for s in belief:
            for (a, ar, d) in self.g.edges.get(s, ()):
                if a == act and list(ar) == list(args):
                    cand |= self.closure(d)
        return cand

    def match(self, cand, obs):
        return frozenset(t for t in cand if self.proj(self.g.state[t]) == obs)

    @staticmethod
    def necessary(g, belief, var):
        sets = [frozenset(g.state[t][var]) for t in belief]
        return frozenset.intersection(*sets) if sets else frozenset()


def env_labels(path, env):
    return [(a, list(ar)) for (a, ar, _) in path if a in env]


# ------------------------------------------------------------------ fast loader for `tlc -dump dot,actionlabels`

class LazyStates(dict):
    """state id -> parsed state; the (escaped) dot label is unescaped and parsed on first use -
    most states of a graph are never looked at by a walk."""
    def __init__(self, raw):
        super().__init__()
        self.raw = raw

    def __missing__(self, k):
        from harness import tlaval
        lab = self.raw[k].replace('\\\\', '\x00').replace('\\n', '\n').replace('\\"', '"').replace('\x00', '\\')
        v = tlaval.parse_state(lab)
        self[k] = v
        return v

    def __len__(self):
        return len(self.raw)


def fast_dump(module, cfg, workers=4, timeout=1800, tag=None):
    """Same result as harness.graph.dump(parse_states=True) but node labels stay raw until used
    (graph.dump spends most of its time unescaping and parsing every state label)."""
    import os, re, shutil, tempfile
    from harness import tlc, graph, tlaval
    re_node = re.compile(r'^(-?\d+) \[label="(.*?)"(,style = filled)?\];?$')
    re_node_tt = re.compile(r'^(-?\d+) \[label="(.*)",tooltip=".*?"(,style = filled)?\];?$')
    re_edge = re.compile(r'^(-?\d+) -> (-?\d+) \[label="(.*)",color=.*\];?$')
    os.makedirs(tlc.BUILD, exist_ok=True)
    d = tempfile.mkdtemp(prefix='dot-%s-' % (tag or module), dir=tlc.BUILD)
    base = os.path.join(d, 'g')
    try:
        r = tlc.run(module, cfg, workers=workers, heavy=True, timeout=timeout, extra=['-dump', 'dot,actionlabels', base], tag=tag)
        g = graph.Graph()
        g.tlc = r
        raw = {}
        with open(base + '.dot') as f:
            for line in f:
                line = line.rstrip('\n')
                if ' -> ' in line[:48]:
                    m = re_edge.match(line)
                    if m:
                        a, b, lab = m.group(1), m.group(2), m.group(3).replace('\\"', '"').replace('\\\\', '\\')
                        i = lab.find('(')
                        if i < 0:
                            act, args = lab, []
                        else:
                            act, args = lab[:i], tlaval.parse_args(lab[i + 1:lab.rindex(')')])
                        g.edges[a].append((act, args, b))
                        g.n_edges += 1
                        continue
                m = re_node_tt.match(line) or re_node.match(line)
                if m:
                    raw[m.group(1)] = m.group(2)
                    if m.group(3):
                        g.init.append(m.group(1))
        g.state = LazyStates(raw)
        return g
    finally:
        shutil.rmtree(d, ignore_errors=True)


def decode_control_parameters(value):
    """strictly decode the value of a ControlParameters name component -> {field: '=<value>'} (fields present)"""
    try:
        tree = T.read_tlv(bytes(value), {CP: {NAME: None, 0x6b: {NAME: None}}})
    except T.TlvError as e:
        raise WireError('control-parameters-tlv', str(e))
    if len(tree) != 1 or tree[0][0] != CP:
        raise WireError('control-parameters-shape')
    by_type = {t: (fname, kind) for fname, t, kind in BODY_FIELDS}
    out = {}
    for t, v in tree[0][1]:
        if t not in by_type or by_type[t][0] in out:
            raise WireError('control-parameters-field', str(t))
        fname, kind = by_type[t]
        if kind == 'uint':
            out[fname] = '=%d' % T.read_uint(v)
        elif kind == 'text':
            out[fname] = '=' + bytes(v).decode()
        elif kind == 'name':
            out[fname] = '=' + _name_uri(T.read_tlv(v))
        else:
            if len(v) != 1 or v[0][0] != NAME:
                raise WireError('control-parameters-strategy')
            out[fname] = '=' + _name_uri(T.read_tlv(v[0][1]))
    return out
