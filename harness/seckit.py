"""SecCli.tla bound to the real `pyndnsec` tool (ndn.bin.sec): every action of the specification is one invocation
of ndn.bin.sec.main() with a patched sys.argv (so that the argparse definitions, the aliases and the global options
are executed as well), stdout / stderr captured, `exit()` and the return value turned into the exit status, an
escaping exception into the result class "crash".

World    scratch root, the clock of certificate versions (ndn.app_support.security_v2.timestamp is replaced by a
         strictly increasing counter: two certificates never get the same name), pooled RSA keys (generation of a
         2048-bit key takes ~0.3 s; `-t r` draws from a pool kept in build/), the library of texts printed so far
         (exported certificates, sign requests, issued certificates) and an unmodelled *peer* store - also driven
         through the real commands only - that plays the rest of the world: it makes certificates and sign requests
         for any key name and imports what the modelled store issues.
Store    one PIB directory + the binding of the specification's slots (identity i, key (i, n), certificate
         ((i, n), c)) to real names.  Store.do(act, args) runs one command and returns its result in the shape of the
         specification (rc, cls, out); Store.project() opens the store with KeychainSqlite3 / TpmFile and returns the
         state in the shape of the specification.

Objects are tuples (l, i, n, c) as in SecCli.tla (l = 0 identity, 1 key, 2 certificate, 3 no OBJECT)."""
import base64, contextlib, datetime, hashlib, io, json, os, re, shutil, sys, tempfile

from harness import core, tlc

import ndn.bin.sec as sec
from ndn import encoding as enc
from ndn.encoding import Name, Component
from ndn.app_support import security_v2 as sv2
from ndn.security import KeychainSqlite3, TpmFile
from ndn.security.tpm import tpm_file as _tpm_file

NOOBJ = (3, 'none', 0, 0)
COMMANDS = {
    'InitPib': ('Init-Pib', ['Init-Pib', 'init', 'init-pib']),
    'NewItem': ('New-Item', ['New-Item', 'key-gen', 'ni', 'new-item']),
    'RemoveItem': ('Remove-Item', ['Remove-Item', 'del', 'rm', 'ri', 'remove-item']),
    'SetDefault': ('Set-Default', ['Set-Default', 'sd', 'set-default']),
    'GetDefault': ('Get-Default', ['Get-Default', 'gd', 'get-default']),
    'GetChildItem': ('Get-ChildItem', ['Get-ChildItem', 'list', 'ls', 'gci', 'get-childitem']),
    'ExportCert': ('Export-Cert', ['Export-Cert', 'export', 'ec', 'export-cert']),
    'ImportCert': ('Import-Cert', ['Import-Cert', 'import', 'ic', 'import-cert']),
    'SignCert': ('Sign-Cert', ['Sign-Cert', 'cert-gen', 'sc', 'sign-cert']),
    'GetSignReq': ('Get-SignReq', ['Get-SignReq', 'sign-req', 'get-signreq', 'gsr']),
}
LEVEL = {0: 'identity', 1: 'key', 2: 'certificate', 3: 'no-object'}

# how the abstract identities / explicit key ids are spelled (all inside the precondition of the model: an identity
# name has at least one component and is not of key or certificate shape)
NAMINGS = [
    {'ids': {'A': '/x05/alice', 'B': '/x05/bob', 'C': '/x05/carol/phone'}, 'kid': 'k%d'},
    {'ids': {'A': '/a', 'B': '/a/b', 'C': '/a/b/c'}, 'kid': '%d'},                      # one a prefix of the other
    # "KEY" where it is not a marker: two components with KEY first (a key name has a non-empty identity part: more than
    # two components), four components with KEY first (a certificate name has more than four)
    {'ids': {'A': '/KEY/a', 'B': '/KEY/a/b/c', 'C': '/org/KEY'}, 'kid': 'KEY%d'},
    {'ids': {'A': '/x05/%C3%A9t%C3%A9/32=meta', 'B': '/x05/8=%00%01/v=3', 'C': '/x05/seg=0'}, 'kid': '%%0%d%%FF'},
    {'ids': {'A': '/self', 'B': '/x/cert-request/y', 'C': '/NA/KEY-1'}, 'kid': 'self%d'},
]
# how the store is addressed (global options) and created
ADDRESSING = [
    {'path': 'opt', 'tpm': True, 'tpm_path': False, 'mkdir': False},
    {'path': 'opt=', 'tpm': False, 'tpm_path': False, 'mkdir': True},
    {'path': 'opt', 'tpm': True, 'tpm_path': True, 'mkdir': False},
    {'path': 'home', 'tpm': False, 'tpm_path': False, 'mkdir': False},
    {'path': 'opt', 'tpm': False, 'tpm_path': True, 'mkdir': True, 'pib': True},
]


class Mismatch(Exception):
    """the tool did something the executor cannot map to the specification, or a check on the real texts failed;
    slug: stable identifier of the check"""
    def __init__(self, slug, detail=''):
        Exception.__init__(self, '%s: %s' % (slug, detail))
        self.slug = slug
        self.detail = detail


def scratch_root():
    """command directories: memory-backed when available (an Init-Pib costs ~0.35 s on disk, 4 ms there), else build/"""
    return '/dev/shm' if os.path.isdir('/dev/shm') and os.access('/dev/shm', os.W_OK) else tlc.BUILD


def obj_of_tla(v):
    return (v['l'], str(v['i']), v['n'], v['c'])


def obj_json(o):
    return {'l': o[0], 'i': o[1], 'n': o[2], 'c': o[3]}


def wrap64(b):
    t = base64.standard_b64encode(bytes(b)).decode()
    return '\n'.join(t[i:i + 64] for i in range(0, len(t), 64)) + '\n'


# --------------------------------------------------------------------------------------------- RSA pool
class _RsaShim:
    def __init__(self, real, world):
        self._real = real
        self._world = world

    def generate(self, bits, *a, **kw):
        return self._real.import_key(self._world.take_rsa())

    def __getattr__(self, k):
        return getattr(self._real, k)


def _pool_path():
    return os.path.join(core.BUILD, 'x05-rsa-pool.json')       # a cache: rebuilt when it is not there


def _load_pool():
    try:
        with open(_pool_path()) as f:
            return [bytes.fromhex(x) for x in json.load(f)]
    except (OSError, ValueError):
        return []


def _save_pool(pool):
    os.makedirs(core.BUILD, exist_ok=True)
    tmp = _pool_path() + '.%d.tmp' % os.getpid()
    with open(tmp, 'w') as f:
        json.dump([x.hex() for x in pool], f)
    os.replace(tmp, _pool_path())


# --------------------------------------------------------------------------------------------- world
class World:
    _pool = None

    def __init__(self, seed=0, on_disk=False):
        self.root = tempfile.mkdtemp(prefix='x05-', dir=tlc.BUILD if on_disk else scratch_root())
        self.seed = seed
        self.clock = 1700000000000 + 1000 * (seed % 1000)
        self.library = []            # {'text', 'cert': bytes name, 'key': bytes name, 'req': bool, 'data': bytes}
        self.rsa_avoid = set()
        self.rsa_last = None
        self.peer = None
        self.closed = False
        self._old = (sv2.timestamp, _tpm_file.RSA)
        sv2.timestamp = self.tick
        _tpm_file.RSA = _RsaShim(self._old[1], self)
        self.nfile = 0

    def tick(self):
        self.clock += 7
        return self.clock

    def take_rsa(self):
        if World._pool is None:
            World._pool = _load_pool()
        pool = World._pool
        for i in range(len(pool) + 1):
            if i not in self.rsa_avoid:
                break
        if i >= len(pool):
            pool.append(self._old[1].generate(2048).export_key(format='DER', pkcs=1))
            _save_pool(pool)
        self.rsa_last = i
        return pool[i]

    def close(self):
        if self.closed:
            return
        self.closed = True
        sv2.timestamp, _tpm_file.RSA = self._old
        shutil.rmtree(self.root, ignore_errors=True)

    def __enter__(self):
        return self

    def __exit__(self, *a):
        self.close()

    # ---- texts
    def remember(self, text, req=False):
        try:
            data = base64.standard_b64decode(text)
            cert = sv2.parse_certificate(data)
            name = cert.name
        except Exception as e:  # noqa - the text was printed by the tool as a certificate
            raise Mismatch('printed-text-not-a-certificate', '%s: %s' % (type(e).__name__, e))
        ent = {'text': text, 'cert': bytes(Name.to_bytes(name)), 'key': bytes(Name.to_bytes(name[:-2])), 'req': req,
               'data': bytes(data)}
        if not any(e['cert'] == ent['cert'] and e['data'] == ent['data'] for e in self.library):
            self.library.append(ent)
        return ent

    def the_peer(self):
        if self.peer is None:
            self.peer = Peer(self)
        return self.peer

    def scratch_file(self, text):
        self.nfile += 1
        p = os.path.join(self.root, 'file-%d.txt' % self.nfile)
        with open(p, 'w') as f:
            f.write(text)
        return p


def invoke(argv, stdin='', home=None):
    """one run of the tool -> (rc, kind, stdout, stderr, exception or None).  kind: ret / exit / crash"""
    old = (sys.argv, sys.stdin, os.environ.get('HOME'))
    out, err = io.StringIO(), io.StringIO()
    sys.argv = ['pyndnsec'] + list(argv)
    sys.stdin = io.StringIO(stdin)
    if home is not None:
        os.environ['HOME'] = home
    exc = None
    try:
        with contextlib.redirect_stdout(out), contextlib.redirect_stderr(err):
            try:
                rc, kind = sec.main(), 'ret'
            except SystemExit as e:
                rc, kind = e.code, 'exit'
            except Exception as e:  # noqa - an exception the tool does not handle: the process would end with a traceback
                rc, kind, exc = 1, 'crash', e
    finally:
        sys.argv, sys.stdin = old[0], old[1]
        if home is not None:
            if old[2] is None:
                os.environ.pop('HOME', None)
            else:
                os.environ['HOME'] = old[2]
    if rc is None:
        rc = 0
    if not isinstance(rc, int):
        rc, kind = 1, 'exit-message'
    return rc, kind, out.getvalue(), err.getvalue(), exc


def _where(exc):
    """innermost frame of the library the exception passed through: file:function (no line numbers)"""
    tb = exc.__traceback__
    best = '?'
    while tb is not None:
        fn = tb.tb_frame.f_code.co_filename
        if '/ndn/' in fn:
            best = '%s:%s' % (fn.split('/ndn/', 1)[1], tb.tb_frame.f_code.co_name)
        tb = tb.tb_next
    return best


# --------------------------------------------------------------------------------------------- a store
class RawStore:
    """a PIB directory and how it is addressed on the command line"""
    def __init__(self, world, label, addressing):
        self.world = world
        self.adr = addressing
        self.home = None
        base = os.path.join(world.root, label)
        if addressing['path'] == 'home':
            self.home = base
            self.dir = os.path.join(base, '.ndn')
        else:
            self.dir = base
        self.tpm_dir = os.path.join(world.root, label + '-keys') if addressing.get('tpm_path') else \
            os.path.join(self.dir, 'ndnsec-key-file')
        if addressing.get('mkdir'):
            os.makedirs(self.dir, exist_ok=True)
        self.ncalls = 0

    def globals(self):
        g = []
        a = self.adr
        if a.get('pib'):
            g += ['--pib', 'pib-sqlite3']
        if a['path'] == 'opt':
            g += ['--path', self.dir]
        elif a['path'] == 'opt=':
            g += ['--path=' + self.dir]
        if a.get('tpm'):
            g += ['--tpm', 'tpm-file']
        if a.get('tpm_path'):
            g += ['--tpm-path', self.tpm_dir]
        return g

    def tool(self, act, args, stdin=''):
        names = COMMANDS[act][1]
        self.ncalls += 1
        alias = names[(self.ncalls + self.world.seed) % len(names)]
        return invoke(self.globals() + [alias] + list(args), stdin=stdin, home=self.home)

    def db_path(self):
        return os.path.join(self.dir, 'pib.db')

    def open(self):
        return KeychainSqlite3(self.db_path(), TpmFile(self.tpm_dir))


class Peer(RawStore):
    """the rest of the world: a second store, not modelled, driven through the same commands"""
    CA = '/x05peer/ca'

    def __init__(self, world):
        RawStore.__init__(self, world, 'peer', ADDRESSING[0])
        self.keys = set()
        self.nuser = 0
        self._ok('InitPib', [])
        self._ok('NewItem', [self.CA])

    def _ok(self, act, args, stdin=''):
        rc, kind, out, err, exc = self.tool(act, args, stdin)
        if rc != 0:
            raise Mismatch('peer-store-command-failed', '%s %s -> %r %s %s' % (COMMANDS[act][0], args, rc, out.strip()[:200],
                                                                              '%s: %s' % (type(exc).__name__, exc) if exc else ''))
        return out

    def certificate_for(self, key_name):
        """a certificate text for the key name, made elsewhere: the self-signed one of a key of that name in the peer
        store the first time, afterwards one the peer's CA issues for it"""
        if key_name not in self.keys:
            out = self._ok('NewItem', [key_name])
            m = re.search(r'^With self-signed certificate: (\S+)$', out, re.M)
            if not m:
                raise Mismatch('peer-store-command-failed', 'New-Item printed %r' % out[:200])
            self.keys.add(key_name)
            text = self._ok('ExportCert', [m.group(1)])
        else:
            req = self._ok('GetSignReq', [key_name])
            text = self._ok('SignCert', ['-i', 'P%d' % self.world.tick(), self.CA], stdin=req)
        return self.world.remember(text)

    def sign_request(self):
        self.nuser += 1
        out = self._ok('NewItem', ['/x05peer/user%d' % self.nuser])
        key = re.search(r'^Created new key: (\S+)$', out, re.M).group(1)
        self.keys.add(key)
        return self.world.remember(self._ok('GetSignReq', [key]), req=True)

    def accepts(self, text):
        """the peer imports a certificate issued for one of its keys and lists it afterwards"""
        ent = self.world.remember(text)
        self._ok('ImportCert', ['-'], stdin=text)
        kc = self.open()
        try:
            key = Name.from_bytes(ent['key'])
            got = bytes(kc[key[:-2]][key][Name.from_bytes(ent['cert'])].data)
        finally:
            kc.shutdown()
        if got != ent['data']:
            raise Mismatch('issued-certificate-not-importable', 'the peer store lists other bytes than were issued')


JUNK = ['', 'hello, world\n', 'AQID', 'Bv0BDQccCAFhCANLRVkIAmsxCARzZWxm\n', '====\n', '\x00\x01binary']


def _undecodable(k):
    """Data blocks the TLV decoder refuses with DecodeError: no Name; an unknown critical element after the Name"""
    if k % 2 == 0:
        return wrap64(b'\x06\x00')
    name = Name.to_bytes('/x05/undecodable')
    body = bytes(name) + b'\x7f\x01\x00'
    return wrap64(b'\x06' + bytes([len(body)]) + body)


def _nocontent(world, key_name):
    """a certificate-shaped Data packet without Content (signed by nobody)"""
    wire = enc.make_data(Name.from_str(key_name) + [Component.from_str('cert-request'), Component.from_version(world.tick())],
                         enc.MetaInfo(content_type=enc.ContentType.KEY), None, signer=None)
    return wrap64(wire)


class Store(RawStore):
    def __init__(self, world, label, universe, naming=0, addressing=0, k=0):
        RawStore.__init__(self, world, label, ADDRESSING[addressing % len(ADDRESSING)])
        self.uni = universe                 # {'Ids': [...], 'KeyIds': n, 'CertIds': m}
        self.naming = NAMINGS[naming % len(NAMINGS)]
        self.k = k                          # varies the spelling of options
        self.keyname = {}                   # (i, n) -> real key name (URI string as the tool prints it)
        self.certname = {}                  # ((i, n), c) -> real certificate name
        self.rsa_of = {}                    # (i, n) -> pool index of an RSA key
        self.crashes = []                   # (command, argument class, exception type, where, message)
        self.last = None                    # last projection
        self.log = []                       # command lines run (for replay objects)

    # ---- names
    def id_name(self, i):
        return self.naming['ids'][i]

    _canon = {}

    def canon(self, uri):
        c = Store._canon.get(uri)
        if c is None:
            if len(Store._canon) > 200000:
                Store._canon.clear()
            c = Store._canon[uri] = Name.to_str(Name.from_str(uri))
        return c

    def key_name(self, k):
        if k in self.keyname:
            return self.keyname[k]
        return self.canon(self.id_name(k[0]) + '/KEY/' + (self.naming['kid'] % k[1]))

    def cert_name(self, x):
        if x in self.certname:
            return self.certname[x]
        return self.canon(self.key_name(x[0]) + '/NA/v=%d' % (1000 + x[1]))

    def real(self, o):
        l, i, n, c = o
        if l == 0:
            return self.canon(self.id_name(i))
        if l == 1:
            return self.key_name((i, n))
        return self.cert_name(((i, n), c))

    def bind_key(self, k, name):
        for kk in [kk for kk, v in self.keyname.items() if v == name and kk != k]:
            del self.keyname[kk]
        if self.keyname.get(k) != name:
            for x in [x for x in self.certname if x[0] == k]:
                del self.certname[x]
        self.keyname[k] = name

    def bind_cert(self, x, name):
        for xx in [xx for xx, v in self.certname.items() if v == name and xx != x]:
            del self.certname[xx]
        self.certname[x] = name

    def obj_of(self, uri):
        """real name -> object of the specification; names the history does not explain map to level 9"""
        try:
            uri = self.canon(uri)
        except Exception:  # noqa
            return (9, uri, 0, 0)
        for i in self.uni['Ids']:
            if self.canon(self.id_name(i)) == uri:
                return (0, i, 0, 0)
        for i in self.uni['Ids']:
            for n in range(1, self.uni['KeyIds'] + 1):
                if self.key_name((i, n)) == uri:
                    return (1, i, n, 0)
        for i in self.uni['Ids']:
            for n in range(1, self.uni['KeyIds'] + 1):
                for c in range(1, self.uni['CertIds'] + 1):
                    if self.cert_name(((i, n), c)) == uri:
                        return (2, i, n, c)
        return (9, uri, 0, 0)

    # ---- the state as the specification sees it
    def project(self):
        p = {'pib': os.path.exists(self.db_path()), 'ids': set(), 'keys': set(), 'certs': set(),
             'dI': set(), 'dK': set(), 'dC': set(), 'tpm': True, 'unknown': []}
        if not p['pib']:
            self.last = p
            return p
        kc = self.open()
        names = []
        try:
            for iname in kc:
                iden = kc[iname]
                o = self.obj_of(Name.to_str(iname))
                if o[0] != 0:
                    p['unknown'].append(Name.to_str(iname))
                    continue
                p['ids'].add(o[1])
                if iden.is_default:
                    p['dI'].add(o[1])
                for kname in iden:
                    key = iden[kname]
                    names.append(bytes(Name.to_bytes(kname)))
                    ko = self.obj_of(Name.to_str(kname))
                    if ko[0] != 1 or ko[1] != o[1]:
                        p['unknown'].append(Name.to_str(kname))
                        continue
                    k = (ko[1], ko[2])
                    p['keys'].add(k)
                    if key.is_default:
                        p['dK'].add(k)
                    for cname in key:
                        cert = key[cname]
                        co = self.obj_of(Name.to_str(cname))
                        if co[0] != 2 or (co[1], co[2]) != k:
                            p['unknown'].append(Name.to_str(cname))
                            continue
                        x = (k, co[3])
                        p['certs'].add(x)
                        if cert.is_default:
                            p['dC'].add(x)
        finally:
            kc.shutdown()
        # without injected failures: a key is listed iff its private-key file is there
        want = {hashlib.sha256(n).hexdigest() + '.privkey' for n in names}
        have = set(os.listdir(self.tpm_dir)) if os.path.isdir(self.tpm_dir) else set()
        p['tpm'] = want == have
        p['unknown'].sort()
        self.last = p
        return p

    def _listed(self, o):
        p = self.last or self.project()
        l, i, n, c = o
        return (l == 0 and i in p['ids']) or (l == 1 and (i, n) in p['keys']) or (l == 2 and ((i, n), c) in p['certs'])

    def _argclass(self, act, args):
        if act in ('ImportCert',):
            return 'file-' + args[0]['kind']
        if act == 'SignCert':
            return 'file-' + args[1]['req'] if args[1]['req'] != 'ok' else '%s-%s' % (LEVEL[args[0][0]], 'listed' if self._listed(args[0]) else 'missing')
        o = next((a for a in args if isinstance(a, tuple)), None)
        if o is None:
            return 'any'
        if o[0] == 3:
            cls = 'no-object'
        else:
            cls = '%s-%s' % (LEVEL[o[0]], 'listed' if self._listed(o) else 'missing')
        if act == 'GetSignReq':
            k = self._resolve_key(o)
            if k is not None and not any(x[0] == k for x in (self.last or {}).get('dC', ())):
                return 'key-without-default-certificate'
        return cls

    def _resolve_key(self, o):
        p = self.last or self.project()
        l, i, n, c = o
        if l == 3:
            if not p['dI']:
                return None
            i = sorted(p['dI'])[0]
        if i not in p['ids']:
            return None
        if l in (1, 2):
            return (i, n) if (i, n) in p['keys'] else None
        d = [k for k in p['dK'] if k[0] == i]
        return d[0] if d else None

    # ---- one command
    def do(self, act, args):
        """-> {'rc', 'cls', 'out': set of (object, marked)}"""
        args = list(args)
        fn = getattr(self, '_' + act)
        if self.last is None:
            self.project()
        self._ctx = (act, args)
        return fn(*args)

    def _run(self, act, argv, stdin=''):
        rc, kind, out, err, exc = self.tool(act, argv, stdin)
        self.log.append([COMMANDS[act][0]] + [a if len(a) < 200 else a[:40] + '...' for a in argv])
        if kind == 'crash':
            a, args = self._ctx
            self.crashes.append((COMMANDS[act][0], self._argclass(a, args), type(exc).__name__, _where(exc), str(exc)[:200]))
            return 1, 'crash', out, err
        if out.startswith('ERROR: Specified or default PIB database file') or out.startswith('ERROR: Cannot find a PIB'):
            return rc, 'nopib', out, err
        if kind == 'exit' and rc == 2 and 'usage:' in err:
            return rc, 'usage: ' + err.strip().splitlines()[-1][:200], out, err
        return rc, None, out, err

    @staticmethod
    def _res(rc, cls, objs=()):
        return {'rc': rc, 'cls': cls, 'out': {(o, False) for o in objs}}

    def _missing(self, out):
        """the 'Requested ... does not exist.' family (first line; the second line is the KeyError text)"""
        first = out.strip().splitlines()[0] if out.strip() else ''
        for word, cls in (('identity', 'noid'), ('key', 'nokey'), ('certificate', 'nocert')):
            if first == 'Requested %s does not exist.' % word:
                return cls
        return None

    def _other(self, rc, out):
        return self._res(rc, 'other: ' + (out.strip().splitlines()[0][:200] if out.strip() else '(nothing printed)'))

    def _InitPib(self):
        rc, cls, out, err = self._run('InitPib', [])
        if cls:
            return self._res(rc, cls)
        want = 'Initializing PIB at %s, with tpm-locator=tpm-file:%s' % (self.db_path(), self.tpm_dir)
        lines = out.strip().splitlines()
        if not lines or lines[0] != want:
            raise Mismatch('init-pib-announces-other-location', '%r, expected %r' % (lines[:1], want))
        if 'Successfully created PIB' in out:
            return self._res(rc, 'created')
        if 'Failed to create PIB database.' in out:
            return self._res(rc, 'exists')
        return self._other(rc, out)

    def _NewItem(self, o, kt, kit):
        l, i, n, c = o
        p = self.last
        if l == 0:
            free = [m for m in range(1, self.uni['KeyIds'] + 1) if (i, m) not in p['keys']]
            if not free and p['pib']:
                raise tlc.MachineryError('New-Item with a generated key id, but the universe has no key slot left')
            k = (i, free[0] if free else 1)
        else:
            k = (i, n)
        argv = []
        v = self.k + self.ncalls
        if kt == 'r' or v % 3 == 0:
            argv += [('-t', '--type')[v % 2], kt]
        if kit == 'h' or v % 4 == 1:
            argv += [('-k', '--keyid-type')[(v // 2) % 2], kit]
        argv.append(self.real(o))
        if kt == 'r':
            self.world.rsa_avoid = set(self.rsa_of[kk] for kk in self.rsa_of if kk in p['keys'])
            self.world.rsa_last = None
        rc, cls, out, err = self._run('NewItem', argv)
        if cls:
            return self._res(rc, cls)
        lines = out.strip().splitlines()
        m = re.match(r'^Specified key already exists: (\S+)$', lines[0]) if lines else None
        if m:
            if m.group(1) != self.key_name(k):
                raise Mismatch('message-names-other-object', out.strip()[:200])
            return self._res(rc, 'exists')
        made = []
        idm = keym = certm = None
        for ln in lines:
            m = re.match(r'^Created new identity: (\S+)$', ln)
            if m:
                idm = m.group(1)
                continue
            m = re.match(r'^Created new key: (\S+)$', ln)
            if m:
                keym = m.group(1)
                continue
            m = re.match(r'^With self-signed certificate: (\S+)$', ln)
            if m:
                certm = m.group(1)
                continue
            return self._other(rc, ln)
        if keym is None or certm is None:
            return self._other(rc, out)
        if idm is not None:
            made.append(self.obj_of(idm))
        if l >= 1 and keym != self.key_name(k):
            raise Mismatch('new-item-made-a-key-of-another-name', '%s instead of %s' % (keym, self.key_name(k)))
        kn = Name.from_str(keym)
        if Name.to_str(kn[:-2]) != self.canon(self.id_name(i)) or kn[-2] != sv2.KEY_COMPONENT:
            raise Mismatch('new-item-made-a-key-of-another-name', '%s is not a key of %s' % (keym, self.id_name(i)))
        self.bind_key(k, keym)
        self.bind_cert((k, 1), certm)
        if kt == 'r' and self.world.rsa_last is not None:
            self.rsa_of[k] = self.world.rsa_last
        else:
            self.rsa_of.pop(k, None)
        made += [(1, k[0], k[1], 0), self.obj_of(certm)]
        self._check_new_key(k, keym, certm, kt, kit, generated=(l == 0))
        return self._res(rc, 'created', made)

    def _check_new_key(self, k, keym, certm, kt, kit, generated):
        from Cryptodome.PublicKey import RSA, ECC
        kc = self.open()
        try:
            kn = Name.from_str(keym)
            key = kc[kn[:-2]][kn]
            bits = bytes(key.key_bits)
            cert = bytes(key[Name.from_str(certm)].data)
        except KeyError as e:
            raise Mismatch('new-item-announced-what-is-not-listed', str(e)[:200])
        finally:
            kc.shutdown()
        try:
            typ = 'r' if isinstance(RSA.import_key(bits), RSA.RsaKey) else '?'
        except (ValueError, IndexError, TypeError):
            try:
                ECC.import_key(bits)
                typ = 'e'
            except (ValueError, IndexError, TypeError):
                typ = '?'
        if typ != kt:
            raise Mismatch('new-item-key-type', 'asked -t %s, the key bits are of type %s' % (kt, typ))
        if generated:
            kid = bytes(Component.get_value(kn[-1]))
            if kit == 'h' and kid != hashlib.sha256(bits).digest():
                raise Mismatch('new-item-key-id', '-k h: the key id is not the SHA-256 of the key bits')
            if kit == 'r' and len(kid) != 8:
                raise Mismatch('new-item-key-id', '-k r: the key id has %d bytes' % len(kid))
        cn = Name.from_str(certm)
        if cn[:-2] != kn or bytes(cn[-2]) != bytes(sv2.SELF_COMPONENT):
            raise Mismatch('new-item-certificate-name', certm)
        cv = sv2.parse_certificate(cert)
        if bytes(cv.content) != bits:
            raise Mismatch('new-item-certificate-content', 'the self-signed certificate does not carry the key bits')
        self._verify(cert, bits, 'new-item-certificate-signature')
        self.world.remember(wrap64(cert))

    @staticmethod
    def _verify(wire, pub_bits, slug):
        from Cryptodome.PublicKey import RSA, ECC
        from Cryptodome.Hash import SHA256
        from Cryptodome.Signature import DSS, pkcs1_15
        _, _, _, sig = enc.parse_data(wire)
        h = SHA256.new()
        for blk in sig.signature_covered_part:
            h.update(blk)
        if sig.signature_value_buf is None:
            raise Mismatch(slug, 'no signature value')
        val = bytes(sig.signature_value_buf)
        try:
            pk = RSA.import_key(pub_bits)
            verifier = pkcs1_15.new(pk)
        except (ValueError, IndexError, TypeError):
            verifier = DSS.new(ECC.import_key(pub_bits), 'fips-186-3', 'der')
        try:
            verifier.verify(h, val)
        except ValueError as e:
            raise Mismatch(slug, 'the signature does not verify under the expected key: %s' % e)

    def _RemoveItem(self, o):
        rc, cls, out, err = self._run('RemoveItem', [self.real(o)])
        if cls:
            return self._res(rc, cls)
        m = re.match(r'^Deleted (identity|key|certificate) (\S+)$', out.strip())
        if m:
            got = self.obj_of(m.group(2))
            if LEVEL[o[0]] != m.group(1) or got != o:
                raise Mismatch('message-names-other-object', out.strip()[:200])
            return self._res(rc, 'deleted', [got])
        miss = self._missing(out)
        return self._res(rc, miss) if miss else self._other(rc, out)

    def _SetDefault(self, o):
        rc, cls, out, err = self._run('SetDefault', [self.real(o)])
        if cls:
            return self._res(rc, cls)
        if out.strip() == '':
            return self._res(rc, 'ok')
        miss = self._missing(out)
        return self._res(rc, miss) if miss else self._other(rc, out)

    def _GetDefault(self, lvl, o):
        v = self.k + self.ncalls
        flags = {0: [[]], 1: [['-k'], ['--key'], ['-c', '-k']], 2: [['-c'], ['--cert'], ['-k', '-c']]}[lvl]
        argv = list(flags[v % len(flags)])
        if o[0] != 3:
            argv.append(self.real(o))
        rc, cls, out, err = self._run('GetDefault', argv)
        if cls:
            return self._res(rc, cls)
        miss = self._missing(out)
        if miss:
            return self._res(rc, miss)
        lines = out.strip().splitlines()
        if len(lines) == 1 and lines[0].startswith('/'):
            return self._res(rc, 'name', [self.obj_of(lines[0])])
        return self._other(rc, out)

    def _GetChildItem(self, lvl):
        v = self.k + self.ncalls
        flags = {0: [[]], 1: [['-k'], ['-v'], ['--key']], 2: [['-c'], ['-vv'], ['-v', '-v'], ['--cert']],
                 3: [['-vvv'], ['-v', '-vv'], ['--verbose', '-v', '-v']]}[lvl]
        rc, cls, out, err = self._run('GetChildItem', list(flags[v % len(flags)]))
        if cls:
            return self._res(rc, cls)
        items = set()
        cur_i = cur_k = None
        details = 0
        for ln in out.splitlines():
            if not ln.strip():
                continue
            m = re.match(r'^([* ]) (/\S*)$', ln)
            if m:
                o = self.obj_of(m.group(2))
                cur_i, cur_k = o, None
                items.add((o, m.group(1) == '*'))
                continue
            m = re.match(r'^  \+->([* ]) (/\S*)$', ln)
            if m:
                o = self.obj_of(m.group(2))
                if cur_i is None or (o[0] == 1 and o[1] != cur_i[1]):
                    raise Mismatch('listing-nests-key-under-other-identity', ln.strip())
                cur_k = o
                items.add((o, m.group(1) == '*'))
                continue
            m = re.match(r'^       \+->([* ]) (/\S*)$', ln)
            if m:
                o = self.obj_of(m.group(2))
                if cur_k is None or (o[0] == 2 and o[1:3] != cur_k[1:3]):
                    raise Mismatch('listing-nests-certificate-under-other-key', ln.strip())
                items.add((o, m.group(1) == '*'))
                continue
            if lvl >= 3 and ln.startswith('            '):
                if ln.strip() == 'Certificate name:':
                    details += 1
                if ln.strip() == 'Unable to parse certificate':
                    raise Mismatch('listing-cannot-parse-a-listed-certificate', '')
                continue
            return self._other(rc, ln)
        if lvl >= 3 and details != sum(1 for o, _ in items if o[0] == 2):
            raise Mismatch('listing-details-missing', '%d certificates, %d detail blocks' % (sum(1 for o, _ in items if o[0] == 2), details))
        return {'rc': rc, 'cls': 'list', 'out': items}

    def _text_out(self, out):
        t = out.strip()
        return t if t and re.fullmatch(r'[A-Za-z0-9+/=\n]+', t) else None

    def _ExportCert(self, o):
        rc, cls, out, err = self._run('ExportCert', [self.real(o)] if o[0] != 3 else [])
        if cls:
            return self._res(rc, cls)
        miss = self._missing(out)
        if miss:
            return self._res(rc, miss)
        if self._text_out(out) is None:
            return self._other(rc, out)
        ent = self.world.remember(out)
        name = Name.to_str(Name.from_bytes(ent['cert']))
        x = self.obj_of(name)
        if x[0] == 2:
            kc = self.open()
            try:
                kn = Name.from_bytes(ent['key'])
                stored = bytes(kc[kn[:-2]][kn][Name.from_bytes(ent['cert'])].data)
            except KeyError:
                stored = None
            finally:
                kc.shutdown()
            if stored != ent['data']:
                raise Mismatch('export-differs-from-stored-certificate', name)
        return self._res(rc, 'cert', [x])

    def _file_arg(self, text):
        """FILE: standard input ('-' or left out) or a path"""
        v = self.k + self.ncalls
        if v % 3 == 0:
            return [self.world.scratch_file(text)], ''
        return (['-'] if v % 3 == 1 else []), text

    def _text_for(self, f):
        """the file the environment hands to Import-Cert"""
        kind = f['kind']
        if kind == 'junk':
            return JUNK[(self.k + self.ncalls) % len(JUNK)], None
        if kind == 'undecodable':
            return _undecodable(self.k + self.ncalls), None
        k, c = tuple(f['k']), f['c']
        k = (str(k[0]), k[1])
        x = (k, c)
        p = self.last
        kname = self.key_name(k)
        kbytes = bytes(Name.to_bytes(kname))
        if x in p['certs']:
            # a certificate that is listed: its stored bytes, as one line or wrapped
            kc = self.open()
            try:
                kn = Name.from_str(kname)
                data = bytes(kc[kn[:-2]][kn][Name.from_str(self.cert_name(x))].data)
            finally:
                kc.shutdown()
            text = wrap64(data) if (self.k + self.ncalls) % 2 else base64.standard_b64encode(data).decode()
            return text, self.world.remember(text)
        listed = {bytes(Name.to_bytes(self.cert_name(y))) for y in p['certs']}
        cands = [e for e in self.world.library if e['key'] == kbytes and e['cert'] not in listed]
        if cands:
            # prefer what went through Export-Cert / Sign-Cert before (e.g. a certificate removed since)
            ent = cands[(self.k + self.ncalls) % len(cands)]
        else:
            ent = self.world.the_peer().certificate_for(kname)
            if ent['cert'] in listed:
                ent = self.world.the_peer().certificate_for(kname)
        return ent['text'], ent

    def _ImportCert(self, f):
        text, ent = self._text_for(f)
        argv, stdin = self._file_arg(text)
        rc, cls, out, err = self._run('ImportCert', argv, stdin)
        if cls:
            return self._res(rc, cls)
        t = out.strip()
        if t == '':
            if ent is None:
                raise Mismatch('import-accepted-what-is-not-a-certificate', repr(text[:60]))
            k = (str(f['k'][0]), f['k'][1])
            self.bind_cert((k, f['c']), Name.to_str(Name.from_bytes(ent['cert'])))
            kc = self.open()
            try:
                kn = Name.from_bytes(ent['key'])
                stored = bytes(kc[kn[:-2]][kn][Name.from_bytes(ent['cert'])].data)
            except KeyError:
                stored = None
            finally:
                kc.shutdown()
            if stored is not None and stored != ent['data']:
                raise Mismatch('import-stored-other-bytes', Name.to_str(Name.from_bytes(ent['cert'])))
            return self._res(rc, 'imported')
        if t == 'Malformed certificate':
            return self._res(rc, 'malformed')
        m = re.match(r'^Specified key (\S+) does not exist\.$', t)
        if m:
            if ent is not None and self.canon(m.group(1)) != Name.to_str(Name.from_bytes(ent['key'])):
                raise Mismatch('message-names-other-object', t[:200])
            return self._res(rc, 'nokey')
        m = re.match(r'^Specified certificate (\S+) already exists\.$', t)
        if m:
            if ent is not None and self.canon(m.group(1)) != Name.to_str(Name.from_bytes(ent['cert'])):
                raise Mismatch('message-names-other-object', t[:200])
            return self._res(rc, 'exists')
        return self._other(rc, out)

    def _SignCert(self, o, a):
        w = self.world
        v = self.k + self.ncalls
        req_ent = None
        if a['req'] == 'ok':
            reqs = [e for e in w.library if e['req']] or [e for e in w.library]
            if reqs and v % 4:
                req_ent = reqs[v % len(reqs)]
            else:
                req_ent = w.the_peer().sign_request()
            text = req_ent['text']
        elif a['req'] == 'junk':
            text = JUNK[v % len(JUNK)]
        elif a['req'] == 'undecodable':
            text = _undecodable(v)
        else:
            text = _nocontent(w, self.key_name((self.uni['Ids'][0], 1)))
        argv = []
        issuer = 'NA'
        if a['iss'] == 'one':
            issuer = ('CA%d' % (v % 7), '8=%01%02', 'v=5')[v % 3]
            argv += [('-i', '--issuer-id')[v % 2], issuer]
        elif a['iss'] == 'bad':
            argv += ['-i', ('a/b', '', '/', 'x/y/z')[v % 4]]
        nb = na = None
        if a['nb'] == 'ok':
            nb = ('20240229T235959', '19700101T000000', '20300615T120000')[v % 3]
            argv += [('-s', '--not-before')[v % 2], nb]
        elif a['nb'] == 'bad':
            argv += ['-s', ('2024-02-29', '20240230T000000', 'now', '20240229T246060')[v % 4]]
        if a['na'] == 'ok':
            na = ('20250301T000000', '99991231T235959', '20240229T235959')[v % 3]
            argv += [('-e', '--not-after')[v % 2], na]
        elif a['na'] == 'bad':
            argv += ['-e', ('tomorrow', '20251301T000000', '1')[v % 3]]
        argv.append(self.real(o))
        fargs, stdin = self._file_arg(text)
        t0 = datetime.datetime.now(datetime.UTC).replace(microsecond=0)
        rc, cls, out, err = self._run('SignCert', argv + fargs, stdin)
        t1 = datetime.datetime.now(datetime.UTC)
        if cls:
            return self._res(rc, cls)
        t = out.strip()
        if t == 'Malformed certificate':
            return self._res(rc, 'malformed')
        if re.match(r'^Specified (identity|key|certificate) does not exist: \S+$', t):
            return self._res(rc, 'nosigner')
        if t == 'Issue ID is not a single component':
            return self._res(rc, 'badissuer')
        if t.startswith('Not-before is not of valid format: ') or t.startswith('Not-after is not of valid format: '):
            return self._res(rc, 'badtime')
        if self._text_out(out) is None or req_ent is None:
            return self._other(rc, out)
        ent = w.remember(out)
        cv = sv2.parse_certificate(ent['data'])
        name = Name.from_bytes(ent['cert'])
        req = sv2.parse_certificate(req_ent['data'])
        if ent['key'] != req_ent['key'] or bytes(name[-2]) != bytes(Component.from_str(issuer)) \
                or Component.get_type(name[-1]) != Component.TYPE_VERSION:
            raise Mismatch('issued-certificate-name', '%s for the request %s, issuer %s' % (
                Name.to_str(name), Name.to_str(Name.from_bytes(req_ent['cert'])), issuer))
        if bytes(cv.content) != bytes(req.content):
            raise Mismatch('issued-certificate-content', 'the key bits are not those of the request')
        vp = cv.signature_info.validity_period
        got_nb, got_na = bytes(vp.not_before).decode(), bytes(vp.not_after).decode()
        fmt = '%Y%m%dT%H%M%S'
        if nb is not None:
            if got_nb != nb:
                raise Mismatch('issued-certificate-validity', 'NotBefore %s, asked for %s' % (got_nb, nb))
        else:
            d = datetime.datetime.strptime(got_nb, fmt).replace(tzinfo=datetime.UTC)
            if not (t0 <= d <= t1):
                raise Mismatch('issued-certificate-validity', 'NotBefore %s is not the time of issuing' % got_nb)
        if na is not None:
            if got_na != na:
                raise Mismatch('issued-certificate-validity', 'NotAfter %s, asked for %s' % (got_na, na))
        else:
            d0 = datetime.datetime.strptime(got_nb, fmt)
            if datetime.datetime.strptime(got_na, fmt) != d0 + datetime.timedelta(days=365):
                raise Mismatch('issued-certificate-validity', 'NotAfter %s is not 365 days after NotBefore %s' % (got_na, got_nb))
        kl = cv.signature_info.key_locator
        loc = Name.to_str(kl.name) if kl is not None and kl.name is not None else '(none)'
        locobj = self.obj_of(loc)
        # the signature is that of the key the locator names
        sk = (locobj[1], locobj[2])
        if locobj[0] == 2:
            kc = self.open()
            try:
                kn = Name.from_str(self.key_name(sk))
                bits = bytes(kc[kn[:-2]][kn].key_bits)
            except KeyError:
                bits = None
            finally:
                kc.shutdown()
            if bits is not None:
                self._verify(ent['data'], bits, 'issued-certificate-signature')
        # the requester can import what was issued for it
        if req_ent['key'] in {bytes(Name.to_bytes(kn)) for kn in (w.peer.keys if w.peer else ())}:
            w.peer.accepts(out)
        return self._res(rc, 'issued', [locobj])

    def _GetSignReq(self, o):
        rc, cls, out, err = self._run('GetSignReq', [self.real(o)] if o[0] != 3 else [])
        if cls:
            return self._res(rc, cls)
        miss = self._missing(out)
        if miss:
            return self._res(rc, miss)
        if self._text_out(out) is None:
            return self._other(rc, out)
        ent = self.world.remember(out, req=True)
        name = Name.from_bytes(ent['cert'])
        ko = self.obj_of(Name.to_str(name[:-2]))
        if bytes(name[-2]) != bytes(sv2.SIGN_REQ_COMPONENT):
            raise Mismatch('sign-request-name', Name.to_str(name))
        if ko[0] == 1:
            kc = self.open()
            try:
                bits = bytes(kc[name[:-4]][name[:-2]].key_bits)
            except KeyError:
                bits = None
            finally:
                kc.shutdown()
            cv = sv2.parse_certificate(ent['data'])
            if bits is None or bytes(cv.content) != bits:
                raise Mismatch('sign-request-content', 'the request does not carry the key bits of %s' % Name.to_str(name[:-2]))
            self._verify(ent['data'], bits, 'sign-request-signature')
        return self._res(rc, 'signreq', [ko])


# --------------------------------------------------------------------------------------------- expectations
VIEW = ('pib', 'ids', 'keys', 'certs', 'dI', 'dK', 'dC')


def expected_state(node):
    db = node['db']
    return {'pib': node['pib'], 'ids': {str(i) for i in db['ids']},
            'keys': {(str(k[0]), k[1]) for k in db['keys']},
            'certs': {((str(x[0][0]), x[0][1]), x[1]) for x in db['certs']},
            'dI': {str(i) for i in db['dI']}, 'dK': {(str(k[0]), k[1]) for k in db['dK']},
            'dC': {((str(x[0][0]), x[0][1]), x[1]) for x in db['dC']}, 'tpm': True, 'unknown': []}


def expected_result(r):
    return {'rc': r['rc'], 'cls': str(r['cls']), 'out': {(obj_of_tla(m['o']), bool(m['d'])) for m in r['out']}}


def state_json(p):
    return {'pib': p['pib'], 'ids': sorted(p['ids']), 'keys': sorted([list(k) for k in p['keys']]),
            'certs': sorted([[list(x[0]), x[1]] for x in p['certs']]), 'dI': sorted(p['dI']),
            'dK': sorted([list(k) for k in p['dK']]), 'dC': sorted([[list(x[0]), x[1]] for x in p['dC']]),
            'tpm': p['tpm'], 'unknown': list(p['unknown'])}


def result_json(r):
    return {'rc': r['rc'], 'cls': r['cls'], 'out': sorted(({'o': obj_json(o), 'd': d} for o, d in r['out']),
                                                          key=lambda m: json.dumps(m, sort_keys=True))}


def diff_state(exp, got):
    d = [(k, state_json(exp)[k], state_json(got)[k]) for k in VIEW if exp[k] != got[k]]
    if got['unknown']:
        d.append(('unexplained-objects', [], got['unknown']))
    if not got['tpm']:
        d.append(('private-keys', 'one file per listed key', 'differs'))
    return d


def diff_result(exp, got):
    e, g = result_json(exp), result_json(got)
    return [(k, e[k], g[k]) for k in ('cls', 'rc', 'out') if e[k] != g[k]]
