"""Regenerates /verif/MANIFEST.json from the table below: `python -m harness.manifest`."""
import json, os

VERIF = os.path.dirname(os.path.dirname(os.path.abspath(__file__)))

# id -> (claimed, category, technique, level text, level note, design ref)
PIPE_NOTE = ('Trusted: TLC; the virtual-time asyncio loop (integer-microsecond clock, macro-step discipline: one stimulus, run to '
             'quiescence at the current instant, timers due at an instant fire together as in one loop iteration); harness '
             'validators/handlers; pending-entry and attached-handler counts are read from the private tries. Bounded scope '
             '(see evidence tlc_runs); conformance compares observables only.')
CHECKS = {
 'C03': (True, 'model_checking',
         'TLA+ spec NdnPit checked exhaustively by TLC (focused configurations, both front-ends, liveness on a small one); TLC graph transition cover + random schedules executed on appv2.NDNApp and app.NDNApp over a virtual-time loop; every execution validated by TLC (NdnPitTrace)',
         'TLC explores every interleaving of express / Data / Nack / timer expiry / validator completion / caller cancel / shutdown / junk / reconnect over up to 3 pending Interests on same and nested names (CanBePrefix, implicit digest and both, lifetimes 1-2 ticks and the default lifetime, deferred await, cancellation in flight) and checks OnceOnly, RightOutcome, NoResidue, AllAndOnlyMatching, NoUnvalidatedData, JunkInert and Finishes. Schedules covering every transition of a smaller graph, and random larger schedules (6 Interests, 6 names, 40 events, same-instant races in both orders), are driven into both real front-ends; after every stimulus the outcome of every awaitable, its completion instant, the pending-table size, validator invocations and any internal error are recorded and the trace is accepted only if it is a behaviour of NdnPit. The implementation-level model NdnPitImpl (trie of node objects, waiter references, validator tasks) is checked to refine NdnPit. The connection life cycle (AppLife.tla: main_loop ending by shutdown / peer / cancellation / failing after_start, reconnect) is replayed into both front-ends and the pending / outcome variables compared. A packet served in the same loop iteration as the due lifetime timers (packet first) is a stimulus of its own (RecvDataFire), and Data packets come with a Content element, an empty one and none. The same for a Nack (RecvNackFire: reason or timeout at the deadline). A few long histories per front-end (48 Interests on one application, one hot name, lifetimes from 20 ms to 70 s) are judged by the same trace module.',
         PIPE_NOTE + ' Known finding KF-legacy-slow-validator is modelled as deviation legacySlowValidator (off in the strict pass).',
         'DESIGN.md 5.1, 6/C03'),
 'C04': (True, 'model_checking',
         'TLA+ spec NdnFib checked exhaustively by TLC; TLC graph transition cover (every name representation) + random attach/detach/Interest/reply histories executed on both front-ends; executions validated by TLC (NdnFibTrace); Dispatcher compared with the declarative longest-prefix definition',
         'TLC checks on all attach / duplicate-attach / detach histories over a 5-name tree (root included) that the operational trie walk equals the declarative longest attached prefix, each Interest reaches at most one handler, refused attach and detach leave other prefixes untouched, and the reply callback sends only up to the deadline and returns True exactly when it sent. The graph cover is executed on appv2 (attach_handler/detach_handler) and legacy (set_interest_filter/unset_interest_filter) with URI / str-list / bytes / bytearray / memoryview / wire representations, handler identity observed through harness closures, and judged by TLC trace validation. A few long histories per front-end (100 Interests on one application object, most of them needing validation, most validators failing or raising; replies whose size sits on the 253 / 65536 length boundaries or exceeds 8.8 kB) are judged by the same trace module.',
         PIPE_NOTE + ' Reply callback exists only in appv2. At now = deadline sending or refusing are both accepted.',
         'DESIGN.md 5.1, 6/C04'),
 'C05': (True, 'model_checking',
         'TLA+ specs NdnPit (verdict dimension open) and NdnFib (digest/validator gate) checked by TLC; transition covers and random schedules with harness validators of scheduled verdict and latency executed on both front-ends; validated by TLC trace modules',
         'TLC checks NoUnvalidatedData (Data is returned only by the step in which the validator of that entry returns an accepting verdict no later than the deadline; other verdicts give a failure carrying packet and verdict; a validator still running at the deadline gives timeout) over all six v2 verdicts incl. a validator raising TimeoutError and legacy truthy/falsy values, and IntGate (parameterised/signed Interests need a correct parameters digest and an accepting verdict of the validator in force; plain ones bypass it) over all parameter/signature/digest combinations. Both are bound to the code by replaying TLC-generated and random schedules and validating the recorded traces with TLC. A refused duplicate declaration brings a validator of its own that must never be called; long histories (100 incoming Interests, 48 expressed ones) are part of both tiers.',
         PIPE_NOTE + ' Known finding KF-legacy-slow-validator (legacy front-end never turns a slow Data validator into a timeout) is reported as KNOWN-FINDING.',
         'DESIGN.md 5.1, 6/C05'),
 'C06': (True, 'model_checking',
         'TLA+ spec Framing (all chunkings as Feed interleavings) checked by TLC and bound to the real StreamFace.run via FramingTrace; RecvJunk inertness in NdnPit/NdnFib checked by TLC and bound by delivering a mutation corpus in random pipeline states of both front-ends and to the datagram handler',
         'Framing: TLC enumerates packet sequences with 1/3/5/9-byte type and length forms, every truncation point and every way of cutting the stream into reads, checking that exactly the complete packets are delivered once, in order, never early, and that the reader stops at end of stream. The transition cover, every chunking x truncation of short streams and random chunkings of streams with real multi-byte lengths run on a real asyncio.StreamReader + StreamFace.run and are judged by TLC; UnixFace and TcpFace are also run over loopback sockets against an in-process server (chunked writes, orderly close, RST) and their final state judged by the same trace module. Robustness: >2000 malformed / truncated / fragment / unknown / unaddressed byte strings are delivered through _receive of both front-ends in random PIT/FIB states (and to UdpFace.datagram_received); the trace is accepted only if the junk step changes nothing, raises nothing, and the untouched Interests still complete as the spec says; every second application runs with DEBUG logging so that the debug branches of the receive path are executed too. The corpus also holds Interests with the intact Name of something pending or attached and ill-formed octets behind it, bare and under a Nack header. Bursts of several hundred complete packets sitting in the reader buffer at once (alone, behind a trickle, in two reads, with a cut tail) are framed by the real StreamFace.run and judged by FramingTrace.',
         PIPE_NOTE + ' Mutants of packets that address pending state are used only when the independent strict TLV reader finds them structurally malformed.',
         'DESIGN.md 5.2, 6/C06'),
 'C09': (True, 'model_checking',
         'TLA+ reference NameUri checked by TLC on enumerated domains (NameUriMC); TLC-computed spellings/wires/sorted domains replayed on ndn.encoding.Name/Component; library outputs judged by TLC (NameUriJudge)',
         'TLC evaluates an executable TLA+ reference of the NDN name grammar over exhaustive bounded domains and checks that shorthand and canonical text round-trip, every generated spelling/slash variant/wire form denotes the same name, canonical text uses no shorthand, byte order of shortest-form encodings equals NDN canonical order, and the prefix test equals component-wise equality. Every enumerated state is replayed into Name/Component in every accepted input form and every pair compared with Python ordering and is_prefix; library printing of the enumerated components and of random larger names is parsed back by the reference inside TLC. Arbitrary text (19 ASCII + 42 non-ASCII characters of every category in 44 templates) is handed to Component.from_str directly; Name.to_bytes results must not follow the caller\'s buffer.',
         'Trusted: TLC, the transcription of the documented grammar, Python bytes/list comparison. Bounded: exhaustive over 5343 components, names <=3 components over 14/30 representatives, 85/400 names pairwise; random names <=8 components, values <=300 bytes. Not compared: order of the full Name TLV including its outer length; what the library accepts beyond the reference grammar.',
         'DESIGN.md 5.4, 6/C09'),
 'C19': (True, 'model_checking',
         'TLA+ spec SegFetch checked exhaustively by TLC; TLC state-graph transition cover replayed on segment_fetcher; recorded executions validated by TLC (SegFetchTrace)',
         'TLC visits every object shape x discovery answer x final marker x retry limit x loss/Nack/validation-failure pattern in the bound and checks InOrderOnce, DoneComplete, RetryBound, FailsIffExhausted, NoSkip, Terminates; every transition of that graph is then driven through the real generator on a virtual-time loop with the projection compared after each step, and larger random executions (also two concurrent fetches on one application) are accepted only if SegFetchTrace can explain every event. Dimensions the model abstracts from are varied with the configuration (FinalBlockId on every / the last / the last two segments, an empty segment, default arguments, name as str / list / wire). SegFetchInd is an inductive invariant discharged by Apalache for unbounded sizes and SegFetchRef a refinement checked by TLC. An answer arriving in the instant the lifetime runs out (RespDataLate, also in the same loop iteration as the timer) may count as answered or as timed out, nothing else; segments may lack a Content element. Objects of 257 / 300 (thorough: 256 / 600 / 1100) segments are fetched and judged by the same trace module.',
         'Trusted: TLC, the virtual-time loop, the harness producer. Bounded: <=4 segments/3 retries exhaustively, <=12 segments/5 retries in random traces, a few objects of up to 1100 segments.',
         'DESIGN.md 6/C19'),
 'C20': (True, 'model_checking',
         'TLA+ reference ClientConf checked by TLC over the enumerated product (ClientConfMC); each state materialised on disk/environment and compared with read_client_conf, default_keychain, default_face; random configurations judged by TLC (ClientConfJudge)',
         'TLC enumerates the product of configuration sources (file existence patterns x key present/absent/commented x environment subsets x store-location classes x default-location existence) and transport URIs. The clauses of the statement are invariants on a layered reference. Every state is materialised in a scratch tree with an injected Platform and compared with read_client_conf / default_keychain / default_face; random larger configurations and URIs are judged by TLC. Every candidate and store location is a file-system object of some kind (file, link, directory, dangling link, loop; reached through linked directories); an existing PIB location holds its key-file directory.',
         'Trusted: TLC; replacing the Platform singleton by a Linux subclass whose path lists point into the scratch tree (real Linux lists checked separately under a patched HOME); macOS/Windows classes not importable. Bounded: 4 candidate files with <=2 existing exhaustively, <=6 files in random runs. When neither the given location nor any default exists any candidate is accepted.',
         'DESIGN.md 5.11, 6/C20'),
}


CHECKS.update({
 'C01': (True, 'model_checking',
         'TLA+ layout algebra NdnPackets checked by TLC over an enumerated configuration space; TLC-enumerated expected element layouts replayed on make_interest/make_data/parse_*; recorded calls judged by TLC (NdnPacketsTrace)',
         'TLC checks on every enumerated configuration (name shapes x optional-field subsets x payload lengths on every 253/65536 boundary before and after shrink x signer models incl. every small reserve/actual pair) that the imperative two-pass encode plus shrink yields exactly the declaratively well-formed tree; each configuration is then built with the real library and real signers and its wire compared entry by entry (type, offset, header width, length) through an independent strict reader, and parse_* must return the caller\'s fields; random configurations and every payload length 0..70000 for three configurations are recorded and accepted only if TLC\'s reference reproduces the observed layout. Every name-valued and octet-string parameter (packet name, each ForwardingHint delegation, KeyLocator, FinalBlockId, payloads) comes in every representation a NonStrictName / BinaryStr may take (16 x 3 forms).',
         'Trusted: TLC, strict_tlv reader, PyCryptodome. Bounded: <=3 components exhaustively, <=8 components / 70000-byte payloads in traces; 9-byte TLV numbers not reachable (32-bit TLC ints). Payload content equality is a harness comparison.',
         'DESIGN.md 5.3, 6/C01'),
 'C02': (True, 'model_checking',
         'TLA+ range/region/edit algebra (NdnPackets) checked by TLC; recording signer + parser ranges + hashlib/PyCryptodome on the spec ranges; exhaustive single-byte substitution, truncation and TLV-level edits judged with TLC verdict table; recorded ranges and tamper outcomes judged by TLC',
         'TLC proves on every enumerated configuration that SignedRange/DigestRange are the NDN-specified ones, properly nested, equal to what the marker arithmetic computes after the shrink, and that any change inside them is classed must-reject; on real wires the bytes handed to the signer, the bytes reported by parse_* and the spec ranges are compared for equality, the matching verifiers and an independent PyCryptodome call must accept, and then every byte offset (2-3 substitutions), every truncation and every tabled TLV edit is applied with TLC region/edit table deciding the expected verdict; larger random packets are recorded and judged by TLC. Name-level edits include one more component of the parameters-digest type (32 or 4 octets, every position) and the digest component repeated: must-reject.',
         'Unforgeability of the primitives assumed; exhaustive byte-level tampering on wires <=400 bytes, sampled offsets on larger ones; verdict for the SignatureValue length byte and for out-of-order recognised elements is "either" (C07 territory).',
         'DESIGN.md 5.3, 6/C02'),
 'C10': (True, 'model_checking',
         'TLA+ specs NdnPit (envelope/reason parameters) and NdnFib (PIT-token echo) checked by TLC; covers and random schedules with envelopes built by an independent NDNLPv2 writer executed on both front-ends and validated by TLC; LP codec round trips against the strict reader',
         'In NdnPit a packet has the same successor whatever envelope carries it (bare, LpPacket, LpPacket with optional and unknown headers), a Nack completes exactly the pending Interests with the same full name with precisely its reason, fragments are junk; in NdnFib every reply is an envelope carrying the Interest\'s token (bare without token). The real front-ends are driven with envelopes produced by the harness\' own writer: reasons 0 (also as an empty Nack header), 50, 150, 2^32+5, 2^64-1, tokens of length 0/1/8/32/33, fragmented envelopes around matching Data, several token-bearing Interests answered in any order, known NDNLPv2 headers (NextHopFaceId, CachePolicy, TxSequence, NonDiscovery) and a PIT token on received envelopes, Nack-headed envelopes around Data; reply envelopes must have the Fragment last; the recorded traces must be behaviours of the specs. Replies come in sizes 243..256 (the length of the envelope crosses 253 while that of the fragment does not), 65530..65540 and above 8.8 kB; a buffer handed to the face must not change afterwards (transports queue references).',
         PIPE_NOTE + ' Token clause decided on appv2 only (the legacy front-end has no reply callback).',
         'DESIGN.md 5.1, 6/C10'),
 'C16': (True, 'model_checking',
         'TLA+ certificate layout (NdnPacketsCert) and calendar oracle (CertTime) checked by TLC; TLC-enumerated issue requests replayed on self_sign/sign_req/derive_cert with a patched clock; PyCryptodome verification over the spec signed range; recorded issuances judged by TLC',
         'TLC checks the closed-form calendar against the naively stated one day by day (incl. 2100, 2400, 9999) and cross-checks it with datetime on 400 instants, and checks LawCert (name = key-name/issuer/version, ContentType KEY, validity shape, locator, signed range, exact lengths after shrink) on every enumerated request; each request (subject key type x issuing signer incl. every ECDSA DER length x issuer-id form x start x lifetime x zone x clock) is executed on the real functions, the certificate compared entry by entry, validity text compared with CertTime rendering, the signature verified under the issuing key, and parse_certificate/parse_data compared; random requests are recorded and judged by TLC. The subject key is handed over in every encoding and buffer kind the API accepts (the Content must be exactly those bytes); DST zones include ones whose standard offset is zero.',
         'Years 1970..9999; self_sign/sign_req periods are only required to be well-formed and to contain the issuing instant; aware datetimes are instants, naive ones UTC. PyCryptodome trusted.',
         'DESIGN.md 5.3, 6/C16'),
})

CHECKS.update({
 'C07': (True, 'model_checking',
         'TlvModel scan machine instantiated with Interest/Data/Certificate/LpPacket schemas written from the format documents; TLC checks Verdict=accept <=> WellFormed and out=Extract over all element sequences; every TLC terminal state is serialised by a strict writer and replayed on parse_interest / parse_data / parse_certificate / parse_lp_packet_v2 / Name.from_bytes; mutation corpus and random strings classified by a strict reader and judged by TLC (TlvModelC07Judge); interpreter step counts for linearity',
         'For every element sequence in the bound (recognised fields x legal/illegal width, overrunning children, overrunning name components, empty, unknown critical/non-critical, cut headers) TLC proves the machine accepts exactly the declaratively well-formed inputs and extracts the declarative fields, and the real decoder must agree: accept with those fields, or a documented error. 6k (quick) / 130k (thorough) mutated or random byte strings are accepted only if the TLC reference gives the same verdict and fields. Line-event counts at 1/2/4/8x must stay within a*len+b.',
         'Trusted: TLC, strict_tlv (each emitted sequence is written, read back and compared), result projection in c07.decode. Interpretations: non-shortest T/L numbers accepted; any legal uint width accepted for fixed-width fields; Name.from_bytes judged on its leading element only; LP FragIndex/FragCount rejection is modelled as unsupported. One known finding KF-C07-3 (LP envelope tolerates an overrunning element).',
         'DESIGN.md 5.3, 6/C07'),
 'C08': (True, 'model_checking',
         'TLA+ reference of tlv_model (TlvNum, TlvModel, TlvModelScan) checked by TLC on a family of model classes x boundary values x edits; TLC-emitted Encode/AnnouncedLength/edit-outcome vectors executed on classes built through the real metaclass with an independent strict TLV reader; random and all shipped model classes judged by TLC (TlvModelJudge)',
         'TLC explores the scan machine on every enumerated (class, legal assignment, edit) and checks Parse(Encode(v))=v, Size(Encode)=AnnouncedLength, declared order, minimal widths, IncludeBase collection, non-critical insertion ignored at every position/level and unknown/repeated/out-of-order critical rejected. The same enumeration is executed on the real classes (announced length, strict projection of the wire equal to Encode, parse-back, each edit). Observations on 40-500 random classes and 54 shipped classes with random values and edits are accepted only if the TLC reference reproduces them.',
         'Trusted: TLC, strict_tlv (cross-checked against TlvNum vectors every run), the value projection in tlvkit, Python utf-8 codec. Bounded: the boundary sets named in the property, <=3 nesting levels, at most K fields off default when the product exceeds Cap. Custom Field subclasses (SignatureValue/InterestName) kept absent. One known finding KF-C08-2 (NameField with a type number other than 7).',
         'DESIGN.md 5.3, 6/C08'),
 'C18': (True, 'model_checking',
         'TLA+ spec Svs checked exhaustively by TLC (action properties, open and implementation-resolved modes, deviation counterexamples); on-the-fly transition cover of the TLC state graph on the real SvsInst; recorded executions validated by TLC (SvsTrace, two-pass with named deviations)',
         'TLC checks Monotone, EntrywiseMax, OverclaimIgnored, MissingIffRaised, PublishEmitsFullVector, HeardIsMerge, SuppressionDecision and EmitsOnlyLocal as action properties on Svs for 3 nodes, sequence numbers 0..2 (thorough: 0..3), every packet over that bound (partial, over-claiming, entries without node id or sequence number in both encoding orders, undecodable) and event sequences of any length, with everything C18 leaves open kept nondeterministic, and again with the choices resolved as sync.py does. Every (state, stimulus) pair of the implementation-resolved state graph is then applied to a real SvsInst on a v2 NDNApp on the virtual-time loop, with the public projection matched against the graph successors. Random 5-node, ~100-event histories are accepted only if SvsTrace explains every event. A sync Interest handled between new_data() and the timer task (PublishThenRecv) must leave the publication announced within the step; undecodable vectors include every cut inside multi-octet TLV numbers; constructor arguments come in nine representations.',
         'Trusted: TLC, the virtual-time loop, appv2 delivery to the handler, the harness vector encoder. Bounded: 3 nodes and seq <= 3 exhaustively, 5 nodes and seq <= 20 in traces. The same-loop-iteration race of packet and timer, duplicate node ids in one vector, and multi-instance convergence are not covered.',
         'DESIGN.md 5.9, 6/C18'),
})

CHECKS.update({
 'C11': (True, 'model_checking',
         'TLA+ reference semantics (Lvs, LvsTree) checked by TLC; TLC-enumerated schemas/trees replayed on compile_lvs/Checker; recorded match results judged three-way by TLC (LvsJudge)',
         'TLC checks that the explicit state machine of Checker._match yields exactly what the recursive reading of the binary format yields, on every sane tree <=4 nodes x name <=3 x carried context. TLC also enumerates an exhaustive family of small schemas with Lvs!Match for all names, which the real compile_lvs + Checker.match (directly and after save/load) must reproduce. For seeded generated schemas (repeated rule references, redefinitions, temporary rules and patterns, constrained temporaries, multi-option and multi-set constraints, user functions) TLC judges Lvs!Match = LvsTree!TreeMatch(compiled model) = recorded result for every name up to length 4 over an alphabet hitting every literal plus fresh components.',
         'Trusted: TLC, the JSON dump of the model, the harness generator. Lvs.tla is written from lvs.rst only. Bounded: names <=4 over <=5 symbols, schemas <=6 rules; $eq_type only with literal arguments. Constraints on patterns outside the constraining rule expansion are read as vacuous.',
         'DESIGN.md 5.5, 6/C11'),
 'C12': (True, 'model_checking',
         'TLA+ Check/CheckYes reference evaluated by TLC on enumerated and recorded (pkt,key) pairs; Checker._match-with-carried-context machine model-checked against the documented walk',
         'TLC computes Lvs!Check for all 1,600 name pairs of an enumerated small-schema family, and the real Checker.check (direct and reloaded) is run on every pair. For generated schemas with signing chains, alternatives, shared patterns and constraints on shared patterns, TLC judges Lvs!Check = LvsTree!TreeCheck = recorded answer on all pairs of short names and sampled pairs of longer ones. The same run checks the corollary yes => the key matches a rule, and that a trailing implicit-digest component on either side is ignored.',
         'Trusted and bounded as C11. Pairs are exhaustive for names <=2 (<=3 on every 10th schema in thorough) and sampled with a bias to matching names beyond.',
         'DESIGN.md 5.5, 6/C12'),
 'C13': (True, 'model_checking',
         'TLC liveness/safety on the Checker._match state machine over enumerated sane and corrupted trees; WellFormed/Sane reference operators judging recorded compile/load outcomes of injected schemas and corrupted models; settrace step budget',
         'TLC proves <>Done, a step bound and no-stall for the _match machine on all sane trees <=4 nodes, and termination on every single parent-link corruption whenever the documented rules hold and the root has no parent. TLC-enumerated ill-formed schemas and corrupted trees are executed on compile_lvs/Checker/Checker.load. For generated schemas, every injected static error (17 kinds x every position) and every single-field corruption of the compiled binary model (version, node id, parent, destination, signer, option shape, missing tag) is judged by TLC with WellFormed and Sane. Every query on every accepted model runs under a step budget derived from the spec bound.',
         'Sane is read over nodes reachable from the root. No-self-signing is read coarsely, so only clearly acyclic schemas must be accepted. Non-termination is judged by a sys.settrace line budget of 100 lines per spec-allowed iteration.',
         'DESIGN.md 5.5, 6/C13'),
 'C14': (True, 'model_checking',
         'TLA+/TLC model checking of TrustChain + spec-to-code graph walk (belief-set conformance) on lvs_validator over materialised certificate worlds + code-to-spec trace validation (TrustChainTrace)',
         'Exhaustive model checking of an implementation-shaped TLA+ model of lvs_validator/CascadeChecker (schema check per link, anchor / per-instance key cache / fetch, signature verification, verdict) over all certificate hierarchies of depth 1..4 with one deviation at each link and all orders and cross-instance interleavings of up to 3 validations by two instances with good and bad anchors: verdict = ChainExists (declarative form checked equal to the key-locator walk), InstanceIndependent, ConstructorRefuses, termination; bound to the code by materialising every world with real EC/RSA/Ed25519 keys, real certificates and a compiled LVS schema and walking the state graph on lvs_validator over a virtual face with a producer that serves, Nacks or drops certificate Interests, and by TLC trace validation of random certificate graphs with 4 instances and 10 packets. A link may name its signer by certificate name, key name or full name with implicit digest (of the served packet, of a packet nobody serves, of a twin); every key-storage kind (default, Memory, Empty, application-supplied unbounded / bounded, forgetting) is a parameter of each validator instance.',
         'Crypto abstract in the spec (a signature verifies iff made by the key the next certificate carries; forged = one flipped bit); names identify certificates; one validation at a time per instance, interleaving across instances; validity periods and revocation out of scope; schema relation of the generated names asserted equal to Checker.check on every materialised world.',
         'DESIGN.md 5.6, 6/C14'),
 'C15': (True, 'model_checking',
         'Explicit TLA+ specification of KeychainSqlite3+TpmFile (sqlite connection view vs committed DB, trigger-maintained default flags, operations as step programs with a fault point at every tpm/DB step, signer cache, close/reopen) model-checked by TLC; TLC state-graph transition cover replayed on the real keychain with proxy fault injection and compared through the public Mapping API; seeded random histories recorded from the real code and judged by TLC (KeychainTrace)',
         'TLC exhaustively checks mapping-view consistency, at-most-one / default-when-populated, delete cascades (incl. private key files), signer-matches-key, no-signer-for-deleted-key and retry-after-failure on all histories over 2 identities x 2 keys x 2 certificates: depth 8 without faults, depth 7 with one injected fault, depth 5 with any number of faults (quick: 6 / - / 4), close/reopen anywhere. Every transition of the TLC graph out of states within 2 calls (quick: 1) plus a sample of the next layer is replayed on a real KeychainSqlite3+TpmFile and compared after each step; 1000 (100) random 40-call histories over 4 identities with faults are accepted by the spec with the invariants evaluated on every state. get_signer is also asked for identities that do not exist (KeyError, never the default identity\'s signer) and with the Certificate objects the views hand out.',
         'Depth with faults is below the planned 8 (6) because state count grows about 7x per call. A storage fault is a step raising without effect; sqlite power-loss consistency and other Tpm back-ends are not covered. Fault points are counted as the n-th DB/tpm call.',
         'DESIGN.md 5.7, 6/C15'),
 'C17': (True, 'model_checking',
         'TLA+/TLC model checking of NfdReg + spec-to-code graph walk (belief-set conformance) on appv2.NDNApp+NfdRegister and legacy NDNApp under a scripted clock + code-to-spec trace validation (NfdRegTrace); parse_response judged against a TLA+ reference (NfdRegResp)',
         'Exhaustive model checking of an implementation-shaped TLA+ model of both registration front-ends (semaphore, timestamp guard, clock free between any two reads, 8 forwarder reply kinds, declared routes over reconnects) for OneAtATime, TsStrictlyIncreasing, SuccessIff200, NeverRaises, ExactlyOneCommand, RoutesOncePerConnection; bound to the code by replaying transition-cover stimulus sequences of the state graphs on both front-ends under a scripted clock and by TLC trace validation of random 8-call schedules; every command Interest decoded and its digest/signature recomputed by an independent strict TLV reader; parse_response judged against a TLA+ reference on TLC-enumerated and random ControlResponses. Reconnections run in a new event loop in every second scenario (as run_forever does); the AppLife replay tries refused, repeated and nested route declarations and prefixes given as lists the caller mutates.',
         'Bounded: <=3 concurrent calls (A/B), 8 (C); clock 0..5; in NfdReg Disconnect only when idle (a connection ending at any point of the auto-registration is covered by AppLife.tla, whose command / handler variables are replayed into both front-ends in stage B); a silent forwarder only with one command in flight; wall clock assumed monotone; v2 validation failure injected by substituting the validator at NDNApp.express.',
         'DESIGN.md 5.8, 6/C17'),
})

NOT_YET = {}


def build():
    with open(os.path.join(VERIF, 'properties.jsonl')) as f:
        props = [json.loads(l) for l in f]
    checks, na = [], []
    for p in props:
        pid = p['id']
        c = CHECKS.get(pid)
        if c and c[0]:
            checks.append({
                'property_id': pid,
                'quick_cmd': 'bin/check %s --tier quick' % pid,
                'thorough_cmd': 'bin/check %s --tier thorough' % pid,
                'evidence_file': '/verif/evidence/%s.json' % pid,
                'replay_cmd_template': 'bin/check %s --replay {path}' % pid,
                'engine': 'tlc+conformance',
                'level_claimed': {'category': c[1], 'text': c[3], 'design_ref': c[5]},
                'level_note': c[4],
                'technique': c[2],
            })
        else:
            na.append({'property_id': pid, 'reason': NOT_YET.get(pid, 'check not built yet in this round (planned, see DESIGN.md 6); not claimed until its TLA+ spec and conformance harness exist')})
    m = {
        'version': 1,
        'setup_cmd': 'bin/check --setup',
        'hooks': {
            'guard': 'PYTHON_NDN_VERIF',
            'enable': 'environment variable PYTHON_NDN_VERIF=1 (set by bin/check); no source hooks are needed so far: checks import /repo/src directly',
            'baseline_off_cmd': 'cd /repo && env -u PYTHON_NDN_VERIF /venv/bin/python -m pytest -ra -q -p no:cacheprovider --timeout=900 --continue-on-collection-errors',
            'source_commits': [],
            'add_only': True,
        },
        'engines': [{'name': 'tlc+conformance', 'path': '/verif/bin/check',
                     'serves_properties': [c['property_id'] for c in checks],
                     'kind_free_text': 'TLA+ specifications in /verif/spec checked by TLC 1.8; spec->code replay of TLC behaviours and code->spec trace validation by TLC, driven by /verif/harness'}],
        'checks': checks,
        'not_applicable': na,
        'notes': 'All checks: exit 0 held / exit 1 with VIOLATION line / exit 2 machinery failure. VERIF_SEED and VERIF_TIER honoured. VERIF_REPO=<dir> points the checks at another working tree (used for seeded-change experiments).',
    }
    with open(os.path.join(VERIF, 'MANIFEST.json'), 'w') as f:
        json.dump(m, f, indent=1)
    return m


if __name__ == '__main__':
    m = build()
    print('MANIFEST.json: %d checks, %d not_applicable' % (len(m['checks']), len(m['not_applicable'])))
