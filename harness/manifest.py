"""Regenerates /verif/MANIFEST.json from the table below: `python -m harness.manifest`."""
import json, os

VERIF = os.path.dirname(os.path.dirname(os.path.abspath(__file__)))

# id -> (claimed, category, technique, level text, level note, design ref)
CHECKS = {
 'C19': (True, 'model_checking',
         'TLA+ spec SegFetch checked exhaustively by TLC; TLC state-graph transition cover replayed on segment_fetcher; recorded executions validated by TLC (SegFetchTrace)',
         'TLC visits every object shape x discovery answer x final marker x retry limit x loss/Nack/validation-failure pattern in the bound and checks InOrderOnce, DoneComplete, RetryBound, FailsIffExhausted, NoSkip, Terminates; every transition of that graph is then driven through the real generator on a virtual-time loop with the projection compared after each step, and larger random executions are accepted only if SegFetchTrace can explain every event.',
         'Trusted: TLC, the virtual-time loop, the harness producer. Bounded: <=4 segments/3 retries exhaustively, <=12 segments/5 retries in traces.',
         'DESIGN.md 6/C19'),
}

NOT_YET = {}


def build():
    with open(os.path.join(VERIF, 'properties.jsonl')) as f:
        props = [json.loads(l) for l in f]
    checks, na = [], []
    for p in props:
        pid = p['id']
        c = CHECKS.get(pid)
        if c and c[0]:
            checks.append({
                'property_id': pid,
                'quick_cmd': 'bin/check %s --tier quick' % pid,
                'thorough_cmd': 'bin/check %s --tier thorough' % pid,
                'evidence_file': '/verif/evidence/%s.json' % pid,
                'replay_cmd_template': 'bin/check %s --replay {path}' % pid,
                'engine': 'tlc+conformance',
                'level_claimed': {'category': c[1], 'text': c[3], 'design_ref': c[5]},
                'level_note': c[4],
                'technique': c[2],
            })
        else:
            na.append({'property_id': pid, 'reason': NOT_YET.get(pid, 'check not built yet in this round (planned, see DESIGN.md 6); not claimed until its TLA+ spec and conformance harness exist')})
    m = {
        'version': 1,
        'setup_cmd': 'bin/check --setup',
        'hooks': {
            'guard': 'PYTHON_NDN_VERIF',
            'enable': 'environment variable PYTHON_NDN_VERIF=1 (set by bin/check); no source hooks are needed so far: checks import /repo/src directly',
            'baseline_off_cmd': 'cd /repo && env -u PYTHON_NDN_VERIF /venv/bin/python -m pytest -ra -q -p no:cacheprovider --timeout=900 --continue-on-collection-errors',
            'source_commits': [],
            'add_only': True,
        },
        'engines': [{'name': 'tlc+conformance', 'path': '/verif/bin/check',
                     'serves_properties': [c['property_id'] for c in checks],
                     'kind_free_text': 'TLA+ specifications in /verif/spec checked by TLC 1.8; spec->code replay of TLC behaviours and code->spec trace validation by TLC, driven by /verif/harness'}],
        'checks': checks,
        'not_applicable': na,
        'notes': 'All checks: exit 0 held / exit 1 with VIOLATION line / exit 2 machinery failure. VERIF_SEED and VERIF_TIER honoured. VERIF_REPO=<dir> points the checks at another working tree (used for seeded-change experiments).',
    }
    with open(os.path.join(VERIF, 'MANIFEST.json'), 'w') as f:
        json.dump(m, f, indent=1)
    return m


if __name__ == '__main__':
    m = build()
    print('MANIFEST.json: %d checks, %d not_applicable' % (len(m['checks']), len(m['not_applicable'])))
