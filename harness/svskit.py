"""Executor for C18: a real SvsInst attached to a v2 NDNApp on the virtual-time loop.

One Scenario = one instance (two Scenarios can share one process, loop, application and face: host /
guest, see Scenario.__init__). Stimuli (macro-steps, each followed by quiescence at the same
virtual instant) are exactly the events of spec/Svs.tla:

  recv(p, j, r)  (r = number of new_data() calls the application makes inside on_missing_data)
                 a sync Interest (real, signed, built here) carrying packet p is handed to the
                 application's receive callback, *before* any timer that is due at this instant
  publish(n, j)  n calls of new_data() in one loop turn
  fire(j)        the timers due at this instant run (only legal when timer() == 0)
  tick(d)        virtual time moves forward by d ticks, timers that become due do NOT run yet

j is the timer jitter parameter: secrets.randbits is patched to return j * rstep, so that every
timer the instance samples during the step is a whole number of ticks (spec: SupBase+j / SyncBase+j).

Projection (only what C18 names, through public attributes): local_sv, the decoded state vectors
of the sync Interests handed to the face during the step, the number of on_missing_data calls
during the step; plus, for keeping spec and instance in step, the public `state` and the time
left until the public `next_sync_timing`.
"""
import secrets
import time

from harness.appkit import Session, new_app, deliver, enc
from harness.tlc import MachineryError

from ndn import appv2
from ndn import security as sec
from ndn.app_support.svs import SvsInst

# group prefix of the instance under test: several components, among them an empty one, a typed one
# (0x20) and one of type 65536 (sync.py locates the vector relative to the prefix length and the end of
# the name); all accepted end-to-end by the library (a type-0 component is not: the Interest encoder
# refuses it). The sibling group keeps a one-component prefix.
GROUP = [b'\x08\x03ndn', b'\x08\x00', b'\x20\x03svs', b'\xfe\x00\x01\x00\x00\x02g1']
U = 1.0 / 64            # one tick, exactly representable
NOSEQ = -1              # spec value of "entry without sequence number"
NOID = 'none'           # spec value of "entry without node id" (no Name element)
ROOTID = 'root'         # spec value of "entry whose node id is the name of zero components": sync.py tests
                        # `if not rsv.node_id`, so it cannot tell that name from a missing one
SV_TYPE = 0xc9


# The nodes of the specification are abstract; the real node names are chosen to be unusual but
# decodable (all accepted end-to-end by the library): C18 must hold for them like for any node.
# Names are built and recognised as component byte strings - never through their URI form.
NODE_NAMES = {
    'self': [b'\x08\x04self'],
    'n1': [b'\x08\x04node', b'\xfe\x00\x01\x00\x00\x01Y'],                    # component type 65536
    'n2': [b'\x08\x04node', b'\x00\x01X'],                                      # component type 0
    'n3': [b'\xfd\xff\xff\x00', b'\x08\x03\xff\xfe\x80'],                       # type 65535 with empty value; non-UTF-8 bytes
    'n4': [b'\x08\x00', b'\xff\x00\x00\x00\x01\x00\x00\x00\x00\x01Z'],           # empty generic component; type 2^32
}


# ---- the executor's own TLV code for state vectors (independent of ndn.app_support.svs.tlv, so that a
# ---- changed library model can neither break the stimuli nor explain away what the instance emits)
def _varnum(n):
    if n < 253:
        return bytes([n])
    if n < 0x10000:
        return b'\xfd' + n.to_bytes(2, 'big')
    if n < 0x100000000:
        return b'\xfe' + n.to_bytes(4, 'big')
    return b'\xff' + n.to_bytes(8, 'big')


def _tlv(t, v):
    return _varnum(t) + _varnum(len(v)) + bytes(v)


def _uint(n):
    for w in (1, 2, 4, 8):
        if n < (1 << (8 * w)):
            return n.to_bytes(w, 'big')
    raise ValueError(n)


def _read_varnum(b, i):
    x = b[i]
    if x < 253:
        return x, i + 1
    w = {253: 2, 254: 4, 255: 8}[x]
    if i + 1 + w > len(b):
        raise IndexError
    return int.from_bytes(b[i + 1:i + 1 + w], 'big'), i + 1 + w


def _read_tlvs(b):
    out, i = [], 0
    while i < len(b):
        t, i = _read_varnum(b, i)
        n, i = _read_varnum(b, i)
        if i + n > len(b):
            raise IndexError
        out.append((t, bytes(b[i:i + n])))
        i += n
    return out


def parse_sv_component(comp):
    """[(node name TLV bytes | None, seq | None)] of a 0xc9 name component; raises on malformed bytes"""
    (t, v), = _read_tlvs(bytes(comp))
    if t != SV_TYPE:
        raise ValueError(t)
    entries = []
    for t, ev in _read_tlvs(v):
        if t != 0xca:
            raise ValueError(t)
        name = seq = None
        for ft, fv in _read_tlvs(ev):
            if ft == 0x07:
                name = _tlv(0x07, fv)
            elif ft == 0xcc:
                if len(fv) not in (1, 2, 4, 8):
                    raise ValueError(len(fv))
                seq = int.from_bytes(fv, 'big')
        entries.append((name, seq))
    return entries


class World:
    """One sync group as seen by one instance: the group prefix and the real names of the abstract nodes."""

    def __init__(self, group, names):
        self.group = group
        self.base = enc.Name.normalize(group)
        self.names = {n: [bytes(c) for c in v] for n, v in names.items()}
        self.by_bytes = {_tlv(0x07, b''.join(v)): n for n, v in self.names.items()}
        self.wires = {}

    def node_name(self, n):
        return list(self.names[n])

    def node_of(self, name_or_bytes):
        """spec node id of a real node name (FormalName or its TLV bytes); '?<hex>' for a foreign one"""
        b = bytes(name_or_bytes) if isinstance(name_or_bytes, (bytes, bytearray, memoryview)) \
            else bytes(enc.Name.to_bytes(name_or_bytes))
        return self.by_bytes.get(b, '?' + b.hex())

    def encode_sv_component(self, entries):
        """entries: list of (id|NOID|ROOTID, seq|NOSEQ) -> name component bytes (TLV 0xc9)."""
        body = b''
        for nid, seq in entries:
            e = b''
            if nid == ROOTID:
                e += _tlv(0x07, b'')
            elif nid != NOID:
                e += _tlv(0x07, b''.join(self.node_name(nid)))
            if seq != NOSEQ:
                e += _tlv(0xcc, _uint(seq))
            body += _tlv(0xca, e)
        return _tlv(SV_TYPE, body)

    def sync_interest(self, p):
        """Wire of a signed sync Interest for spec packet p = {'k':kind, 'es':[{'id','seq'}..]} (memoised:
        the Interest is signed with DigestSha256, so equal packets have equal wires anyway)."""
        key = (p['k'], tuple((e['id'], e['seq']) for e in p.get('es', [])))
        w = self.wires.get(key)
        if w is None:
            w = self.wires[key] = self._sync_interest(p)
        return w

    def _sync_interest(self, p):
        base = self.base
        enc_sv = self.encode_sv_component
        signer = sec.DigestSha256Signer(for_interest=True)
        k = p['k']
        es = [(e['id'], e['seq']) for e in p.get('es', [])]
        if k == 'sv':
            name = base + [enc_sv(es)]
        elif k == 'empty':
            # a state-vector element with no entry at all
            name = base + [enc_sv([])]
        elif k == 'garbage':
            # component of the right type whose value is a truncated TLV (announced length overruns)
            good = enc_sv(es or [('n1', 1)])
            name = base + [bytes([SV_TYPE, len(good) - 3]) + good[2:-1]]
        elif k == 'nowrapper':
            # the vector is carried in a generic component, not in a 0xc9 element
            name = base + [enc.Component.from_bytes(enc_sv(es or [('n1', 1)]))]
        elif k == 'badname':
            # one component too many between the group prefix and the vector
            name = base + [enc.Component.from_str('x'), enc_sv(es or [('n1', 1)])]
        elif k in ('seqlen0', 'seqlen3'):
            # a well-formed entry whose SeqNo element has a length no unsigned integer has (0 or 3 bytes)
            nm = bytes(enc.Name.to_bytes(self.node_name('n1')))
            seq = b'\xcc\x00' if k == 'seqlen0' else b'\xcc\x03\x00\x00\x01'
            entry = bytes([0xca, len(nm) + len(seq)]) + nm + seq
            name = base + [bytes([SV_TYPE, len(entry)]) + entry]
        elif k == 'unsigned':
            # no signature, hence no parameters digest: the name is one component short
            name = base + [enc_sv(es or [('n1', 1)])]
            return bytes(enc.make_interest(name, enc.InterestParam()))
        else:
            raise ValueError(k)
        return bytes(enc.make_interest(name, enc.InterestParam(), b'', signer))

    def decode_emitted(self, wire):
        """Decoded state vector of a sync Interest of this group found on the face: {node: seq} (zero
        entries kept); None for a packet of another group."""
        name, _, _, _ = enc.parse_interest(wire)
        base = self.base
        if [bytes(c) for c in name[:len(base)]] != [bytes(c) for c in base]:
            return None
        comp = [c for c in name[len(base):] if enc.Component.get_type(c) == SV_TYPE]
        if len(comp) != 1:
            return {'?': 'no state vector component'}
        try:
            entries = parse_sv_component(comp[0])
        except (IndexError, ValueError, KeyError):
            return {'?': 'undecodable state vector'}
        out = {}
        for name, seq in entries:
            out[self.node_of(name) if name is not None else '?noname'] = seq if seq is not None else '?noseq'
        return out


WORLD = World(GROUP, NODE_NAMES)
# a second sync group in the same process: other prefix, other own name, the same peers
SIBLING = World('/grp2', dict(NODE_NAMES, self=[b'\x08\x03sib']))
# a peer of the instance under test, in the same group: it knows that instance as node "a"
PEER = World(GROUP, dict(NODE_NAMES, self=[b'\x08\x04peer'], a=NODE_NAMES['self']))
QUIET_TICKS = 1 << 20      # intervals of an instance whose timers must never fire during a scenario
QUIET_TIMER = 64           # what such an instance reports as time left (the open spec does not care)


class Scenario:
    def __init__(self, nodes, init_seq=0, sup_ticks=2, sync_ticks=10, rstep=32768, j0=0, world=None, host=None,
                 quiet=False, own_app=False):
        """nodes: list of node ids, nodes[0] is this node. sup_ticks/sync_ticks: the configured
        suppression / periodic intervals in ticks. rstep: randbits value per jitter unit.
        host: another Scenario whose session, application and face this instance shares (two SvsInst
        alive in one process); quiet: intervals so long that no timer of this instance ever fires."""
        self.nodes = list(nodes)
        self.me = nodes[0]
        self.world = world or WORLD
        self.host = host
        self.quiet = quiet
        if quiet:
            sup_ticks = sync_ticks = QUIET_TICKS
        self.rstep = rstep
        self.shared = host.shared if host else {'r': 0}
        self.r = j0 * rstep
        self.sup_ticks, self.sync_ticks = sup_ticks, sync_ticks
        self.missing_calls = 0
        self.react = 0
        self.published = False
        self.rets = []                # values returned by new_data() during the step (applications name data by them)
        self.cbsaw = []               # local_sv as seen inside on_missing_data during the step
        self.seen = 0
        if host is None:
            self.sess = Session()
            self.sess.__enter__()
            self._randbits = secrets.randbits
            secrets.randbits = lambda n: self.shared['r']
        else:
            self.sess = host.sess
            self.seen = len(host.face.out)
        try:
            if host is None or own_app:
                self.app, self.face = new_app('v2')
                self.seen = 0
            else:
                self.app, self.face = host.app, host.face
            self.inst = SvsInst(self.world.group, self.world.node_name(self.me), self._on_missing,
                                sec.DigestSha256Signer(for_interest=True), appv2.pass_all,
                                sync_interval=sync_ticks * U, suppression_interval=sup_ticks * U,
                                last_used_seq_num=init_seq)
            self.inst.start(self.app)
            self.sess.loop.settle(timers_now=host is None)
            # the instance announces itself at start; C18 says nothing about that
            self.start_out = self._take_out()
            self.missing_calls = 0
            self.rets, self.cbsaw = [], []
        except BaseException:
            self.close()
            raise

    def _on_missing(self, inst):
        # the application's reaction inside the (non-blocking) callback: self.react publications
        self.missing_calls += 1
        self.cbsaw.append(self.local())           # what an application reading inst.local_sv in the callback sees
        for _ in range(self.react):
            self.rets.append(inst.new_data())
            self.published = True

    @property
    def r(self):
        return self.shared['r']

    @r.setter
    def r(self, v):
        self.shared['r'] = v

    def close(self):
        """a guest only stops its instance; the host (close it last) ends the session"""
        try:
            try:
                self.inst.stop()
            except Exception:
                pass
            if self.host is None:
                self.sess.__exit__(None, None, None)
        finally:
            if self.host is None:
                secrets.randbits = self._randbits

    # ---- observation
    def _take_out(self):
        self.last_wires = []                            # (wire, decoded vector) of this step's own Interests
        out = []
        for w in self.face.out[self.seen:]:
            v = self.world.decode_emitted(w)
            if v is not None:                           # Interests of the other group are not ours
                out.append(v)
                self.last_wires.append((w, dict(v)))
        self.seen = len(self.face.out)
        return out

    def local(self):
        d = {n: 0 for n in self.nodes}
        for k, v in self.inst.local_sv.items():
            n = self.world.node_of(k)
            d[n] = v
        return d

    def timer(self):
        if self.quiet:
            return QUIET_TIMER
        # the instance computes next_sync_timing from time.time() (patched to the virtual clock)
        x = (self.inst.next_sync_timing - time.time()) / U
        r = round(x)
        if abs(x - r) > 1e-3:
            raise MachineryError('timer is not on the tick grid: %r ticks' % x)
        return max(r, 0)

    def post(self):
        out = self._take_out()
        m = self.missing_calls
        self.missing_calls = 0
        rets, self.rets = self.rets, []
        saw, self.cbsaw = self.cbsaw, []
        full = []
        for v in out:
            d = {n: 0 for n in self.nodes}
            d.update(v)
            full.append(d)
        return {'local': self.local(), 'out': full, 'missed': m, 'ret': rets, 'cbsaw': saw,
                'state': 'Suppress' if self.inst.state.name == 'SyncSuppression' else 'Steady',
                'timer': self.timer(), 'seq': self.inst.self_seq}

    def errors(self):
        return [str(c.get('exception') or c.get('message')) for c in self.sess.loop.errors]

    # ---- stimuli
    def recv(self, p, j=0, react=0):
        self.r = j * self.rstep
        self.react, self.published = react, False
        n0 = len(self.sess.loop.errors)
        try:
            exc = deliver(self.sess, self.face, self.world.sync_interest(p), timers_now=False)
        finally:
            self.react = 0
        if exc is not None:
            # an exception out of the application's receive path is the library's doing, not the harness's:
            # it is noted, and the projection after the step says what it meant for C18
            self.sess.loop.errors.append({'exception': exc, 'message': 'escaped from the receive callback'})
        if self.published and not self.quiet:
            # as in publish(): whatever is due now was scheduled by the publication itself
            self.sess.loop.settle(timers_now=True)
        post = self.post()
        if p['k'] != 'sv':
            # an undecodable sync Interest must be ignored quietly: an exception that escapes sync_handler
            # (it surfaces in the loop's exception handler as soon as the finished handler task is released, which
            # CPython does by reference count at the end of the step) is reported
            new = [c.get('exception') for c in self.sess.loop.errors[n0:]]
            post['raised'] = ','.join(sorted({type(e).__name__ for e in new if e is not None}))
        return post

    def recv_wire(self, wire):
        """hand a packet produced elsewhere (a peer's sync Interest) to this instance's application"""
        self.react, self.published = 0, False
        exc = deliver(self.sess, self.face, wire, timers_now=False)
        if exc is not None:
            # an exception out of the application's receive path is the library's doing, not the harness's:
            # it is noted, and the projection after the step says what it meant for C18
            self.sess.loop.errors.append({'exception': exc, 'message': 'escaped from the receive callback'})
        return self.post()

    def publish(self, n=1, j=0):
        self.r = j * self.rstep
        for _ in range(n):
            self.rets.append(self.inst.new_data())
        self.sess.loop.settle(timers_now=False)
        # the expiry that was pending has been superseded by the publication; whatever is due
        # now was scheduled by the publication itself (a quiet instance must not run the timers
        # of the instance it lives next to)
        if not self.quiet:
            self.sess.loop.settle(timers_now=True)
        return self.post()

    def fire(self, j=0):
        self.r = j * self.rstep
        self.sess.loop.settle(timers_now=True)
        return self.post()

    def tick(self, d):
        lp = self.sess.loop
        lp.set_time(lp.time() + d * U)
        lp.settle(timers_now=False)
        return self.post()

    def apply(self, ev):
        a = ev['a']
        if a == 'RecvSV':
            return self.recv(ev['p'], ev.get('j', 0), ev.get('r', 0))
        if a == 'Publish':
            return self.publish(ev['n'], ev.get('j', 0))
        if a == 'TimerFire':
            return self.fire(ev.get('j', 0))
        if a == 'Tick':
            return self.tick(ev['d'])
        raise ValueError(a)
