"""Executor for C18: a real SvsInst attached to a v2 NDNApp on the virtual-time loop.

One Scenario = one instance. Stimuli (macro-steps, each followed by quiescence at the same
virtual instant) are exactly the events of spec/Svs.tla:

  recv(p, j, r)  (r = number of new_data() calls the application makes inside on_missing_data)
                 a sync Interest (real, signed, built here) carrying packet p is handed to the
                 application's receive callback, *before* any timer that is due at this instant
  publish(n, j)  n calls of new_data() in one loop turn
  fire(j)        the timers due at this instant run (only legal when timer() == 0)
  tick(d)        virtual time moves forward by d ticks, timers that become due do NOT run yet

j is the timer jitter parameter: secrets.randbits is patched to return j * rstep, so that every
timer the instance samples during the step is a whole number of ticks (spec: SupBase+j / SyncBase+j).

Projection (only what C18 names, through public attributes): local_sv, the decoded state vectors
of the sync Interests handed to the face during the step, the number of on_missing_data calls
during the step; plus, for keeping spec and instance in step, the public `state` and the time
left until the public `next_sync_timing`.
"""
import secrets
import time

from harness.appkit import Session, new_app, deliver, enc
from harness.tlc import MachineryError

from ndn import appv2
from ndn import security as sec
from ndn.app_support.svs import SvsInst
from ndn.app_support.svs.tlv import StateVec, StateVecWrapper, StateVecEntry

GROUP = '/grp'
U = 1.0 / 64            # one tick, exactly representable
NOSEQ = -1              # spec value of "entry without sequence number"
NOID = 'none'           # spec value of "entry without node id" (no Name element)
ROOTID = 'root'         # spec value of "entry whose node id is the name of zero components": sync.py tests
                        # `if not rsv.node_id`, so it cannot tell that name from a missing one
SV_TYPE = 0xc9


# The nodes of the specification are abstract; the real node names are chosen to be unusual but
# decodable (all accepted end-to-end by the library): C18 must hold for them like for any node.
# Names are built and recognised as component byte strings - never through their URI form.
NODE_NAMES = {
    'self': [b'\x08\x04self'],
    'n1': [b'\x08\x04node', b'\xfe\x00\x01\x00\x00\x01Y'],                    # component type 65536
    'n2': [b'\x08\x04node', b'\x00\x01X'],                                      # component type 0
    'n3': [b'\xfd\xff\xff\x00', b'\x08\x03\xff\xfe\x80'],                       # type 65535 with empty value; non-UTF-8 bytes
    'n4': [b'\x08\x00', b'\xff\x00\x00\x00\x01\x00\x00\x00\x00\x01Z'],           # empty generic component; type 2^32
}


def node_name(n):
    return [bytes(c) for c in NODE_NAMES[n]]


_BY_BYTES = {}


def node_of(name_or_bytes):
    """spec node id of a real node name (FormalName or its TLV bytes)"""
    if not _BY_BYTES:
        for n in NODE_NAMES:
            _BY_BYTES[bytes(enc.Name.to_bytes(node_name(n)))] = n
    b = bytes(name_or_bytes) if isinstance(name_or_bytes, (bytes, bytearray, memoryview)) \
        else bytes(enc.Name.to_bytes(name_or_bytes))
    return _BY_BYTES.get(b, '?' + b.hex())


def encode_sv_component(entries):
    """entries: list of (id|NOID, seq|NOSEQ) -> name component bytes (TLV 0xc9)."""
    w = StateVecWrapper()
    w.val = StateVec()
    w.val.entries = []
    for nid, seq in entries:
        e = StateVecEntry()
        if nid == ROOTID:
            e.node_id = []
        elif nid != NOID:
            e.node_id = node_name(nid)
        if seq != NOSEQ:
            e.seq_no = seq
        w.val.entries.append(e)
    return bytes(w.encode())


_WIRES = {}


def sync_interest(p):
    """Wire of a signed sync Interest for spec packet p = {'k':kind, 'es':[{'id','seq'}..]} (memoised:
    the Interest is signed with DigestSha256, so equal packets have equal wires anyway)."""
    key = (p['k'], tuple((e['id'], e['seq']) for e in p.get('es', [])))
    w = _WIRES.get(key)
    if w is None:
        w = _WIRES[key] = _sync_interest(p)
    return w


def _sync_interest(p):
    base = enc.Name.normalize(GROUP)
    signer = sec.DigestSha256Signer(for_interest=True)
    k = p['k']
    es = [(e['id'], e['seq']) for e in p.get('es', [])]
    if k == 'sv':
        name = base + [encode_sv_component(es)]
    elif k == 'empty':
        # a state-vector element with no entry at all
        name = base + [encode_sv_component([])]
    elif k == 'garbage':
        # component of the right type whose value is a truncated TLV (announced length overruns)
        good = encode_sv_component(es or [('n1', 1)])
        name = base + [bytes([SV_TYPE, len(good) - 3]) + good[2:-1]]
    elif k == 'nowrapper':
        # the vector is carried in a generic component, not in a 0xc9 element
        name = base + [enc.Component.from_bytes(encode_sv_component(es or [('n1', 1)]))]
    elif k == 'badname':
        # one component too many between the group prefix and the vector
        name = base + [enc.Component.from_str('x'), encode_sv_component(es or [('n1', 1)])]
    elif k == 'unsigned':
        # no signature, hence no parameters digest: the name is one component short
        name = base + [encode_sv_component(es or [('n1', 1)])]
        return bytes(enc.make_interest(name, enc.InterestParam()))
    else:
        raise ValueError(k)
    return bytes(enc.make_interest(name, enc.InterestParam(), b'', signer))


def decode_emitted(wire):
    """Decoded state vector of a sync Interest found on the face: {node: seq} (zero entries kept)."""
    name, _, _, _ = enc.parse_interest(wire)
    base = enc.Name.normalize(GROUP)
    if name[:len(base)] != base:
        return {'?': 'not under the group prefix'}
    comp = [c for c in name[len(base):] if enc.Component.get_type(c) == SV_TYPE]
    if len(comp) != 1:
        return {'?': 'no state vector component'}
    sv = StateVecWrapper.parse(comp[0]).val
    out = {}
    for e in (sv.entries if sv is not None else []):
        out[node_of(e.node_id)] = e.seq_no
    return out


class Scenario:
    def __init__(self, nodes, init_seq=0, sup_ticks=2, sync_ticks=10, rstep=32768, j0=0):
        """nodes: list of node ids, nodes[0] is this node. sup_ticks/sync_ticks: the configured
        suppression / periodic intervals in ticks. rstep: randbits value per jitter unit."""
        self.nodes = list(nodes)
        self.me = nodes[0]
        self.rstep = rstep
        self.r = j0 * rstep
        self.sup_ticks, self.sync_ticks = sup_ticks, sync_ticks
        self.missing_calls = 0
        self.react = 0
        self.published = False
        self.seen = 0
        self.sess = Session()
        self.sess.__enter__()
        self._randbits = secrets.randbits
        secrets.randbits = lambda n: self.r
        try:
            self.app, self.face = new_app('v2')
            self.inst = SvsInst(GROUP, node_name(self.me), self._on_missing,
                                sec.DigestSha256Signer(for_interest=True), appv2.pass_all,
                                sync_interval=sync_ticks * U, suppression_interval=sup_ticks * U,
                                last_used_seq_num=init_seq)
            self.inst.start(self.app)
            self.sess.loop.settle()
            # the instance announces itself at start; C18 says nothing about that
            self.start_out = self._take_out()
            self.missing_calls = 0
        except BaseException:
            self.close()
            raise

    def _on_missing(self, inst):
        # the application's reaction inside the (non-blocking) callback: self.react publications
        self.missing_calls += 1
        for _ in range(self.react):
            inst.new_data()
            self.published = True

    def close(self):
        try:
            try:
                self.inst.stop()
            except Exception:
                pass
            self.sess.__exit__(None, None, None)
        finally:
            secrets.randbits = self._randbits

    # ---- observation
    def _take_out(self):
        out = [decode_emitted(w) for w in self.face.out[self.seen:]]
        self.seen = len(self.face.out)
        return out

    def local(self):
        d = {n: 0 for n in self.nodes}
        for k, v in self.inst.local_sv.items():
            n = node_of(k)
            d[n] = v
        return d

    def timer(self):
        # the instance computes next_sync_timing from time.time() (patched to the virtual clock)
        x = (self.inst.next_sync_timing - time.time()) / U
        r = round(x)
        if abs(x - r) > 1e-3:
            raise MachineryError('timer is not on the tick grid: %r ticks' % x)
        return max(r, 0)

    def post(self):
        out = self._take_out()
        m = self.missing_calls
        self.missing_calls = 0
        full = []
        for v in out:
            d = {n: 0 for n in self.nodes}
            d.update(v)
            full.append(d)
        return {'local': self.local(), 'out': full, 'missed': m,
                'state': 'Suppress' if self.inst.state.name == 'SyncSuppression' else 'Steady',
                'timer': self.timer(), 'seq': self.inst.self_seq}

    def errors(self):
        return [str(c.get('exception') or c.get('message')) for c in self.sess.loop.errors]

    # ---- stimuli
    def recv(self, p, j=0, react=0):
        self.r = j * self.rstep
        self.react, self.published = react, False
        try:
            exc = deliver(self.sess, self.face, sync_interest(p), timers_now=False)
        finally:
            self.react = 0
        if exc is not None:
            raise MachineryError('receive callback raised %r' % exc)
        if self.published:
            # as in publish(): whatever is due now was scheduled by the publication itself
            self.sess.loop.settle(timers_now=True)
        return self.post()

    def publish(self, n=1, j=0):
        self.r = j * self.rstep
        for _ in range(n):
            self.inst.new_data()
        self.sess.loop.settle(timers_now=False)
        # the expiry that was pending has been superseded by the publication; whatever is due
        # now was scheduled by the publication itself
        self.sess.loop.settle(timers_now=True)
        return self.post()

    def fire(self, j=0):
        self.r = j * self.rstep
        self.sess.loop.settle(timers_now=True)
        return self.post()

    def tick(self, d):
        lp = self.sess.loop
        lp.set_time(lp.time() + d * U)
        lp.settle(timers_now=False)
        return self.post()

    def apply(self, ev):
        a = ev['a']
        if a == 'RecvSV':
            return self.recv(ev['p'], ev.get('j', 0), ev.get('r', 0))
        if a == 'Publish':
            return self.publish(ev['n'], ev.get('j', 0))
        if a == 'TimerFire':
            return self.fire(ev.get('j', 0))
        if a == 'Tick':
            return self.tick(ev['d'])
        raise ValueError(a)
