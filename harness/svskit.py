"""Executor for C18: a real SvsInst attached to a v2 NDNApp on the virtual-time loop.

One Scenario = one instance (two Scenarios can share one process, loop, application and face: host /
guest, see Scenario.__init__). Stimuli (macro-steps, each followed by quiescence at the same
virtual instant) are exactly the events of spec/Svs.tla:

  recv(p, j, r)  (r = number of new_data() calls the application makes inside on_missing_data)
                 a sync Interest (real, signed, built here) carrying packet p is handed to the
                 application's receive callback, *before* any timer that is due at this instant.
                 Packets of kind "cut" (a vector cut at some octet, also inside a multi-octet number) and "svl"
                 (a vector only a lenient reader gets: non-minimal numbers, trailing octets, unknown elements)
                 stand for classes of byte strings (World.cuts / World.lenient); the members take turns
  publish(n, j)  n calls of new_data() in one loop turn
  recv(p, j, r, pre=n)   PublishThenRecv: n calls of new_data() from a callback of the very loop iteration in which
                 the handler of the sync Interest then runs - after new_data() returned, before the timer task
                 has been scheduled again (its wake-up is only queued by then)
  fire(j)        the timers due at this instant run (only legal when timer() == 0)
  tick(d)        virtual time moves forward by d ticks, timers that become due do NOT run yet

j is the timer jitter parameter: secrets.randbits is patched to return j * rstep, so that every
timer the instance samples during the step is a whole number of ticks (spec: SupBase+j / SyncBase+j).

Scale. Groups of up to 128 nodes (NODE_NAMES: n5 .. n127 have generated names of 1 - 3 components, 14 - 50 octets
per entry): a vector of 16+ entries takes more than 252 octets, its Length number three octets. Sequence
numbers beyond TLC's 32-bit integers: a Scenario made with seq_hi = B talks to the specification in SCALED
CLASSES (spec/Svs.tla, header; SeqMap): a model value below HI is the number itself, HI + k is B + k; what the
instance shows is mapped back, a number in neither class becomes BADSEQ (equal to no model value). Events,
traces and replay objects are in model values.

Projection (only what C18 names, through public attributes): local_sv, the decoded state vectors
of the sync Interests handed to the face during the step, the number of on_missing_data calls
during the step; plus, for keeping spec and instance in step, the public `state` and the time
left until the public `next_sync_timing`.
"""
import asyncio as aio
import secrets
import time

from harness.appkit import Session, new_app, deliver, enc
from harness.tlc import MachineryError

from ndn import appv2
from ndn import security as sec
from ndn.app_support.svs import SvsInst

# group prefix of the instance under test: several components, among them an empty one, a typed one
# (0x20) and one of type 65536 (sync.py locates the vector relative to the prefix length and the end of
# the name); all accepted end-to-end by the library (a type-0 component is not: the Interest encoder
# refuses it). The sibling group keeps a one-component prefix.
GROUP = [b'\x08\x03ndn', b'\x08\x00', b'\x20\x03svs', b'\xfe\x00\x01\x00\x00\x02g1']
U = 1.0 / 64            # one tick, exactly representable
NOSEQ = -1              # spec value of "entry without sequence number"
NOID = 'none'           # spec value of "entry without node id" (no Name element)
ROOTID = 'root'         # spec value of "entry whose node id is the name of zero components": sync.py tests
                        # `if not rsv.node_id`, so it cannot tell that name from a missing one
SV_TYPE = 0xc9


# The nodes of the specification are abstract; the real node names are chosen to be unusual but
# decodable (all accepted end-to-end by the library): C18 must hold for them like for any node.
# Names are built and recognised as component byte strings - never through their URI form.
NODE_NAMES = {
    'self': [b'\x08\x04self'],
    'n1': [b'\x08\x04node', b'\xfe\x00\x01\x00\x00\x01Y'],                    # component type 65536
    'n2': [b'\x08\x04node', b'\x00\x01X'],                                      # component type 0
    'n3': [b'\xfd\xff\xff\x00', b'\x08\x03\xff\xfe\x80'],                       # type 65535 with empty value; non-UTF-8 bytes
    'n4': [b'\x08\x00', b'\xff\x00\x00\x00\x01\x00\x00\x00\x00\x01Z'],           # empty generic component; type 2^32
}


def _gen_name(i):
    """the name of node n<i>, i >= 5: distinct, of varied shapes and lengths (an entry takes 21 .. 50 octets and more)"""
    tag = b'%03d' % i
    k = i % 4
    if k == 0:
        return [b'\x08' + bytes([9 + len(tag)]) + b'node-name' + tag]
    if k == 1:
        long = (b'site-%s-' % tag) * 4
        return [b'\x08\x03org', b'\x08' + bytes([len(long)]) + long]
    if k == 2:
        return [b'\x08\x03grp', b'\x08\x03dev', b'\x08' + bytes([len(tag) + 2]) + b'id' + tag]
    return [b'\x20' + bytes([len(tag) + 4]) + b'typd' + tag, b'\x08\x04host']


for _i in range(5, 128):
    NODE_NAMES['n%d' % _i] = _gen_name(_i)


# ---- sequence numbers beyond the specification's integers: scaled classes (spec/Svs.tla: HiSeq, HiSpan, BadSeq)
HI = 1 << 20
HI_SPAN = 1 << 10
BADSEQ = -2


class SeqMap:
    """model value <-> number on the wire. hi = None: the identity (every number of the history is below HI)."""

    def __init__(self, hi=None):
        if hi is not None and hi < HI:
            raise ValueError(hi)              # the classes must not overlap
        self.hi = hi

    def wire(self, s):
        return s if self.hi is None or s < HI else self.hi + (s - HI)

    def spec(self, v):
        if self.hi is None or not isinstance(v, int) or isinstance(v, bool):
            return v
        if v < HI:
            return v
        if self.hi <= v < self.hi + HI_SPAN:
            return HI + (v - self.hi)
        return BADSEQ

    def packet(self, p):
        if self.hi is None or not p.get('es'):
            return p
        return {'k': p['k'], 'es': [{'id': e['id'], 'seq': self.wire(e['seq'])} for e in p['es']]}


# ---- the executor's own TLV code for state vectors (independent of ndn.app_support.svs.tlv, so that a
# ---- changed library model can neither break the stimuli nor explain away what the instance emits)
def _varnum(n):
    if n < 253:
        return bytes([n])
    if n < 0x10000:
        return b'\xfd' + n.to_bytes(2, 'big')
    if n < 0x100000000:
        return b'\xfe' + n.to_bytes(4, 'big')
    return b'\xff' + n.to_bytes(8, 'big')


def _tlv(t, v):
    return _varnum(t) + _varnum(len(v)) + bytes(v)


def _uint(n):
    for w in (1, 2, 4, 8):
        if n < (1 << (8 * w)):
            return n.to_bytes(w, 'big')
    raise ValueError(n)


def _read_varnum(b, i):
    x = b[i]
    if x < 253:
        return x, i + 1
    w = {253: 2, 254: 4, 255: 8}[x]
    if i + 1 + w > len(b):
        raise IndexError
    return int.from_bytes(b[i + 1:i + 1 + w], 'big'), i + 1 + w


def _read_tlvs(b):
    out, i = [], 0
    while i < len(b):
        t, i = _read_varnum(b, i)
        n, i = _read_varnum(b, i)
        if i + n > len(b):
            raise IndexError
        out.append((t, bytes(b[i:i + n])))
        i += n
    return out


def parse_sv_component(comp):
    """[(node name TLV bytes | None, seq | None)] of a 0xc9 name component; raises on malformed bytes"""
    (t, v), = _read_tlvs(bytes(comp))
    if t != SV_TYPE:
        raise ValueError(t)
    entries = []
    for t, ev in _read_tlvs(v):
        if t != 0xca:
            raise ValueError(t)
        name = seq = None
        for ft, fv in _read_tlvs(ev):
            if ft == 0x07:
                name = _tlv(0x07, fv)
            elif ft == 0xcc:
                if len(fv) not in (1, 2, 4, 8):
                    raise ValueError(len(fv))
                seq = int.from_bytes(fv, 'big')
        entries.append((name, seq))
    return entries


# ---- byte-level variants of a state vector (classes "cut" and "svl" of the packet universe)
def _num(n, width=1):
    """TLV-VAR-NUMBER n; width 3 / 5 / 9 forces the long form (non-minimal when n would fit a shorter one)"""
    if width == 1:
        return _varnum(n)
    return {3: b'\xfd', 5: b'\xfe', 9: b'\xff'}[width] + n.to_bytes(width - 1, 'big')


# the places where a state-vector component has a Type or a Length number: of the component itself (the
# wrapper element 0xc9, whose value is the vector), of an entry, of the node-id Name, of a name component, of SeqNo
SITES = ('wT', 'wL', 'eT', 'eL', 'nT', 'nL', 'cT', 'cL', 'sT', 'sL')
WIDTHS = (3, 5, 9)
# octets after the last well-formed element: one stray octet; an unknown element a reader may skip (type
# 0xf0: even and above 31 - not critical); an unknown element no reader may skip (0xf1: critical)
TRAILERS = (b'\x00', b'\xf0\x00', b'\xf1\x00')


def sv_value(entries, wide=None, tail_vec=b'', tail_entry=b'', head_vec=b''):
    """value of the state-vector component for entries [(name components, seq)]; wide = (site, width): every
    number of that kind is written in the long form; tail_* / head_*: octets appended to the vector / to the
    last entry / put in front of the first entry"""
    site, width = wide or (None, 1)
    w = lambda k: width if k == site else 1
    body = head_vec
    for n, (comps, seq) in enumerate(entries):
        nm = b''
        for c in comps:
            (t, v), = _read_tlvs(c)
            nm += _num(t, max(w('cT'), len(_varnum(t)))) + _num(len(v), w('cL')) + v
        sq = _uint(seq)
        e = _num(0x07, w('nT')) + _num(len(nm), w('nL')) + nm + _num(0xcc, w('sT')) + _num(len(sq), w('sL')) + sq
        if n == len(entries) - 1:
            e += tail_entry
        body += _num(0xca, w('eT')) + _num(len(e), w('eL')) + e
    return body + tail_vec


def sv_component(value, wide=None):
    site, width = wide or (None, 1)
    return _num(SV_TYPE, width if site == 'wT' else 1) + _num(len(value), width if site == 'wL' else 1) + value


def strictly_decodable(value):
    try:
        parse_sv_component(_tlv(SV_TYPE, value))
        return True
    except (IndexError, ValueError, KeyError):
        return False


class World:
    """One sync group as seen by one instance: the group prefix and the real names of the abstract nodes."""

    def __init__(self, group, names):
        self.group = group
        self.base = enc.Name.normalize(group)
        self.names = {n: [bytes(c) for c in v] for n, v in names.items()}
        self.by_bytes = {_tlv(0x07, b''.join(v)): n for n, v in self.names.items()}
        self.wires = {}
        self.sv_octets = {}                   # wire -> octets of the value of the state-vector component it carries
        self.turn = {'cut': 0, 'svl': 0}      # next member of a byte-level class to deliver (when the event names none)
        self._cuts = None

    def node_name(self, n):
        return list(self.names[n])

    def node_of(self, name_or_bytes):
        """spec node id of a real node name (FormalName or its TLV bytes); '?<hex>' for a foreign one"""
        b = bytes(name_or_bytes) if isinstance(name_or_bytes, (bytes, bytearray, memoryview)) \
            else bytes(enc.Name.to_bytes(name_or_bytes))
        return self.by_bytes.get(b, '?' + b.hex())

    def encode_sv_component(self, entries):
        """entries: list of (id|NOID|ROOTID, seq|NOSEQ) -> name component bytes (TLV 0xc9)."""
        body = b''
        for nid, seq in entries:
            e = b''
            if nid == ROOTID:
                e += _tlv(0x07, b'')
            elif nid != NOID:
                e += _tlv(0x07, b''.join(self.node_name(nid)))
            if seq != NOSEQ:
                e += _tlv(0xcc, _uint(seq))
            body += _tlv(0xca, e)
        return _tlv(SV_TYPE, body)

    # ---- class "cut": the value of the state-vector component is the encoding of some vector (minimal, or with
    # ---- the numbers of one kind in a 3 / 5 / 9-octet form) cut after i octets, 0 < i < its length, wherever what is
    # ---- left is not a well-formed vector again. The component itself stays a well-formed TLV (a transport or the
    # ---- Interest decoder would not let anything else through): the cut shows only to whoever reads the vector.
    CUT_BASES = ([('n1', 1)], [('self', 0), ('n2', 300)], [('n3', 70000)], [('n4', 1 << 33)])

    def cuts(self):
        """the members of class "cut": (component bytes, description)"""
        if self._cuts is None:
            out, seen = [], set()
            for es in self.CUT_BASES:
                ents = [(self.node_name(n), q) for n, q in es]
                for wide in [None] + [(s, w) for s in SITES for w in WIDTHS]:
                    val = sv_value(ents, wide)
                    for i in range(1, len(val)):
                        comp = sv_component(val[:i], wide if wide and wide[0] in ('wT', 'wL') else None)
                        if comp in seen or strictly_decodable(val[:i]):
                            continue
                        seen.add(comp)
                        out.append((comp, '%s %s cut after %d of %d octets' % (es, wide or 'minimal', i, len(val))))
            self._cuts = out
        return self._cuts

    # ---- class "svl": a well-formed vector that only a lenient reader gets: numbers of one kind written in a
    # ---- non-minimal 3 / 5 / 9-octet form, or octets / unknown elements after the last entry or inside it, or an
    # ---- unknown element in front of the first entry. Reading it as the vector or ignoring it are both fine.
    # (not inside the node-id name's components: a name with a non-minimal component is another byte string, and
    # whether it names the same node is not C18's business)
    SVL_VARIANTS = ([('wide', s, w) for s in SITES if s not in ('cT', 'cL') for w in WIDTHS]
                    + [('tail_vec', t) for t in TRAILERS] + [('tail_entry', t) for t in TRAILERS]
                    + [('head_vec', t) for t in TRAILERS[1:]])

    def lenient(self, es, x):
        """member x of class "svl" for the plain vector es = [(id, seq)]: component bytes"""
        ents = [(self.node_name(n), q) for n, q in es]
        v = self.SVL_VARIANTS[x % len(self.SVL_VARIANTS)]
        if v[0] == 'wide':
            return sv_component(sv_value(ents, (v[1], v[2])), (v[1], v[2]))
        return sv_component(sv_value(ents, **{v[0]: v[1]}))

    def members(self, k):
        return len(self.cuts()) if k == 'cut' else len(self.SVL_VARIANTS) if k == 'svl' else 1

    def pick_member(self, p, x=None):
        """which member of a byte-level class packet p stands for this time: x if given (a replay), else the next
        one in turn - over a run every member is delivered, in many states. None for the other kinds."""
        k = p['k']
        if k not in self.turn:
            return None
        if x is None:
            x = self.turn[k]
            self.turn[k] = (x + 1) % self.members(k)
        return x % self.members(k)

    def sync_interest(self, p, x=None):
        """Wire of a signed sync Interest for spec packet p = {'k':kind, 'es':[{'id','seq'}..]} (memoised:
        the Interest is signed with DigestSha256, so equal packets have equal wires anyway). x: member of the
        class, for the kinds that stand for a class of byte strings."""
        key = (p['k'], tuple((e['id'], e['seq']) for e in p.get('es', [])), x)
        w = self.wires.get(key)
        if w is None:
            w = self.wires[key] = self._sync_interest(p, x)
        return w

    def _sync_interest(self, p, x=None):
        base = self.base
        enc_sv = self.encode_sv_component
        signer = sec.DigestSha256Signer(for_interest=True)
        k = p['k']
        es = [(e['id'], e['seq']) for e in p.get('es', [])]
        if k == 'sv':
            name = base + [enc_sv(es)]
        elif k == 'cut':
            name = base + [self.cuts()[x][0]]
        elif k == 'svl':
            name = base + [self.lenient(es, x)]
        elif k == 'empty':
            # a state-vector element with no entry at all
            name = base + [enc_sv([])]
        elif k == 'garbage':
            # component of the right type whose value is a truncated TLV (announced length overruns)
            good = enc_sv(es or [('n1', 1)])
            name = base + [bytes([SV_TYPE, len(good) - 3]) + good[2:-1]]
        elif k == 'nowrapper':
            # the vector is carried in a generic component, not in a 0xc9 element
            name = base + [enc.Component.from_bytes(enc_sv(es or [('n1', 1)]))]
        elif k == 'badname':
            # one component too many between the group prefix and the vector
            name = base + [enc.Component.from_str('x'), enc_sv(es or [('n1', 1)])]
        elif k in ('seqlen0', 'seqlen3'):
            # a well-formed entry whose SeqNo element has a length no unsigned integer has (0 or 3 bytes)
            nm = bytes(enc.Name.to_bytes(self.node_name('n1')))
            seq = b'\xcc\x00' if k == 'seqlen0' else b'\xcc\x03\x00\x00\x01'
            entry = bytes([0xca, len(nm) + len(seq)]) + nm + seq
            name = base + [bytes([SV_TYPE, len(entry)]) + entry]
        elif k == 'unsigned':
            # no signature, hence no parameters digest: the name is one component short
            name = base + [enc_sv(es or [('n1', 1)])]
            return bytes(enc.make_interest(name, enc.InterestParam()))
        else:
            raise ValueError(k)
        wire = bytes(enc.make_interest(name, enc.InterestParam(), b'', signer))
        if k == 'sv':
            (_, val), = _read_tlvs(bytes(name[-1]))
            self.sv_octets[wire] = len(val)
        return wire

    def decode_emitted(self, wire):
        """Decoded state vector of a sync Interest of this group found on the face: {node: seq} (zero
        entries kept); None for a packet of another group."""
        name, _, _, _ = enc.parse_interest(wire)
        base = self.base
        if [bytes(c) for c in name[:len(base)]] != [bytes(c) for c in base]:
            return None
        comp = [c for c in name[len(base):] if enc.Component.get_type(c) == SV_TYPE]
        self.emitted_octets = None            # octets of the vector of the Interest decoded last
        if len(comp) != 1:
            return {'?': 'no state vector component'}
        try:
            self.emitted_octets = len(_read_tlvs(bytes(comp[0]))[0][1])
            entries = parse_sv_component(comp[0])
        except (IndexError, ValueError, KeyError):
            return {'?': 'undecodable state vector'}
        out = {}
        for name, seq in entries:
            out[self.node_of(name) if name is not None else '?noname'] = seq if seq is not None else '?noseq'
        return out


WORLD = World(GROUP, NODE_NAMES)
# a second sync group in the same process: other prefix, other own name, the same peers
SIBLING = World('/grp2', dict(NODE_NAMES, self=[b'\x08\x03sib']))
# a peer of the instance under test, in the same group: it knows that instance as node "a"
PEER = World(GROUP, dict(NODE_NAMES, self=[b'\x08\x04peer'], a=NODE_NAMES['self']))
QUIET_TICKS = 1 << 20      # intervals of an instance whose timers must never fire during a scenario
QUIET_TIMER = 64           # what such an instance reports as time left (the open spec does not care)


# ---- how an application hands the two names to the SvsInst constructor (both are NonStrictName): as a list or a
# ---- tuple of components, with the plain components as str, as a URI string (only names made of plain ASCII
# ---- generic components are written that way here - URI conversion of the others is C09's subject), or as an
# ---- encoded Name in bytes / a bytearray (what Name.encode() returns) / a writable or read-only memoryview, or a
# ---- list of bytearray components. A writable buffer belongs to the caller: it is overwritten as soon as the
# ---- constructor has returned (before start()), and the instance must not follow it.
REPS = ('list', 'tuple', 'strlist', 'uri', 'bytes', 'bytearray', 'mv-rw', 'mv-ro', 'list-bytearray')
_REP_TURN = {'n': 0}


def _plain(comp):
    (t, v), = _read_tlvs(comp)
    return t == 0x08 and len(v) > 0 and all(48 <= c <= 57 or 65 <= c <= 90 or 97 <= c <= 122 for c in v)


def name_arg(comps, rep):
    """(argument for the constructor, function that overwrites the caller's buffer(s) or None, representation used)"""
    comps = [bytes(c) for c in comps]
    wire = _tlv(0x07, b''.join(comps))

    def scribble(bufs):
        def go():
            for b in bufs:
                for i in range(len(b)):
                    b[i] = 0x41 if i >= 2 else b[i]          # (type and length stay: still a TLV, other content)
        return go
    if rep == 'uri' and not (comps and all(_plain(c) for c in comps)):
        rep = 'tuple'
    if rep == 'list':
        return list(comps), None, rep
    if rep == 'tuple':
        return tuple(comps), None, rep
    if rep == 'strlist':
        return [_read_tlvs(c)[0][1].decode() if _plain(c) else c for c in comps], None, rep
    if rep == 'uri':
        return '/' + '/'.join(_read_tlvs(c)[0][1].decode() for c in comps), None, rep
    if rep == 'bytes':
        return wire, None, rep
    if rep == 'bytearray':
        b = bytearray(wire)
        return b, scribble([b]), rep
    if rep == 'mv-rw':
        b = bytearray(wire)
        return memoryview(b), scribble([b]), rep
    if rep == 'mv-ro':
        return memoryview(wire), None, rep
    if rep == 'list-bytearray':
        bs = [bytearray(c) for c in comps]
        return bs, scribble(bs), rep
    raise ValueError(rep)


def _exc_name(e):
    """class name of an exception; with its module where the bare name says nothing (struct.error, socket.error ...)"""
    t = type(e)
    return t.__name__ if t.__name__ != 'error' else '%s.%s' % (t.__module__, t.__name__)


class Scenario:
    def __init__(self, nodes, init_seq=0, sup_ticks=2, sync_ticks=10, rstep=32768, j0=0, world=None, host=None,
                 quiet=False, own_app=False, reps=None, seq_hi=None):
        """nodes: list of node ids, nodes[0] is this node. sup_ticks/sync_ticks: the configured
        suppression / periodic intervals in ticks. rstep: randbits value per jitter unit.
        host: another Scenario whose session, application and face this instance shares (two SvsInst
        alive in one process); quiet: intervals so long that no timer of this instance ever fires.
        reps: (representation of the group prefix, of the node id) for the constructor, see REPS; None: the next
        pair in turn. What goes wrong with a representation is kept in init_faults [(signature tail, text, replay
        object)]; the scenario then goes on with an instance made from plain component lists.
        seq_hi: the number the model value HI stands for (SeqMap); init_seq and everything else the caller gives
        or gets is in model values."""
        self.nodes = list(nodes)
        self.sm = SeqMap(seq_hi)
        self.last_octets = None       # octets of the vector the last received packet carried (kind "sv")
        self.me = nodes[0]
        self.world = world or WORLD
        self.host = host
        self.quiet = quiet
        if quiet:
            sup_ticks = sync_ticks = QUIET_TICKS
        self.rstep = rstep
        self.shared = host.shared if host else {'r': 0}
        self.r = j0 * rstep
        self.sup_ticks, self.sync_ticks = sup_ticks, sync_ticks
        self.missing_calls = 0
        self.react = 0
        self.pre = 0                  # publications to make right before the handler of the packet being delivered runs
        self.pre_path = None          # how the last such step was realised: 'loop' | 'direct' | 'missed'
        self.last_x = None            # member of the byte-level class the last received packet stood for
        self.published = False
        self.rets = []                # values returned by new_data() during the step (applications name data by them)
        self.cbsaw = []               # local_sv as seen inside on_missing_data during the step
        self.seen = 0
        if host is None:
            self.sess = Session()
            self.sess.__enter__()
            self._randbits = secrets.randbits
            secrets.randbits = lambda n: self.shared['r']
        else:
            self.sess = host.sess
            self.seen = len(host.face.out)
        try:
            if host is None or own_app:
                self.app, self.face = new_app('v2')
                self.seen = 0
            else:
                self.app, self.face = host.app, host.face
            if reps is None:
                n = _REP_TURN['n']
                _REP_TURN['n'] += 1
                reps = (REPS[n % len(REPS)], REPS[(n // len(REPS) + n) % len(REPS)])
            self.init_faults = []
            self.inst = None
            for attempt in (tuple(reps), ('list', 'list')):
                self.reps = attempt
                if self._make_inst(attempt, init_seq, sync_ticks, sup_ticks):
                    break
            self.sess.loop.settle(timers_now=host is None)
            # the instance announces itself at start; C18 says nothing about that
            self.start_out = self._take_out()
            self.missing_calls = 0
            self.rets, self.cbsaw = [], []
        except BaseException:
            self.close()
            raise

    def _make_inst(self, reps, init_seq, sync_ticks, sup_ticks, probing=False):
        """create and start the instance with the two names in the given representations; False if that went wrong
        in a way C18 does not allow (noted in init_faults) and the instance is not usable
        (probing: only try - returns the exception or None, keeps nothing)"""
        gcomps = [bytes(c) for c in self.world.base]
        mcomps = self.world.node_name(self.me)
        g, gscr, grep = name_arg(gcomps, reps[0])
        m, mscr, mrep = name_arg(mcomps, reps[1])
        last = reps == ('list', 'list')
        obj = {'kind': 'init', 'nodes': self.nodes, 'init': init_seq, 'reps': [grep, mrep],
               'world': 'sibling' if self.world is SIBLING else 'peer' if self.world is PEER else 'main'}
        inst = None
        try:
            inst = SvsInst(g, m, self._on_missing, sec.DigestSha256Signer(for_interest=True), self._validator,
                           sync_interval=sync_ticks * U, suppression_interval=sup_ticks * U,
                           last_used_seq_num=self.sm.wire(init_seq))
            for scr in (gscr, mscr):
                if scr is not None:
                    scr()               # the caller reuses its buffers
            inst.start(self.app)
        except Exception as e:      # noqa
            if last:
                raise
            if inst is not None:
                try:
                    inst.stop()
                except Exception:   # noqa
                    pass
            if not probing:
                # which of the two arguments is it? (the same pair with the other one as a plain list)
                which = 'group=%s,id=%s' % (grep, mrep)
                for alone, label in (((grep, 'list'), 'group=%s' % grep), (('list', mrep), 'id=%s' % mrep)):
                    if alone == ('list', 'list'):
                        continue
                    e2 = e if alone == (grep, mrep) else self._make_inst(alone, init_seq, sync_ticks, sup_ticks, probing=True)
                    if e2 is not None and type(e2) is type(e):
                        which = label
                        break
                self.init_faults.append(('%s/raised:%s' % (which, _exc_name(e)),
                                         'SvsInst(group prefix as %s, node id as %s) / start(): %s: %s' % (
                                             grep, mrep, type(e).__name__, e), obj))
                return False
            return e
        if probing:
            try:
                inst.stop()
            except Exception:   # noqa
                pass
            return None
        self.inst = inst
        bad = []
        try:
            if [bytes(c) for c in inst.base_prefix] != gcomps:
                bad.append(('base_prefix', grep))
            if bytes(inst.self_node_id) != _tlv(0x07, b''.join(mcomps)):
                bad.append(('self_node_id', mrep))
        except Exception as e:      # noqa
            bad.append(('unreadable:%s' % _exc_name(e), '%s,%s' % (grep, mrep)))
        if bad and not last:
            for attr, how in bad:
                self.init_faults.append(('%s-follows-%s' % (attr, how),
                                         'the application overwrote the buffer it had handed to the SvsInst constructor '
                                         '(group prefix as %s, node id as %s) after the constructor returned: the public %s '
                                         'of the instance changed with it' % (grep, mrep, attr), obj))
            inst.stop()
            self.inst = None
            return False
        return True

    def _on_missing(self, inst):
        # the application's reaction inside the (non-blocking) callback: self.react publications
        self.missing_calls += 1
        self.cbsaw.append(self.local())           # what an application reading inst.local_sv in the callback sees
        for _ in range(self.react):
            self.rets.append(self.sm.spec(inst.new_data()))
            self.published = True

    async def _validator(self, _name, _sig, _context):
        """The application's validator of sync Interests: accepts everything (appv2.pass_all). With publications armed
        (recv(..., pre=n)) it is also how the order `new_data(), handler, timer task` is realised through the real
        receive path: validation takes one more loop iteration (as a validator that has to look something up does),
        and the application's publishing callback is queued in front of its resumption. appv2 calls the handler in
        the step in which the validator returns, so that iteration runs [new_data() x n] [validator returns, handler];
        the wake-up of on_timer, queued by new_data(), comes an iteration later. (Measured on the virtual loop: a
        packet handed to the receive path after new_data() returned always loses the race - its handler runs two
        iterations later, the timer task one.)"""
        if self.pre > 0:
            n, self.pre = self.pre, 0
            aio.get_running_loop().call_soon(self._publish_now, n)
            await aio.sleep(0)
            self.pre_path = 'loop'
        return appv2.ValidResult.PASS

    def _publish_now(self, n):
        for _ in range(n):
            self.rets.append(self.sm.spec(self.inst.new_data()))
        self.published = True

    @property
    def r(self):
        return self.shared['r']

    @r.setter
    def r(self, v):
        self.shared['r'] = v

    def close(self):
        """a guest only stops its instance; the host (close it last) ends the session"""
        try:
            try:
                self.inst.stop()
            except Exception:
                pass
            if self.host is None:
                self.sess.__exit__(None, None, None)
        finally:
            if self.host is None:
                secrets.randbits = self._randbits

    # ---- observation
    def _take_out(self):
        self.last_wires = []                            # (wire, decoded vector, its octets) of this step's own Interests
        out = []
        for w in self.face.out[self.seen:]:
            v = self.world.decode_emitted(w)
            if v is not None:                           # Interests of the other group are not ours
                v = {n: self.sm.spec(q) for n, q in v.items()}
                out.append(v)
                self.last_wires.append((w, dict(v), self.world.emitted_octets))
        self.seen = len(self.face.out)
        return out

    def local(self):
        d = {n: 0 for n in self.nodes}
        for k, v in self.inst.local_sv.items():
            n = self.world.node_of(k)
            d[n] = self.sm.spec(v)
        return d

    def timer(self):
        if self.quiet:
            return QUIET_TIMER
        # the instance computes next_sync_timing from time.time() (patched to the virtual clock)
        x = (self.inst.next_sync_timing - time.time()) / U
        r = round(x)
        if abs(x - r) > 1e-3:
            raise MachineryError('timer is not on the tick grid: %r ticks' % x)
        return max(r, 0)

    def post(self):
        out = self._take_out()
        m = self.missing_calls
        self.missing_calls = 0
        rets, self.rets = self.rets, []
        saw, self.cbsaw = self.cbsaw, []
        full = []
        for v in out:
            d = {n: 0 for n in self.nodes}
            d.update(v)
            full.append(d)
        return {'local': self.local(), 'out': full, 'missed': m, 'ret': rets, 'cbsaw': saw,
                'state': 'Suppress' if self.inst.state.name == 'SyncSuppression' else 'Steady',
                'timer': self.timer(), 'seq': self.sm.spec(self.inst.self_seq)}

    def errors(self):
        return [str(c.get('exception') or c.get('message')) for c in self.sess.loop.errors]

    # ---- stimuli
    def _handle_directly(self, wire):
        """the attached handler called in the call stack of the caller (no loop iteration in between)"""
        try:
            name, _, app_param, _ = enc.parse_interest(wire)
            self.inst.sync_handler(name, app_param, lambda _data: False, {})
        except Exception as e:      # noqa
            return e
        return None

    def recv(self, p, j=0, react=0, pre=0, x=None):
        """pre > 0: PublishThenRecv - new_data() x pre, then the handler of p, then the timer task (see _validator).
        An Interest without signature is not validated (appv2 hands it to the handler at once), so there the same
        order is produced without the receive path: new_data() x pre and the attached handler in one call stack."""
        self.r = j * self.rstep
        self.react, self.published = react, False
        n0 = len(self.sess.loop.errors)
        # (p of kind "cut" / "svl" stands for a class of byte strings: x names the member, None = the next in turn)
        self.last_x = self.world.pick_member(p, x)
        wire = self.world.sync_interest(self.sm.packet(p), self.last_x)
        self.last_octets = self.world.sv_octets.get(wire) if p['k'] == 'sv' else None
        self.pre_path = None
        try:
            if pre > 0 and p['k'] == 'unsigned':
                self._publish_now(pre)
                exc = self._handle_directly(wire)
                self.pre_path = 'direct'
                self.sess.loop.settle(timers_now=False)
            else:
                self.pre = pre
                exc = deliver(self.sess, self.face, wire, timers_now=False)
                if self.pre > 0:
                    # the Interest never reached validation (dropped on the way, or handled without it): the
                    # publications are made now, and the projection after the step says what that meant for C18
                    self.pre_path = 'missed'
                    self._publish_now(self.pre)
                    self.pre = 0
                    self.sess.loop.settle(timers_now=False)
        finally:
            self.react = 0
            self.pre = 0
        if exc is not None:
            # an exception out of the application's receive path is the library's doing, not the harness's:
            # it is noted, and the projection after the step says what it meant for C18
            self.sess.loop.errors.append({'exception': exc, 'message': 'escaped from the receive callback'})
        if self.published and not self.quiet:
            # as in publish(): whatever is due now was scheduled by the publication itself
            self.sess.loop.settle(timers_now=True)
        post = self.post()
        if p['k'] != 'sv':
            # an undecodable sync Interest must be ignored quietly: an exception that escapes sync_handler
            # (it surfaces in the loop's exception handler as soon as the finished handler task is released, which
            # CPython does by reference count at the end of the step) is reported
            new = [c.get('exception') for c in self.sess.loop.errors[n0:]]
            post['raised'] = ','.join(sorted({_exc_name(e) for e in new if e is not None}))
        return post

    def recv_wire(self, wire):
        """hand a packet produced elsewhere (a peer's sync Interest) to this instance's application"""
        self.react, self.published = 0, False
        exc = deliver(self.sess, self.face, wire, timers_now=False)
        if exc is not None:
            # an exception out of the application's receive path is the library's doing, not the harness's:
            # it is noted, and the projection after the step says what it meant for C18
            self.sess.loop.errors.append({'exception': exc, 'message': 'escaped from the receive callback'})
        return self.post()

    def publish(self, n=1, j=0):
        self.r = j * self.rstep
        for _ in range(n):
            self.rets.append(self.sm.spec(self.inst.new_data()))
        self.sess.loop.settle(timers_now=False)
        # the expiry that was pending has been superseded by the publication; whatever is due
        # now was scheduled by the publication itself (a quiet instance must not run the timers
        # of the instance it lives next to)
        if not self.quiet:
            self.sess.loop.settle(timers_now=True)
        return self.post()

    def fire(self, j=0):
        self.r = j * self.rstep
        self.sess.loop.settle(timers_now=True)
        return self.post()

    def tick(self, d):
        lp = self.sess.loop
        lp.set_time(lp.time() + d * U)
        lp.settle(timers_now=False)
        return self.post()

    def apply(self, ev):
        a = ev['a']
        if a == 'RecvSV':
            return self.recv(ev['p'], ev.get('j', 0), ev.get('r', 0), x=ev.get('x'))
        if a == 'PublishThenRecv':
            return self.recv(ev['p'], ev.get('j', 0), ev.get('r', 0), pre=ev['n'], x=ev.get('x'))
        if a == 'Publish':
            return self.publish(ev['n'], ev.get('j', 0))
        if a == 'TimerFire':
            return self.fire(ev.get('j', 0))
        if a == 'Tick':
            return self.tick(ev['d'])
        raise ValueError(a)
