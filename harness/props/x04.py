"""X04 (not one of the listed properties, not in MANIFEST.json): two applications and a lossy network - the RDR tools
`pyndntools serve-rdrcontent` / `fetch-rdrcontent` (ndn.bin.tools) end to end.  Spec: Rdr.tla, RdrTrace.tla; executor
harness/rdrkit.py.  `bin/check X04`."""
import json, os

from harness import tlc, graph, judge, rdrkit

INVS = ['TypeOK', 'InOrder', 'DoneExact', 'FailExhausted', 'ErrIffFail', 'RetryBound', 'NoOverfetch', 'AnswersOk', 'SentBound']
WITNESSES = ['W_DoneAfterFaults', 'W_FailNack', 'W_LateDataAccepted', 'W_StaleDropped']
ACTIONS = ['Begin', 'PRecv', 'CData', 'CTimeout', 'CNack', 'Lose']
ALL_GIVENS = '{"prefix", "metaver", "dataver"}'
VIEW = ('pc', 'err', 'nsent', 'req', 'net', 'result', 'face_up')


def cfg(name, maxn, maxretry, maxfaults, givens=ALL_GIVENS, invs=INVS, props=(), spec='Spec', constraint=True):
    p = os.path.join(tlc.BUILD, name + '.cfg')
    tlc.write_cfg(p, spec=spec, constants={'MaxN': maxn, 'MaxRetry': maxretry, 'MaxFaults': maxfaults, 'Givens': givens},
                  invariants=invs, properties=props, constraints=['Bounded'] if constraint else [])
    return p


def stage_a(ctx):
    for label, (n, r, f) in (('3 segments, retry 0..2, 3 faults', (3, 2, 3)),) + \
            (() if ctx.quick else (('4 segments, retry 0..3, 4 faults', (4, 3, 4)),)):
        res = tlc.run('Rdr', cfg('rdr-A-%d' % n, n, r, f), coverage=True, workers=ctx.pick(4, 16), timeout=3000)
        ctx.add_tlc('Rdr: ' + label, res)
        if res.violated:
            ctx.violation('X04/spec/Rdr/%s' % res.violated, 'TLC: %s violated in Rdr (%s)' % (res.violated, label), {'trace': res.errtrace})
        for a in ACTIONS:
            if res.coverage.get(a, (0, 0))[1] == 0:
                raise tlc.MachineryError('vacuous: Rdr action %s never taken' % a)
    # liveness: once the network has used up its faults every fetch ends, and with fewer faults than retries it ends well
    for label, (n, r, f) in (('2 segments, 1 fault', (2, 2, 1)),) + (() if ctx.quick else (('3 segments, 2 faults', (3, 3, 2)),)):
        res = tlc.run('Rdr', cfg('rdr-A-live-%d' % n, n, r, f, invs=[], props=['Completes', 'Ends'], spec='FairSpec', constraint=False),
                      workers=1, heavy=False, timeout=1500)
        ctx.add_tlc('Rdr liveness (Completes, Ends): ' + label, res)
        if res.violated:
            ctx.violation('X04/spec/Rdr/%s' % res.violated, 'TLC: temporal property violated in Rdr (%s)' % label, {'trace': res.errtrace})
    for w in WITNESSES:
        res = tlc.run('Rdr', cfg('rdr-W-' + w, 3, 2, 3, invs=[w]), workers=2, heavy=False, timeout=600)
        if res.violated != w:
            raise tlc.MachineryError('vacuous: Rdr witness %s is not reachable (%r)' % (w, res.violated))
    ctx.note('Rdr: %d witnesses reachable' % len(WITNESSES))


def diff(exp, got):
    return [(k, exp[k], got[k]) for k in VIEW if exp[k] != got[k]]


def replay_path(cfgrec, path, states, init, variant):
    run = None
    try:
        try:
            run = rdrkit.RdrRun(cfgrec, **variant)
        except rdrkit.Mismatch as e:
            return 0, (0, 'Init', [], [('exception', 'none', str(e))])
        d = diff(rdrkit.expected(states[init]), run.project())
        if d:
            return 0, (0, 'Init', [], d)
        for i, (act, args, dst) in enumerate(path):
            try:
                run.apply(act, args)
            except rdrkit.Mismatch as e:
                return i, (i + 1, act, args, [('mismatch', 'none', str(e))])
            except tlc.MachineryError:
                raise
            except Exception as e:  # noqa - the library failed where the model has a transition
                return i, (i + 1, act, args, [('exception', 'none', '%s: %s' % (type(e).__name__, e))])
            d = diff(rdrkit.expected(states[dst]), run.project())
            if d:
                return i + 1, (i + 1, act, args, d)
        return len(path), None
    finally:
        if run is not None:
            run.close()


def jsonable(x):
    from harness import tlaval
    return tlaval.to_json(x)


VARIANTS = [dict(), dict(size=1, last=1), dict(size=300, last=7, fresh=True), dict(prefix='/p', lifetime=50),
            dict(prefix='/a/32=metadata/b', size=5, last=5, lp_to_consumer=True, lifetime=60000)]


def stage_b(ctx):
    g = graph.dump('Rdr', cfg('rdr-B', 2, 2, 2, invs=[]), workers=4, tag='rdr')
    ctx.add_tlc('Rdr graph 2 segments retry 0..2, 2 faults (%d edges)' % g.n_edges, g.tlc)
    paths = graph.edge_cover_paths(g, max_len=40, rng=ctx.rng, max_paths=ctx.pick(1200, 30000))
    paths += graph.random_paths(g, ctx.pick(200, 3000), 30, ctx.rng)
    nrep = 0
    for k, (init, path) in enumerate(paths):
        if not path:
            continue
        c = g.state[init]['cfg']
        cfgrec = {'n': c['n'], 'retry': c['retry'], 'given': c['given']}
        variant = dict(VARIANTS[k % len(VARIANTS)], seed=k)
        jpath = [(a, [jsonable(x) for x in args], dst) for a, args, dst in path]
        n, bad = replay_path(cfgrec, jpath, g.state, init, variant)
        nrep += 1
        ctx.traces += 1
        ctx.evaluations += n
        acts = [a for a, _, _ in path]
        if len(path) >= 4 and ('CTimeout' in acts or 'CNack' in acts or 'Lose' in acts) and 'CData' in acts:
            ctx.nt(['rdr', cfgrec, [(a, json.dumps(b, sort_keys=True)) for a, b, _ in jpath]])
        if bad:
            i, act, args, d = bad
            sig = 'X04/rdr/%s/%s' % (act, d[0][0])
            ctx.violation(sig, 'Rdr: after %s%s (step %d) %s is %s, the specification says %s'
                          % (act, json.dumps(args), i, d[0][0], json.dumps(d[0][2]), json.dumps(d[0][1])),
                          {'kind': 'rdr', 'cfg': cfgrec, 'variant': variant, 'path': [[a, b] for a, b, _ in jpath[:i]],
                           'differences': [list(x) for x in d]})
    ctx.sample({'kind': 'rdr-path', 'actions': [[a, [jsonable(x) for x in b]] for a, b, _ in paths[-1][1][:12]]}, limit=2)
    ctx.note('Rdr replay: %d states, %d edges, %d paths' % (len(g.state), g.n_edges, nrep))


def random_run(rng, k):
    """the harness plays the network at random on a larger object; -> trace record"""
    n = rng.choice([1, 2, 3, 5, 8, 13, 21, 34])
    retry = rng.choice([0, 1, 2, 3, 5, 15])
    given = rng.choice(['prefix', 'metaver', 'dataver'])
    cfgrec = {'n': n, 'retry': retry, 'given': given}
    variant = dict(rng.choice(VARIANTS), seed=k)
    if rng.random() < 0.3:
        variant.update(size=rng.choice([1, 2, 100, 8000]))
        variant['last'] = rng.randint(1, variant['size'])
    fault_rate = rng.choice([0.0, 0.1, 0.3, 0.6])
    ev = []
    run = rdrkit.RdrRun(cfgrec, **variant)

    def post():
        p = run.project()
        return {'pc': p['pc'], 'err': p['err'], 'nsent': p['nsent'], 'req': -9 if p['req'] is None else p['req'],
                'net': [{'k': a, 'id': b, 'req': c, 'tok': d, 'fin': e} for a, b, c, d, e in p['net']],
                'result': p['result'] or 'none', 'up': p['face_up']}
    try:
        def do(act, args, rec):
            try:
                run.apply(act, args)
            except rdrkit.Mismatch as e:
                rec['post'] = dict(post(), pc='mismatch: ' + str(e))
                ev.append(rec)
                return False
            rec['post'] = post()
            ev.append(rec)
            return True
        tok = rng.random() < 0.5
        ok = do('Begin', [tok], {'a': 'Begin', 'tok': tok})
        steps = 0
        while ok and run.project()['pc'] == 'wait' and steps < 400:
            steps += 1
            tok = rng.random() < 0.5
            pk = sorted(run.net.values(), key=lambda p: p['id'])
            faulty = rng.random() < fault_rate
            if not pk or (faulty and rng.random() < 0.3):
                ok = do('CTimeout', [tok], {'a': 'CTimeout', 'tok': tok})
                continue
            p = rng.choice(pk)
            ref = {'id': p['id']}
            if faulty:
                if p['k'] == 'I' and rng.random() < 0.5:
                    ok = do('CNack', [ref, tok], {'a': 'CNack', 'id': p['id'], 'tok': tok})
                else:
                    ok = do('Lose', [ref], {'a': 'Lose', 'id': p['id']})
            elif p['k'] == 'I':
                ok = do('PRecv', [ref], {'a': 'PRecv', 'id': p['id']})
            else:
                ok = do('CData', [ref, tok], {'a': 'CData', 'id': p['id'], 'tok': tok})
    finally:
        run.close()
    return {'cfg': cfgrec, 'variant': variant, 'ev': ev}


def trace_cfg(_dev=None):
    return os.path.join(tlc.SPEC, 'RdrTrace.cfg')


def stage_c(ctx):
    recs = []
    for k in range(ctx.pick(300, 5000)):
        rec = random_run(ctx.rng, k)
        recs.append(rec)
        ctx.traces += 1
        ctx.evaluations += len(rec['ev'])
        acts = {e['a'] for e in rec['ev']}
        if len(rec['ev']) >= 6 and acts & {'CTimeout', 'CNack', 'Lose'}:
            ctx.nt(['rdr-c', rec['cfg'], [(e['a'], e.get('id')) for e in rec['ev']]])
    rej = judge.validate(ctx, 'RdrTrace', trace_cfg(), recs, 'rdr-c')
    for i, lno in rej:
        rec = recs[i]
        bad = rec['ev'][lno - 1] if 1 <= lno <= len(rec['ev']) else None
        prev = rec['ev'][lno - 2]['post'] if lno >= 2 else None
        what = 'end-of-trace' if bad is None else bad['a']
        changed = 'mismatch' if bad and str(bad['post']['pc']).startswith('mismatch') else \
            ','.join(k for k in ('pc', 'err', 'nsent', 'req', 'net', 'result', 'up') if bad and (prev is None or prev.get(k) != bad['post'].get(k))) or 'no-observable-change'
        ctx.violation('X04/rdr-trace/%s/%s' % (what, changed),
                      'execution of the RDR tools rejected by RdrTrace at event %d: %s' % (lno, json.dumps(bad)[:700]),
                      {'kind': 'rdr-trace', 'rec': rec, 'rejected_at': lno})
    ctx.sample({'kind': 'rdr-trace', 'cfg': recs[-1]['cfg'], 'events': [e['a'] for e in recs[-1]['ev']][:20]}, limit=2)


def run(ctx):
    ctx.rule = ('A: TLC exhaustive on Rdr (safety, liveness under fairness with a bounded number of network faults, witnesses); '
                'B: transition cover + random walks of the Rdr graph replayed into the two real tools (serve-rdrcontent / '
                'fetch-rdrcontent on two appv2 applications, the harness is the network), every observable compared after every '
                'action; C: random network behaviour on objects of up to 34 segments judged by RdrTrace. '
                'non-trivial = execution with a fault (loss / timeout / Nack) and at least one delivered Data, >= 4 actions')
    ctx.assumptions = ['virtual-time loop faithful to asyncio', 'the forwarder is abstracted to an unreliable channel: no caching, no aggregation']
    if 'A' in ctx.stages:
        stage_a(ctx)
    if 'B' in ctx.stages:
        stage_b(ctx)
    if 'C' in ctx.stages:
        stage_c(ctx)


def replay(ctx, path):
    with open(path) as f:
        obj = json.load(f)
    if obj.get('kind') == 'rdr':
        run = rdrkit.RdrRun(obj['cfg'], **obj['variant'])
        try:
            for act, args in obj['path']:
                print(act, args)
                try:
                    run.apply(act, args)
                except rdrkit.Mismatch as e:
                    print('mismatch:', e)
                    return 1
            p = run.project()
            print(json.dumps(p, indent=1))
            still = [d for d in obj['differences'] if d[0] in p and p.get(d[0]) != d[1]]
            print('re-executed on the current tree: %s' % ('still differs' if still else 'agrees with the specification'))
            return 1 if still else 0
        finally:
            run.close()
    print(json.dumps(obj, indent=1)[:4000])
    return 0
