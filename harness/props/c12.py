"""C12 - the signing check holds exactly when the schema lets that key sign that packet.

Spec: Lvs.tla (Check / CheckYes), LvsTree.tla (TreeCheck; _match with a carried context),
      LvsEnum.tla (enumerated family), LvsJudge.tla (kind "c").

A  TLC: laws of the reference on the exhaustive small-schema family (a yes implies that packet and key
   each match a rule, digests are ignored, the deviation DEV_PreboundSkipsConstraints only ever adds
   yes-answers and only where constraints exist), and the _match machine started with carried bindings
   equals the documented walk (and visibly differs from it once the deviation flag is on).
B  spec -> code: for every family schema TLC computes the set of all (pkt, key) pairs (names up to length 3
   over 3 symbols, 1600 pairs) for which Check holds; the real Checker.check (directly and after
   save/load) is run on every pair and compared.
C  code -> spec: seeded generator (signing chains, alternatives, shared pattern names, constraints on shared
   patterns, key constraints naming patterns bound only by the packet, definitions / rules whose chains end on the
   same tree node with signer lists of their own); all pairs of short names, sampled
   pairs of longer ones, implicit-digest suffix on either side; judged by TLC:
   Lvs!Check = LvsTree!TreeCheck(model) = recorded answer, and yes => the key matches a rule.
"""
import json, os

from harness import tlc, lvskit as K
from harness.tlaval import to_json
from harness.props import c11


def what_c(rec, cls, cnt, first):
    pr = rec['pairs'][first - 1]
    return ('%s on %d pair(s), first check(/%s, /%s) = %s; schema\n%s'
            % (cls, cnt, '/'.join(rec['names'][pr[0] - 1]), '/'.join(rec['names'][pr[1] - 1]), pr[2], rec['text']))


def run(ctx):
    ctx.rule = ('non-trivial = distinct (schema, pkt, key) where the packet name matches some rule (so that the key '
                'side and the carried bindings are actually exercised)')
    ctx.assumptions = ['as C11; pairs are exhaustive for short names and sampled (biased to matching names) for longer ones',
                       'an implicit-digest component is the abstract symbol %s' % K.DIGEST]
    procs = ctx.pick(4, 8)
    if 'A' in ctx.stages:
        stage_a(ctx, procs)
    if 'B' in ctx.stages:
        stage_b(ctx, procs)
    if 'C' in ctx.stages:
        stage_c(ctx, procs)


def stage_a(ctx, procs):
    mn, ml = ctx.pick((3, 2), (3, 3))
    cfg = c11.walk_cfg(K.scratch('LvsTree_walk_c12_%s.cfg' % ctx.tier), mn, ml,
                       invariants=['WalkEqualsRec', 'WalkEqualsDocumented', 'ContextRestored', 'CarriedKept'])
    dp = c11.walk_cfg(K.scratch('LvsTree_walk_c12_d.cfg'), 3, 2, dev=True, invariants=['WalkEqualsDocumented'])
    wp = c11.walk_cfg(K.scratch('LvsTree_walk_c12_w.cfg'), 3, 2, invariants=['W_PreboundUsed'])
    res = K.par([lambda: tlc.run('LvsTree', cfg, coverage=True, workers=ctx.pick(4, 8)),
                 lambda: tlc.run('LvsTree', dp, workers=1, heavy=False),
                 lambda: tlc.run('LvsTree', wp, workers=1, heavy=False),
                 lambda: c11.enum_run(ctx, 'laws', ctx.pick(79, 5), procs, tag='a')])
    r = res[0]
    ctx.add_tlc('LvsTree walk machine with carried bindings MaxNodes=%d MaxLen=%d' % (mn, ml), r)
    if r.violated:
        ctx.violation('C12/spec/LvsTree/%s' % r.violated, 'TLC: %s violated by the walk machine' % r.violated,
                      {'kind': 'spec', 'trace': r.errtrace})
    if res[1].violated != 'WalkEqualsDocumented':
        raise tlc.MachineryError('DevPrebound has no visible effect (deviation model vacuous)')
    if res[2].violated != 'W_PreboundUsed':
        raise tlc.MachineryError('witness W_PreboundUsed not reachable')
    names, items = res[3]
    seen = set()
    for it in items:
        for law in it[2]:
            ctx.violation('C12/spec/Lvs/law/%s' % law, 'reference law %s fails on family schema %d' % (law, it[1]),
                          {'kind': 'spec', 'index': it[1]})
        seen |= set(it[3])
    for w in ('w-check-yes', 'w-devP-differs'):
        if w not in seen:
            raise tlc.MachineryError('law witness %s never seen' % w)
    ctx.note('A: %d family schemas x 1600 pairs satisfy the Check laws; machine with carried bindings = walk on %d states'
             % (len(items), r.distinct))


def stage_b(ctx, procs):
    names, items = c11.enum_run(ctx, 'checks', ctx.pick(53, 2), procs, tag='b', fs=4)
    idx = [i for i, n in enumerate(names) if n]           # the empty name: see stage C
    bad, nrej, nyes = [], 0, 0
    fam = {'towers': 0, 'stacked': 0, 'wide': 0}
    for it in items:
        rules = to_json(it[2])
        ids = {r['id'] for r in rules}
        fam['towers'] += '#top' in ids
        fam['stacked'] += '#d' in ids and '#r2' in ids
        fam['wide'] += '#w7' in ids
        yes = {(a - 1, b - 1) for a, b in it[4]}
        text = K.render(rules)
        oc, ck, msg, note = K.build2(text)
        K.recompile_violation(ctx, 'C12', note, text)
        if oc != 'ok':
            nrej += 1
            continue
        ck2 = K.reload(ck)
        ctx.traces += 1
        mism = False
        hit = {i for i in idx if K.run_match(ck, names[i])[1]}
        for a in idx:
            for b in idx:
                s1, r1 = K.run_check(ck, names[a], names[b])
                s2, r2 = K.run_check(ck2, names[a], names[b])
                ctx.evaluations += 2
                if s1 != 'ok' or s2 != 'ok':
                    ctx.violation('C12/Checker.check/exception/%s' % (s1 if s1 != 'ok' else s2),
                                  'check raised on %s %s\n%s' % (names[a], names[b], text), {'kind': 'text', 'text': text})
                    continue
                if a in hit:
                    ctx.nt('B%d/%d/%d' % (it[1], a, b))
                want = (a, b) in yes
                nyes += want
                if r1 != want or r2 != want:
                    mism = True
        if mism:
            bad.append((it[1], rules, text, ck))
        ctx.sample({'kind': 'B-schema', 'text': text, 'pairs': len(idx) ** 2, 'yes': len(yes)}, limit=2)
    ctx.note('B: %d family schemas x %d pairs executed on Checker.check (direct + reloaded; %d rejected schemas skipped); '
             '%d yes-answers expected; %d schemas differ' % (len(items) - nrej, len(idx) ** 2, nrej, nyes, len(bad)))
    ctx.note('B: among them %(towers)d reference towers (a rule reached twice through nested references), %(stacked)d with '
             'two constraints on one pattern (mixed alternatives), %(wide)d wide schemas (7-13 rules, 9-17 named patterns)' % fam)
    if not all(fam.values()):
        raise tlc.MachineryError('B: a family of LvsEnum is missing from the sample: %s' % fam)
    if bad:
        recs = []
        for k, rules, text, ck in bad:
            nm = [names[i] for i in idx]
            pairs = [[a + 1, b + 1, K.run_check(ck, nm[a], nm[b])[1]] for a in range(len(nm)) for b in range(len(nm))]
            recs.append({'sid': k, 'kind': 'c', 'rules': rules, 'model': K.dump_model(ck.model), 'names': nm,
                         'pairs': pairs, 'text': text, 'alpha': ['a', 'b', 'c']})
        ver = K.judge(ctx, [c11.strip(r) for r in recs], 'c12b', procs)
        report(ctx, recs, ver)


def strip12(rec):
    return {k: v for k, v in rec.items() if k not in ('text', 'alpha', 'reuse')}


def report(ctx, recs, ver):
    for rec in recs:
        for cls, cnt, first in sorted(ver[rec['sid']]):
            pr = rec['pairs'][first - 1]
            obj = {'kind': 'c', 'rules': rec['rules'], 'text': rec['text'], 'class': cls,
                   'pkt': rec['names'][pr[0] - 1], 'key': rec['names'][pr[1] - 1], 'recorded': pr[2]}
            if rec.get('reuse'):
                # calls were made on one Checker through two reused list objects: keep the history up to the call
                obj['history'] = [[rec['names'][q[0] - 1], rec['names'][q[1] - 1]] for q in rec['pairs'][:first]][-50:]
                cls = 'reused-name-objects/' + cls
            ctx.violation('C12/Checker.check/%s' % cls, what_c(rec, cls, cnt, first), obj)


def make_pairs(ctx, ck, rules, text, L, nsample, Lall, tag, reuse=False, nlong=0, stat=None):
    """names (with digest variants) and the pairs to ask. Returns (names, pairs [[pi, ki, res]])."""
    rng = ctx.rng
    alpha = K.alphabet(rules, rng)
    base = K.names_upto(alpha, L)
    # expanded names longer than L (references nested several levels deep): names chosen along the chains of the schema
    longn = K.chain_names(rules, alpha, rng, L, limit=nlong) if nlong else []
    base = base + longn
    # third block: the same names with a trailing ParametersSha256Digest component, which is NOT ignored (seed round 7)
    names = list(base) + [n + [K.DIGEST] for n in base] + [n + [K.PDIGEST] for n in base]
    nb = len(base)
    nres = {i: len(K.run_match(ck, n)[1]) for i, n in enumerate(base) if n}
    hit = [i for i in sorted(nres) if nres[i]]
    multi = [i for i in hit if nres[i] >= 2]      # names satisfying several definitions / rules (several packet nodes)
    short = [i for i, n in enumerate(base) if len(n) <= Lall]
    ask = set()
    for a in short:
        for b in short:
            ask.add((a, b))
    allidx = list(range(nb))
    # every pair of names that each match some rule (the pairs that can be answered yes), when there are few
    npool = ctx.pick(40, 45)
    pool = hit if len(hit) <= npool else rng.sample(hit, npool)
    for a in pool:
        for b in pool:
            ask.add((a, b))
    # packets that match a rule against EVERY key name: a key may match its rule only with the bindings carried
    # over from the packet (constraints naming patterns of the packet rule), so it need not be in `hit`
    # (names that satisfy several definitions first: the answer is an OR over packet nodes with their own bindings)
    first = multi if len(multi) <= 12 else rng.sample(multi, 12)
    rest = [i for i in hit if i not in first]
    for a in first + (rest if len(rest) <= 20 - len(first) else rng.sample(rest, 20 - len(first))):
        for b in allidx:
            ask.add((a, b))
    # the long names, as packet and as key, against each other and against names that match some rule
    longidx = list(range(nb - len(longn), nb))
    partners = set(hit if len(hit) <= 10 else rng.sample(hit, 10)) | set(longidx)
    for a in longidx:
        for b in sorted(partners):
            ask.add((a, b))
            ask.add((b, a))
    if stat is not None:
        stat['long'] += len(longn)
        stat['longhit'] += sum(1 for i in longidx if nres.get(i))
    for _ in range(nsample):
        a = rng.choice(hit) if hit and rng.random() < 0.85 else rng.choice(allidx)
        b = rng.choice(hit) if hit and rng.random() < 0.7 else rng.choice(allidx)
        x = rng.random()
        if x < 0.15:
            a += nb
        elif x < 0.30:
            b += nb
        elif x < 0.40:
            a += nb; b += nb
        elif x < 0.48:
            a += 2 * nb
        elif x < 0.54:
            b += 2 * nb
        ask.add((a, b))
    pairs = []
    hitset = set(hit)
    order = sorted(ask)
    if reuse:                       # one long-lived pair of list objects, rewritten in place, calls in random order
        rng.shuffle(order)
        bufp, bufk = [], []
    for a, b in order:
        st, res = (K.run_check_reused(ck, bufp, bufk, names[a], names[b]) if reuse
                   else K.run_check(ck, names[a], names[b]))
        ctx.evaluations += 1
        if st.startswith('NotBool'):
            ctx.violation('C12/Checker.check/return-type/%s' % st,
                          'Checker.check(%r, %r) returns %s, not a bool; schema\n%s'
                          % ('/' + '/'.join(names[a]), '/' + '/'.join(names[b]), st, text),
                          {'kind': 'text', 'text': text, 'pkt': names[a], 'key': names[b]})
            st = 'ok'
        if st != 'ok':
            empty = (not names[a]) or (not names[b])
            ctx.violation('C12/Checker.check/%s/%s' % ('empty-name' if empty else 'name', st),
                          'Checker.check(%r, %r) raises %s instead of answering; schema\n%s'
                          % ('/' + '/'.join(names[a]), '/' + '/'.join(names[b]), st, text),
                          {'kind': 'text', 'text': text, 'pkt': names[a], 'key': names[b]})
            continue
        if (a % nb) in hitset:
            ctx.nt('C%s/%d/%d' % (tag, a, b))
        pairs.append([a + 1, b + 1, res])
    return alpha, names, pairs


def stage_c(ctx, procs):
    n = ctx.pick(34, 500)
    L = ctx.pick(3, 4)
    Lall = 2
    nsample = ctx.pick(300, 5000)
    gen = K.Gen(ctx.rng, signing=0.85, p_forward=0.2, p_redef=0.3, p_twin=0.6, force_twin=0.6, carried=0.5, dual=0.6,
                foreign=0.25, flat=0.6, stack=0.4, tower=0.35)
    nlong = ctx.pick(12, 60)
    stat = {'long': 0, 'longhit': 0}
    recs, rejected, sid, nyes = [], 0, 0, 0
    while len(recs) < n and sid < 4 * n:
        sid += 1
        if sid % ctx.pick(12, 8) == 5:
            gen.force = {'wide'}           # scale: every 12th (8th) schema has 10 and more named patterns
        rules = gen.schema()
        if not any(r['sign'] for r in rules):
            continue
        text = K.render(rules)
        oc, ck, msg, note = K.build2(text)
        K.recompile_violation(ctx, 'C12', note, text)
        if oc != 'ok':
            rejected += 1
            continue
        if sid % 2:
            ck = K.reload(ck)              # half of the schemas are queried after save/load
        ctx.traces += 1
        # all pairs of short names; in the thorough tier every 10th schema gets all pairs one length further
        alpha, names, pairs = make_pairs(ctx, ck, rules, text, L, nsample,
                                         Lall + (1 if not ctx.quick and len(recs) % 10 == 0 else 0), sid,
                                         reuse=len(recs) % 3 == 1, nlong=nlong, stat=stat)
        nyes += sum(1 for p in pairs if p[2])
        recs.append({'sid': sid, 'kind': 'c', 'rules': rules, 'model': K.dump_model(ck.model), 'names': names,
                     'pairs': pairs, 'text': text, 'alpha': alpha, 'reuse': len(recs) % 3 == 1})
        ctx.sample({'kind': 'C-schema', 'text': text, 'pairs': len(pairs), 'yes': sum(1 for p in pairs if p[2])}, limit=3)
    ctx.note('C: %d generated schemas with signing relations (%d more rejected, judged by C13), %d pairs in total, '
             '%d answered yes' % (len(recs), rejected, sum(len(r['pairs']) for r in recs), nyes))
    ctx.note('C: generator shapes: %d schemas where a definition with signers of its own is written like ONE chain of a '
             'rule that has several (the chains end on one node, the signer lists stay apart), %d with a constraint '
             'inherited onto a pattern of the referring rule' % (gen.stat['flat'], gen.stat['foreign']))
    ctx.note('C: %d schemas where one pattern of an expanded name carries several constraints with mixed alternatives, %d with '
             'references nested 3-4 deep that reach one rule twice; %d names longer than %d components chosen along the '
             'chains (%d of them match a rule); %d schemas with 10 and more named patterns'
             % (gen.stat['stack'], gen.stat['tower'], stat['long'], L, stat['longhit'], gen.stat['wide']))
    if len(recs) >= 30 and not (gen.stat['flat'] and gen.stat['stack'] and gen.stat['tower'] and stat['longhit'] and gen.stat['wide']):
        raise tlc.MachineryError('C: generator dimension vacuous: %s %s' % (gen.stat, stat))
    ver = K.judge(ctx, [strip12(r) for r in recs], 'c12c', procs)
    report(ctx, recs, ver)


def replay(ctx, path):
    with open(path) as f:
        obj = json.load(f)
    text = obj.get('text') or K.render(obj['rules'])
    print(text)
    if obj.get('kind') == 'recompile':
        return c11.replay(ctx, path)
    oc, ck, msg, note = K.build2(text)          # as recorded: the checker of the second compilation
    if note:
        print('recompilation:', note)
    if oc != 'ok':
        print('build failed', oc, msg)
        return 1
    if obj.get('history'):
        bufp, bufk = [], []
        for a, b in obj['history']:
            st, res = K.run_check_reused(ck, bufp, bufk, a, b)
        print('after %d earlier calls through the same two list objects:' % (len(obj['history']) - 1))
    else:
        st, res = K.run_check(ck, obj['pkt'], obj['key'])
    print('Checker.check(/%s, /%s) -> %s %s' % ('/'.join(obj['pkt']), '/'.join(obj['key']), st, res))
    print('Checker.match(key) ->', K.run_match(ck, obj['key']))
    if obj.get('kind') == 'c' and st == 'ok':
        rec = {'sid': 1, 'kind': 'c', 'rules': obj['rules'], 'model': K.dump_model(ck.model),
               'names': [obj['pkt'], obj['key']], 'pairs': [[1, 2, res]]}
        v = K.judge(ctx, [rec], 'c12r', 1)[1]
        print('judge:', sorted(v) if v else 'agrees with Lvs!Check')
        return 1 if v else 0
    return 1 if st != 'ok' else 0
