"""C06 - receive path: exact stream framing (Framing.tla / FramingTrace.tla on the real StreamFace.run)
and robustness: junk delivered in every pipeline state changes nothing (RecvJunk in NdnPit / NdnFib),
through the stream face, the datagram face and _receive of both front-ends."""
import asyncio as aio
import json, os, itertools

from harness import tlc, graph, judge, tlaval
from harness import pitcheck as pc, fibcheck as fc, pitkit, fibkit
from harness.appkit import Session, enc, nm
from harness import strict_tlv as st
from harness.props import c03

FR_INVS = ['TypeOK', 'PrefixOfPackets', 'NoEarlyDelivery', 'ExactAtEnd', 'ReaderBehind']


# ------------------------------------------------------------------ framing executor
def run_stream(stream, events, keep=None):
    """Feed `stream` (bytes) to a real StreamFace.run according to events [{'a':'Feed','k':n}|{'a':'Eof'}].
    Returns the trace record for FramingTrace.  keep: a dict in which the face object survives from one stream to the
    next - the application's face is connected again after the connection ended (a new event loop, a new reader); the
    second stream must be framed on its own."""
    from ndn.transport.stream_face import StreamFace

    class TestFace(StreamFace):
        async def open(self):
            self.reader = aio.StreamReader()
            self.writer = None
            self.running = True

        async def isLocalFace(self):
            return True

    got = []
    out = []
    with Session() as s:
        face = keep.get('face') if keep is not None else None
        if face is None:
            face = TestFace()
        if keep is not None:
            keep['face'] = face

        async def cb(typ, buf):
            got.append((typ, bytes(buf)))
        face.callback = cb
        s.call(face.open())
        task = s.spawn(face.run())
        s.loop.settle()
        fed = 0

        def proj():
            dl = []
            off = 0
            for typ, buf in got:
                ok = stream[off:off + len(buf)] == buf
                dl.append({'typ': typ if ok else -1, 's': off + 1, 'e': off + len(buf)})
                off += len(buf)
            errs = len(s.loop.errors)
            return {'delivered': dl, 'running': bool(face.running) and not task.done(), 'errs': errs}
        for ev in events:
            pre = proj()
            if ev['a'] == 'Feed':
                face.reader.feed_data(stream[fed:fed + ev['k']])
                fed += ev['k']
            elif ev['a'] == 'Eof':
                face.reader.feed_eof()
            elif ev['a'] == 'FeedEof':
                # the rest of the stream and the end of stream arrive in the same loop iteration
                face.reader.feed_data(stream[fed:])
                fed = len(stream)
                face.reader.feed_eof()
            s.loop.settle()
            out.append(dict(ev, pre=pre))
        out.append({'a': 'End', 'pre': proj()})
        bad = None
        if task.done() and task.exception() is not None:
            bad = 'run() raised %s' % type(task.exception()).__name__
        if s.loop.errors:
            bad = 'background error %r' % (s.loop.errors[0].get('exception'),)
    return {'stream': list(stream), 'ev': out}, bad


def framing_judge(ctx, recs, tag):
    rej = judge.validate(ctx, 'FramingTrace', os.path.join(tlc.SPEC, 'FramingTrace.cfg'), recs, tag)
    for i, lno in rej:
        rec = recs[i]
        bad = rec['ev'][lno - 1] if 0 < lno <= len(rec['ev']) else None
        ctx.violation('C06/StreamFace/%s/delivered-or-running-differs' % (bad['a'] if bad else 'end'),
                      'framing trace rejected at event %d: %s' % (lno, json.dumps(bad)[:400]),
                      {'kind': 'framing', 'rec': rec, 'rejected_at': lno})


# ------------------------------------------------------------------ the real transports (loopback sockets, real event loop)
class NoSockets(Exception):
    pass


def run_real(kind, stream, chunk, ending):
    """UnixFace / TcpFace connected to an in-process server that writes `stream` in chunks of `chunk` bytes and then ends the
    connection: 'eof' = orderly close, 'reset' = abort (RST / connection lost with an error) after the last chunk.
    Only the final state is observable here (no control over when the reader runs), so the execution is judged as the
    reduced trace  FeedEof, End  (eof) of FramingTrace; after a reset whatever was buffered may be lost, so the trace is
    taken over the bytes of the packets that were delivered, plus the checks made here: run() returns, the face stops."""
    import tempfile
    from ndn.transport.stream_face import UnixFace, TcpFace
    got, errs = [], []

    async def main():
        async def cb(typ, buf):
            got.append((typ, bytes(buf)))

        async def serve(reader, writer):
            for i in range(0, len(stream), chunk):
                writer.write(stream[i:i + chunk])
                await writer.drain()
                await aio.sleep(0)
            if ending == 'reset':
                # SO_LINGER 0: the close sends RST (TCP) - the client's read fails with ConnectionResetError
                import socket, struct
                sock = writer.get_extra_info('socket')
                if kind == 'tcp' and sock is not None:
                    sock.setsockopt(socket.SOL_SOCKET, socket.SO_LINGER, struct.pack('ii', 1, 0))
                writer.transport.abort()
            else:
                writer.close()
        aio.get_running_loop().set_exception_handler(lambda loop, c: errs.append(c))
        try:
            if kind == 'unix':
                d = tempfile.mkdtemp(prefix='c06s', dir=tlc.BUILD)
                path = os.path.join(d, 's')
                srv = await aio.start_unix_server(serve, path)
                face = UnixFace(path)
            else:
                srv = await aio.start_server(serve, '127.0.0.1', 0)
                face = TcpFace('127.0.0.1', srv.sockets[0].getsockname()[1])
        except OSError as ex:
            raise NoSockets(str(ex))          # the harness' own server could not be set up: environment, not library
        face.callback = cb
        await face.open()
        res = 'returned'
        try:
            await aio.wait_for(face.run(), 20)
        except aio.TimeoutError:
            res = 'did-not-stop'
        except Exception as ex:  # noqa
            res = 'raised:' + type(ex).__name__
        for _ in range(5):
            await aio.sleep(0)          # the per-packet callback tasks
        srv.close()
        return res, bool(face.running)
    res, running = aio.run(main())
    base = stream if ending == 'eof' else b''.join(b for _, b in got)
    dl, off = [], 0
    for typ, buf in got:
        ok = base[off:off + len(buf)] == buf
        dl.append({'typ': typ if ok else -1, 's': off + 1, 'e': off + len(buf)})
        off += len(buf)
    first = {'a': 'FeedEof' if len(base) else 'Eof', 'pre': {'delivered': [], 'running': True, 'errs': 0}}
    rec = {'stream': list(base), 'ev': [first, {'a': 'End', 'pre': {'delivered': dl, 'running': running, 'errs': len(errs)}}],
           'real': {'kind': kind, 'chunk': chunk, 'ending': ending, 'stream': stream.hex()}}
    bad = None
    if res != 'returned':
        bad = 'run() %s' % res
    elif errs:
        bad = 'background error %r' % (errs[0].get('exception') or errs[0].get('message'),)
    elif ending == 'reset' and not stream.startswith(base):
        bad = 'delivered packets are not a prefix of the stream'
    return rec, bad


def real_transports(ctx):
    pk = [mk_pkt(6, 3), mk_pkt(5, 0), mk_pkt(100, 260, lform=3), mk_pkt(6, 1, tform=3), mk_pkt(0x64, 0), mk_pkt(6, 40, lform=5)]
    recs = []
    skipped = set()
    for kind in ('unix', 'tcp'):
        for n, (seqn, cut) in enumerate([((0, 1, 2), 0), ((1, 4), 0), ((2, 0), 2), ((3, 5, 0), 5), ((), 0), ((0,), 1),
                                         ((4, 4, 1), 0), ((5, 2, 3), 130)][:ctx.pick(5, 8)]):
            full = b''.join(pk[i] for i in seqn)
            stream = full[:len(full) - cut] if cut else full
            for chunk in ctx.pick((1, 7, 4096), (1, 2, 7, 64, 4096)):
                for ending in ('eof', 'reset'):
                    if kind in skipped:
                        continue
                    try:
                        rec, bad = run_real(kind, stream, chunk, ending)
                    except NoSockets as ex:
                        ctx.note('real transports: no loopback %s sockets in this environment (%s) - stage skipped' % (kind, ex))
                        ctx.assumptions.append('real-transport stage skipped for %s: no loopback sockets' % kind)
                        skipped.add(kind)
                        continue
                    ctx.traces += 1
                    ctx.evaluations += 1
                    ctx.nt(['real', kind, n, chunk, ending])
                    if bad:
                        ctx.violation('C06/%s/real-%s/%s' % ('UnixFace' if kind == 'unix' else 'TcpFace', ending, bad.split(' ')[0] + '-' + bad.split(' ')[1].split(':')[0]),
                                      '%s over a loopback socket, chunks of %d, %s: %s' % (kind, chunk, ending, bad),
                                      {'kind': 'framing', 'rec': rec})
                    recs.append(rec)
    framing_judge(ctx, recs, 'real')
    ctx.note('real transports: %d executions of UnixFace / TcpFace over loopback sockets judged by FramingTrace' % len(recs))


def mk_pkt(typ, vlen, tform=None, lform=None, fill=0xAB):
    def num(n, form):
        if form is None or form == 1 or form < st.var_size(n):
            return st.write_var(n)
        return bytes([{3: 0xFD, 5: 0xFE, 9: 0xFF}[form]]) + n.to_bytes(form - 1, 'big')
    return num(typ, tform) + num(vlen, lform) + bytes([(fill + i) % 256 for i in range(vlen)])


def framing(ctx):
    mp, mb, mv = ctx.pick((2, 8, 1), (3, 11, 1))
    if 'A' in ctx.stages:
        cfgp = os.path.join(tlc.BUILD, 'Framing_A.cfg')
        tlc.write_cfg(cfgp, constants={'MaxPkts': mp, 'MaxBytes': mb, 'MaxVal': mv}, invariants=FR_INVS,
                      properties=['Terminates'])
        r = tlc.run('Framing', cfgp, coverage=True, workers=ctx.pick(8, 16), timeout=3000)
        ctx.add_tlc('Framing exhaustive pkts<=%d bytes<=%d' % (mp, mb), r)
        if r.violated:
            ctx.violation('C06/spec/Framing/%s' % r.violated, 'TLC: %s violated in Framing' % r.violated, {'trace': r.errtrace})
        for a in ('Feed', 'Eof', 'FeedEof', 'ReadT1', 'ReadTrest', 'ReadL1', 'ReadLrest', 'ReadV', 'Stop'):
            if r.coverage.get(a, (0, 0))[1] == 0:
                raise tlc.MachineryError('vacuous: Framing action %s never taken' % a)
        wp = os.path.join(tlc.BUILD, 'Framing_w.cfg')
        ws = ['W_Trunc', 'W_Two', 'W_MidNumber']
        tlc.write_cfg(wp, constants={'MaxPkts': 2, 'MaxBytes': 8, 'MaxVal': 1}, invariants=ws)
        rw = tlc.run('Framing', wp, workers=4, heavy=False, extra=['-continue'])
        for w in ws:
            if ('Invariant %s is violated' % w) not in rw.out:
                raise tlc.MachineryError('witness %s not reachable' % w)
    recs = []
    if 'B' in ctx.stages:
        cfgp = os.path.join(tlc.BUILD, 'Framing_B.cfg')
        bp, bb = ctx.pick((2, 7), (2, 9))
        tlc.write_cfg(cfgp, constants={'MaxPkts': bp, 'MaxBytes': bb, 'MaxVal': 1}, invariants=[])
        g = graph.dump('Framing', cfgp, workers=ctx.pick(8, 16), tag='frB')
        ctx.add_tlc('Framing graph (%d edges)' % g.n_edges, g.tlc)
        paths = graph.edge_cover_paths(g, max_len=60, rng=ctx.rng)
        ctx.note('B framing: %d states, %d edges, %d cover paths' % (len(g.state), g.n_edges, len(paths)))
        seen = set()
        for init, path in paths:
            stream = bytes(tlaval.seq(g.state[init]['stream']))
            evs = []
            for act, args, _ in path:
                if act == 'Feed':
                    evs.append({'a': 'Feed', 'k': args[0]})
                elif act == 'Eof':
                    evs.append({'a': 'Eof'})
                elif act == 'FeedEof':
                    evs.append({'a': 'FeedEof'})
            key = (stream, tuple((e['a'], e.get('k')) for e in evs))
            if key in seen:
                continue
            seen.add(key)
            rec, bad = run_stream(stream, evs)
            recs.append(rec)
            if bad:
                ctx.violation('C06/StreamFace/run/internal-error', bad, {'kind': 'framing', 'rec': rec})
            if len(evs) >= 2:
                ctx.nt(['frB', stream.hex(), [e.get('k', 0) for e in evs]])
        ctx.sample({'kind': 'framing-chunking', 'stream': recs[-1]['stream'], 'chunks': [e.get('k', 'eof') for e in recs[-1]['ev']]}, limit=2)
    if 'C' in ctx.stages:
        # (i) every chunking x every truncation of short streams
        maxlen = ctx.pick(8, 10)
        shorts = [mk_pkt(5, 0) + mk_pkt(6, 2), mk_pkt(6, 1, tform=3) + mk_pkt(5, 1, lform=3), mk_pkt(300, 2) + mk_pkt(7, 0, lform=5),
                  mk_pkt(6, 3, lform=3), mk_pkt(100, 0, tform=5, lform=3)]
        for full in shorts:
            for cut in range(0, min(len(full), maxlen) + 1):
                stream = full[:cut]
                n = len(stream)
                for mask in range(1 << max(n - 1, 0)):
                    ks = []
                    run = 1
                    for b in range(n - 1):
                        if mask >> b & 1:
                            ks.append(run); run = 1
                        else:
                            run += 1
                    if n:
                        ks.append(run)
                    evs = [{'a': 'Feed', 'k': k} for k in ks] + [{'a': 'Eof'}]
                    if n and (mask + cut) % 2:
                        evs = [{'a': 'Feed', 'k': k} for k in ks[:-1]] + [{'a': 'FeedEof'}]
                    rec, bad = run_stream(stream, evs)
                    recs.append(rec)
                    if bad:
                        ctx.violation('C06/StreamFace/run/internal-error', bad, {'kind': 'framing', 'rec': rec})
                    if len(ks) >= 2:
                        ctx.nt(['frX', stream.hex(), ks])
        # (ii) random chunkings of long streams with real multi-byte lengths
        for _ in range(ctx.pick(150, 3000)):
            rng = ctx.rng
            pk = []
            for _ in range(rng.randint(1, 6)):
                vl = rng.choice([0, 1, 2, 5, 60, 252, 253, 254, 255, 256, 260])
                pk.append(mk_pkt(rng.choice([5, 6, 100, 253, 800, 65536]), vl, tform=rng.choice([None, None, 3, 5, 9]),
                                 lform=(rng.choice([None, None, 3, 5, 9]) if vl < 253 else rng.choice([None, 5, 9]))))
            full = b''.join(pk)[:600]
            stream = full[:rng.choice([len(full), len(full), rng.randint(0, len(full))])]
            evs = []
            left = len(stream)
            while left > 0:
                k = min(left, rng.choice([1, 1, 2, 3, 5, 8, 50, 252, 253, 300]))
                evs.append({'a': 'Feed', 'k': k}); left -= k
            if evs and rng.random() < 0.5:
                evs[-1] = {'a': 'FeedEof'}
            else:
                evs.append({'a': 'Eof'})
            # every fourth stream arrives on a face object that has carried the previous stream (connection ended -
            # possibly in the middle of a packet - and the face was opened again)
            nstream = getattr(framing, '_n', 0) + 1
            framing._n = nstream
            if nstream % 4 == 1:
                framing._keep = {}
            rec, bad = run_stream(stream, evs, keep=framing._keep if nstream % 4 in (1, 2) else None)
            recs.append(rec)
            if bad:
                ctx.violation('C06/StreamFace/run/internal-error', bad, {'kind': 'framing', 'rec': rec})
            ctx.nt(['frR', stream.hex()[:64], len(stream), [e.get('k', 0) for e in evs][:40]])
        # (iii) beyond the small scope: bursts - hundreds of complete packets sitting in the reader's buffer at once (one read
        # of a busy connection; readexactly never yields while data is buffered), alone, behind a trickle, with a cut tail
        for npk, mode in ctx.pick([(300, 'one'), (257, 'tail')], [(300, 'one'), (257, 'tail'), (256, 'one'), (1000, 'two'), (520, 'trickle')]):
            rng = ctx.rng
            pk = [mk_pkt(rng.choice([5, 6, 6, 100]), rng.choice([0, 1, 2, 3, 7])) for _ in range(npk)]
            full = b''.join(pk)
            if mode == 'one':
                stream, evs = full, [{'a': 'Feed', 'k': len(full)}, {'a': 'Eof'}]
            elif mode == 'tail':
                stream = full + mk_pkt(6, 40)[:17]
                evs = [{'a': 'FeedEof'}]
            elif mode == 'two':
                h = len(b''.join(pk[:npk // 2])) + 1
                stream, evs = full, [{'a': 'Feed', 'k': h}, {'a': 'Feed', 'k': len(full) - h}, {'a': 'Eof'}]
            else:
                stream = full
                evs = [{'a': 'Feed', 'k': 1}] * 9 + [{'a': 'Feed', 'k': len(full) - 9}, {'a': 'Eof'}]
            rec, bad = run_stream(stream, evs)
            recs.append(rec)
            if bad:
                ctx.violation('C06/StreamFace/run/internal-error', bad, {'kind': 'framing', 'rec': {'ev': rec['ev'][-1:]}})
            ctx.nt(['frB', npk, mode])
    if recs:
        ctx.traces += len(recs)
        ctx.evaluations += len(recs)
        framing_judge(ctx, recs, 'framing-%s' % ctx.tier)


# ------------------------------------------------------------------ junk corpus
UNIVERSE_DATA = [(['a'], 11), (['a', 'b'], 21), (['a', 'b', 'c'], 31)]


def wellformed_strict(w):
    """Very small structural check (strict reader): one outer element, children inside parents for the
    containers of Interest / Data / LpPacket."""
    try:
        top = st.read_tlv(w)
        if len(top) != 1:
            return False
        cont = {0x05: {0x07: {}, 0x1e: {0x07: {}}, 0x2c: {0x1c: {0x07: {}}}}, 0x06: {0x07: {}, 0x14: {}, 0x16: {0x1c: {0x07: {}}}},
                0x64: {0x0320: {}}}
        st.read_tlv(w, containers=cont)
        return True
    except st.TlvError:
        return False


def build_corpus(rng, n_random):
    seeds = []
    from ndn.security.signer import DigestSha256Signer
    seeds.append(bytes(enc.make_interest('/zz/i', enc.InterestParam(lifetime=1000, nonce=7))))
    seeds.append(bytes(enc.make_interest('/zz/p', enc.InterestParam(lifetime=1000, nonce=8, can_be_prefix=True), b'param', signer=DigestSha256Signer())))
    seeds.append(bytes(enc.make_data('/zz/d', enc.MetaInfo(content_type=0, freshness_period=1000), b'content', signer=DigestSha256Signer())))
    seeds.append(bytes(enc.make_network_nack(seeds[0], 150)))
    seeds.append(pitkit.lp_wrap(seeds[2], token=b'\x01\x02\x03\x04'))
    seeds.append(pitkit.lp_wrap(seeds[0], extra=True))
    # packets with the nested structures the decoders know: key locator (name), forwarding hint, hop limit, final block id,
    # content type, a certificate (validity period), a link-layer envelope with CachePolicy / NonDiscovery
    from ndn.security.signer import HmacSha256Signer
    hm = HmacSha256Signer('/zz/KEY/k1', b'0123456789abcdef')
    seeds.append(bytes(enc.make_interest('/zz/q', enc.InterestParam(lifetime=2000, nonce=9, hop_limit=3, must_be_fresh=True,
                                                                     forwarding_hint=[enc.Name.from_str('/zz/hint')]),
                                         b'pp', signer=hm)))
    seeds.append(bytes(enc.make_data('/zz/e/seg=3', enc.MetaInfo(content_type=2, freshness_period=10,
                                                                  final_block_id=enc.Component.from_segment(3)),
                                     b'key bits', signer=hm)))
    try:
        from ndn.app_support.security_v2 import self_sign
        seeds.append(bytes(self_sign(enc.Name.from_str('/zz/KEY/k2'), b'0' * 32, hm)[1]))
    except Exception:  # noqa  - a changed tree may not be able to issue it; the other seeds remain
        pass
    seeds.append(pitkit.lp_wrap(seeds[-2], extra=True, token=b'\x05'))
    corpus = {}

    class _Add:
        def __init__(self, cls):
            self.cls = cls

        def add(self, b):
            corpus.setdefault(bytes(b), self.cls)

        def update(self, bs):
            for b in bs:
                self.add(b)
    sub, trunc, refr, odd, fragc, addr, rnd, lpo, nackd = (_Add(c) for c in ('mut-sub', 'mut-trunc', 'mut-reframed', 'odd', 'frag', 'addr-malformed', 'random', 'lp-overrun', 'nack-around-data'))
    addri, addrn = _Add('addr-malformed-interest'), _Add('addr-nack-malformed')
    for s in seeds:
        for i in range(len(s)):
            for x in (0x01, 0x80, 0xFF):
                m = bytearray(s); m[i] ^= x
                sub.add(bytes(m))
        for cut in range(0, len(s)):
            trunc.add(s[:cut])                                    # truncated, outer length now inconsistent
            if cut >= 2:
                try:
                    t, ts = st.parse_var(s)
                    refr.add(st.write_var(t) + st.write_var(max(cut - 2, 0)) + s[2:cut])   # truncated with re-framed outer TL
                except st.TlvError:
                    pass
    # structural oddities
    d0 = bytes(enc.make_data('/zz/d', enc.MetaInfo(), b'x'))
    odd.update([bytes.fromhex(h) for h in ('6400', '640350017f', '64025000', '0500', '0600', '050207' + '00', '0602' + '0700',
                                              '0a0102', 'fd0320' + '00', '64' + '06' + '5001' + '06' + '5001' + '05', 'ff', 'fe', 'fd00')])
    odd.add(pitkit.lp_wrap(None, nack_reason=150))               # Nack header, no fragment
    # the root name (a Name element without components) and a name that is nothing but an implicit digest: bare, in an
    # envelope and under a Nack header (seed round 6: the Nack path indexed the last component of an empty name)
    root_i = bytes.fromhex('050807000a0400000001')
    dig_i = bytes.fromhex('05280722' + '0120' + '11' * 32 + '0a0400000002')
    for w in (bytes.fromhex('05020700'), root_i, dig_i, bytes.fromhex('06020700'), bytes.fromhex('0605070015' + '0178')):
        odd.add(w)
        odd.add(pitkit.lp_wrap(w, extra=True))
        odd.add(pitkit.lp_wrap(w, nack_reason=150))
        odd.add(pitkit.lp_wrap(w, nack_reason=0, extra=True))
    fragc.add(pitkit.lp_wrap(d0, frag=(0, 2)))                     # fragment 0 of 2
    odd.add(pitkit.lp_wrap(d0, nack_reason=150))                 # Nack carrying a Data
    odd.add(pitkit.lp_wrap(b'\x05', extra=True))                 # truncated fragment
    # packets that DO address the universe names but are fragments or structurally malformed
    for comps, did in UNIVERSE_DATA:
        w = bytes(enc.make_data(nm(comps), enc.MetaInfo(), b'D%d' % did))
        fragc.add(pitkit.lp_wrap(w, frag=(0, 1)))
        fragc.add(pitkit.lp_wrap(w, frag=(1, 2), extra=True))
        fragc.add(pitkit.lp_wrap(w, frag=(0, 2), odd=True))         # with a Sequence field in front, NDNLPv2 order
        nackd.add(pitkit.lp_wrap(w, nack_reason=150))                # a Nack header around a *Data* packet somebody waits for
        nackd.add(pitkit.lp_wrap(w, nack_reason=0, extra=True))
        # LpPacket whose Fragment announces more bytes than the packet holds (structurally malformed envelope)
        lpo.add(bytes([0x64]) + st.write_var(len(w) + 2) + bytes([0x50]) + st.write_var(len(w) + 7) + w)
        for i in range(1, len(w)):
            for delta in (1, 0x7F):
                m = bytearray(w); m[i] = (m[i] + delta) % 256
                if not wellformed_strict(bytes(m)):
                    addr.add(bytes(m))
        for cut in range(2, len(w)):
            m = w[:cut]
            if not wellformed_strict(m):
                addr.add(m)
    # Interests that DO name something pending / attached, with an intact Name and ill-formed behind it: bare they must not
    # reach a handler, under a Nack header they must not fail the Interest pending under that name (seed round 8: the
    # legacy Nack path decoded the Name only). Ill-formed = rejected by the strict reader, or an unknown critical element
    for comps in pc.NAMES:
        for w in (bytes(enc.make_interest(nm(comps), enc.InterestParam(lifetime=1000, nonce=0x01020304))),
                  bytes(enc.make_interest(nm(comps), enc.InterestParam(lifetime=2000, nonce=5, can_be_prefix=True, hop_limit=9)))):
            # position of the first octet behind the Name element
            t, ts = st.parse_var(w)
            l, ls = st.parse_var(w[ts:])
            o = ts + ls
            nt_, nts = st.parse_var(w[o:])
            nl, nls = st.parse_var(w[o + nts:])
            name_end = o + nts + nls + nl
            muts = []
            for i in range(name_end, len(w)):
                for delta in (1, 0x7F):
                    m = bytearray(w); m[i] = (m[i] + delta) % 256
                    muts.append(bytes(m))
            # unknown critical elements (odd type numbers below 32 are critical) in place of / behind the known ones
            muts.append(w[:1] + st.write_var(len(w) - 2 + 3) + w[2:] + bytes([0x0b, 0x01, 0x00]))
            muts.append(w[:1] + st.write_var(len(w) - 2 + 2) + w[2:] + bytes([0x1f, 0x00]))
            for cut in range(name_end + 1, len(w)):
                muts.append(w[:1] + st.write_var(cut - 2) + w[2:cut])          # cut inside a field, outer length consistent
            for m in muts:
                crit = m.endswith(bytes([0x0b, 0x01, 0x00])) or m.endswith(bytes([0x1f, 0x00]))
                if crit or not wellformed_strict(m):
                    addri.add(m)
                    addrn.add(pitkit.lp_wrap(m, nack_reason=150))
                    addrn.add(pitkit.lp_wrap(m, nack_reason=0, extra=True))
    for _ in range(n_random):
        rnd.add(bytes(rng.randrange(256) for _ in range(rng.choice([1, 2, 3, 5, 8, 20, 60]))))
    corpus.pop(b'', None)
    return sorted(corpus.items())


def robustness(ctx):
    rng = ctx.rng
    corpus = build_corpus(rng, ctx.pick(300, 5000))
    ctx.note('junk corpus: %d byte strings' % len(corpus))
    ctx.extra['junk_corpus'] = len(corpus)
    it = itertools.cycle(range(len(corpus)))
    used = set()

    def junk(_rng):
        k = next(it)
        used.add(k)
        return corpus[k][0].hex(), corpus[k][1]
    if 'A' in ctx.stages:
        # RecvJunk is enabled in every reachable pipeline state and changes nothing (JunkInert), checked by TLC
        pc.stage_a(ctx, [('v2 pit + junk', pc.mc_cfg('pit-A6', 'v2', 2, 2, 'small', 'v2two'))])
        fc.stage_a(ctx, [('v2 fib + junk', fc.mc_cfg('fib-A6', 'v2', 'small', 'small', 'v2two', 2, 1, 2, vals='both', reps=1))],
                   required=('RecvJunk', 'RecvInterest'))
    if 'C' in ctx.stages or 'B' in ctx.stages:
        n = ctx.pick(250, 3000)
        # every corpus entry is delivered at least once: the number of junk events per run is sized accordingly
        per = max(6, (len(corpus) // (4 * n)) + 1)
        for front in ('v2', 'legacy'):
            pc.stage_c(ctx, front, n, 30 + per, devs=c03.DEVS[front], report_devs=False, junk=junk,
                       weights=dict(RecvJunk=10 + per, Express=5, RecvData=4, ValFinish=4, Time=5, RecvNack=1, Cancel=0.5, Shutdown=0.05))
            fc.stage_c(ctx, front, n, 30 + per, junk=junk, names=fc.NAMES[1:],
                       weights=dict(RecvJunk=10 + per, Attach=3, RecvInterest=6, IntValFinish=4, Reply=2, Tick=2, Shutdown=0.05))
        ctx.extra['junk_delivered_distinct'] = len(used)
    udp(ctx, [w for w, _ in corpus])


def udp(ctx, corpus):
    """The datagram face's protocol object gets the same strings (incl. an empty datagram)."""
    from ndn.transport.udp_face import UdpFace
    n_bad = 0
    with Session() as s:
        face = UdpFace('127.0.0.1', 6363)
        got = []

        async def cb(typ, data):
            got.append(typ)
        face.callback = cb

        class FakeTransport:
            def sendto(self, d): pass
            def close(self): pass

        async def fake_endpoint(factory, remote_addr=None, **kw):
            p = factory()
            t = FakeTransport()
            p.connection_made(t)
            return t, p
        s.loop.create_datagram_endpoint = fake_endpoint
        s.call(face.open())
        for w in [b''] + corpus:
            try:
                face.handler.datagram_received(w, ('127.0.0.1', 6363))
            except Exception as ex:  # noqa
                n_bad += 1
                ctx.violation('C06/UdpFace/datagram_received/raised:%s' % type(ex).__name__,
                              'datagram_received raised %r on %s' % (ex, w.hex()[:60]), {'hex': w.hex()})
            s.loop.settle()
            ctx.evaluations += 1
        if s.loop.errors:
            ctx.violation('C06/UdpFace/background-error', repr(s.loop.errors[0])[:300], {})


def run(ctx):
    ctx.rule = ('framing: TLC exhaustive over all packet sequences/number forms/truncations with all chunkings as Feed '
                'interleavings; its transition cover, every chunking x truncation of short streams and random chunkings of '
                'long streams executed on the real StreamFace.run and judged by FramingTrace; robustness: a mutation corpus '
                '(single-byte edits, truncations with/without consistent framing, structural oddities, fragments, random bytes) '
                'delivered in random pipeline states of both front-ends (NdnPit / NdnFib RecvJunk) and to the datagram handler. '
                'non-trivial = distinct (stream, chunking) with >=2 chunks, or distinct schedule with junk and >=3 events')
    ctx.assumptions = ['virtual-time loop; real asyncio.StreamReader', 'loopback sockets (AF_UNIX, 127.0.0.1) are available for the real-transport stage', 'junk seeds name /zz/... which no schedule expresses or attaches',
                       'mutants of addressed packets are used only when the strict reader finds them structurally malformed']
    framing(ctx)
    if 'B' in ctx.stages:
        real_transports(ctx)
    robustness(ctx)


def replay(ctx, path):
    with open(path) as f:
        obj = json.load(f)
    if obj.get('kind') == 'framing':
        rec = obj['rec']
        evs = [{k: v for k, v in e.items() if k != 'pre'} for e in rec['ev'] if e['a'] != 'End']
        if 'real' in rec:
            r = rec['real']
            rec2, bad = run_real(r['kind'], bytes.fromhex(r['stream']), r['chunk'], r['ending'])
        else:
            rec2, bad = run_stream(bytes(rec['stream']), evs)
        rej = judge.validate(ctx, 'FramingTrace', os.path.join(tlc.SPEC, 'FramingTrace.cfg'), [rec2], 'replay')
        print('re-executed: %s %s' % ('REJECTED' if rej or bad else 'accepted', bad or ''))
        return 1 if rej or bad else 0
    return c03.replay(ctx, path) if 'templates' in obj.get('rec', {}) else __import__('harness.props.c04', fromlist=['x']).replay(ctx, path)
