"""C20 - client configuration: environment over first existing configuration file over platform default.

Spec: ClientConf.tla (reference Resolve / FaceOf + the clauses of the statement), ClientConfMC.tla
(the product of configuration sources as initial states), ClientConfJudge.tla.

A  TLC enumerates the product (Mode=conf) and the transport URIs (Mode=face); the clauses of the
   statement are invariants on the layered (implementation-shaped) reference; Witnesses = vacuity.
B  spec -> code: every enumerated state is materialised - candidate files with present / absent /
   commented keys or written as a 0-byte / whitespace-and-comments-only file, NDN_CLIENT_* variables, store directories of every location class, a Platform
   (candidates that exist but are not readable files are materialised as DIRECTORIES of that name; variables are unset /
   set / set to the empty string; keys may be written "key=" with no value)
   subclass whose ordered path lists point into the scratch tree - then read_client_conf,
   default_keychain and default_face are called and their projection is compared with the state's `out`.
   Platform selection runs through the library's own dispatch (singleton not pre-injected) for sys.platform = linux /
   unsupported, and the Linux default transport with the new / old NFD socket path existing or not (kind "plat").
   The real Linux platform lists are compared with their documented values under a patched HOME (given directly and
   through a symbolic link).
   WHAT KIND OF FILE-SYSTEM OBJECT stands at each path is part of the configuration (ClientConf: kind / ghost / cdir /
   cwd / sobj / smiss / rel, location classes relT / relB): candidates that are symbolic links to a file kept in another
   directory (relative stores next to the link, next to the target, or both), links to directories, sockets, dangling
   links and link loops; candidate directories and the working directory reached through links; store locations that
   are directories, links to directories, regular files, dangling links; relative locations spelled with ./ ../ nested.
C  code -> spec: random larger configurations (up to 6 candidate files, any existence subset, each a file or a
   directory, variables unset / set / empty, independent key states (incl. empty values) and location classes, several default locations, file syntax variants) and random transport
   URIs; the recorded observations are judged by TLC (ClientConfJudge).
"""
import json, os, shutil, tempfile, time

from harness import tlc, urikit

SETTINGS = ('transport', 'pib', 'tpm')
STORES = ('pib', 'tpm')
VALID = {'pib': 'pib-sqlite3', 'tpm': 'tpm-file'}
ENVVAR = {s: 'NDN_CLIENT_' + s.upper() for s in SETTINGS}
INVS = ['I_Precedence', 'I_FirstFile', 'I_AsGiven', 'I_NextToFile', 'I_FallBack', 'I_Determined', 'I_Content', 'I_Values',
        'I_Empty', 'I_Unreadable', 'I_Objects', 'I_Plat', 'I_Face']
READABLE = ('file', 'link')             # ClientConf: ReadableKinds
REL_CLASSES = ('relE', 'relM', 'relCwd', 'relOther', 'relT', 'relB')
EMPTY = {'k': 'empty', 'i': 0}          # the value used is the empty string (ClientConf: Src("empty", 0))


def norm_cfg(c):
    """configuration in the current vocabulary (replay objects written before the kind / empty dimensions existed)"""
    c = dict(c)
    c['env'] = {s: ('set' if v is True else 'unset' if v is False else v) for s, v in c['env'].items()}
    c.setdefault('kind', ['file'] * c['n'])
    c.setdefault('ghost', ['none'] * c['n'])
    c.setdefault('cdir', ['plain'] * c['n'])
    c.setdefault('cwd', 'plain')
    c.setdefault('sobj', {s: 'dir' for s in STORES})
    c.setdefault('smiss', {s: 'absent' for s in STORES})
    c.setdefault('rel', {s: 'std' for s in STORES})
    return c


def first_existing(c):
    return min(c['exist']) if c['exist'] else 0


def unreadable_first(c):
    f = first_existing(c)
    return bool(f) and c['kind'][f - 1] not in READABLE
JUDGE_CFG = 'ClientConfJudge.cfg'


def srcname(src):
    return 'env' if src['k'] == 'env' else 'f%d' % src['i'] if src['k'] == 'file' else 'def'


class World:
    """A scratch tree + injected Platform in which configurations are materialised one after another."""

    def __init__(self):
        from ndn.platform import Platform
        from ndn.platform.linux import Linux
        from ndn.security import KeychainSqlite3
        self.Platform = Platform
        # transient scratch tree, removed in close(); tmpfs when available (mkdir/rmdir on the disk holding build/
        # cost ~1 ms each here, 80x more than on tmpfs); nothing persists or is needed by a later command
        shm = '/dev/shm'
        base = shm if os.path.isdir(shm) and os.access(shm, os.W_OK) else tlc.BUILD
        self.root = tempfile.mkdtemp(prefix='verif-c20-', dir=base)
        self.template = os.path.join(self.root, 'template-pib.db')
        KeychainSqlite3.initialize(self.template, 'tpm-file', os.path.join(self.root, 'template-tpm'))
        self.work = os.path.join(self.root, 'w')
        self.saved_env = {v: os.environ.get(v) for v in ENVVAR.values()}
        self.saved_cwd = os.getcwd()
        self.saved_inst = Platform._instance
        world = self

        class ScratchPlatform(Linux):
            def client_conf_paths(self):
                return list(world.cand)

            def default_transport(self):
                return world.def_transport

            def default_pib_paths(self):
                return list(world.defpaths['pib'])

            def default_tpm_paths(self):
                return list(world.defpaths['tpm'])
        Platform._instance = object.__new__(ScratchPlatform)
        self.cand, self.defpaths, self.def_transport = [], {'pib': [], 'tpm': []}, ''

    def close(self):
        self.Platform._instance = self.saved_inst
        os.chdir(self.saved_cwd)
        for k, v in self.saved_env.items():
            if v is None:
                os.environ.pop(k, None)
            else:
                os.environ[k] = v
        shutil.rmtree(self.root, ignore_errors=True)

    def anon(self, res):
        """result dict with the (run-dependent) scratch root replaced, for evidence samples"""
        return {k: str(v).replace(self.work, '<tree>') for k, v in res.items()} if isinstance(res, dict) else res

    # -- values of the sources
    val = 'plain'           # value alphabet of the configuration being materialised (ClientConf: c.val)

    def transport_value(self, src):
        pct = self.val == 'pct'             # IPv6 zone identifier: a '%' inside the value
        if src['k'] == 'env':
            return 'tcp://[fe80::1%25eth0]:7001' if pct else 'tcp://envhost:7001'
        if src['k'] == 'file':
            return 'udp://[fe80::%%25f%d]' % src['i'] if pct else 'udp://file%dhost' % src['i']
        return self.def_transport

    def store_name(self, s, src):
        nm = '%s-%s' % (s, srcname(src))
        return {'pct': 'p%41%zz-' + nm, 'punct': 'a =b #1 ;c-' + nm}.get(self.val, nm)

    def foreign(self, s, src):
        return s == 'tpm' and self.val == 'foreigntpm' and src['k'] != 'def'

    def given_loc(self, s, src, lc):
        nm = self.store_name(s, src)
        if lc == 'none' or self.foreign(s, src):
            return ''
        if lc in ('absE', 'absM'):
            return os.path.join(self.work, 'abs', nm)
        if lc == 'absEc':
            return os.path.join(self.work, 'abs', 'c:' + nm)
        # relative: a bare name from the environment, a name with a directory part from a file; spelled as c.rel says
        d, base = ('', 'rel-' + nm) if src['k'] == 'env' else ('d/', 'rel-' + nm)
        return {'std': d + base, 'dot': './' + d + base, 'dotdot': '../' + d + base,
                'deep': 'up/../' + d + './' + base}[self.rel.get(s, 'std')]

    def store_value(self, s, src, lc):
        if src['k'] == 'def':
            return VALID[s]
        if self.foreign(s, src):
            return 'tpm-osxkeychain:' if src['k'] == 'env' else 'tpm-cng:'     # private-key stores of other platforms
        if lc == 'none':
            return '%s-x-%s' % (s, srcname(src))          # a scheme of its own, no location
        return '%s:%s' % (VALID[s], self.given_loc(s, src, lc))

    def sources(self, c, s):
        out = []
        """the sources that carry a (non-empty, recognisable) value for setting s"""
        if c['env'][s] == 'set':
            out.append({'k': 'env', 'i': 0})
        for i in sorted(c['exist']):
            if c['key'][i - 1][s] == 'present' and c['kind'][i - 1] in READABLE:
                out.append({'k': 'file', 'i': i})
        return out

    # -- file-system objects
    def mkstore(self, s, path):
        """an EXISTING store location: the kind of object c.sobj says"""
        if os.path.lexists(path):
            return
        obj = self.sobj[s]
        os.makedirs(os.path.dirname(path), exist_ok=True)
        if obj == 'file':                       # exists, though nothing could be stored in it
            open(path, 'w').close()
            return
        real = path
        if obj == 'link':                       # the directory is kept elsewhere, the location is a link to it
            self.nobj += 1
            real = os.path.join(self.work, 'objs', 'o%d' % self.nobj, os.path.basename(path))
        os.makedirs(real, exist_ok=True)
        if s == 'pib':
            shutil.copyfile(self.template, os.path.join(real, 'pib.db'))
            # a store made by `pyndnsec Init-Pib --path X` has its key files next to the database (X/ndnsec-key-file):
            # what lies INSIDE a location in use is not a candidate for another setting
            os.makedirs(os.path.join(real, 'ndnsec-key-file'), exist_ok=True)
        if obj == 'link':
            os.symlink(real, path)

    def mkmissing(self, s, path):
        """a MISSING store location: nothing there, or (c.smiss) a symbolic link whose target is gone"""
        if self.smiss[s] == 'dangling' and not os.path.lexists(path) and os.path.isdir(os.path.dirname(path)):
            os.symlink(os.path.join(self.work, 'gone', os.path.basename(path)), path)

    def place(self, s, base, g, exists):
        """what the configuration puts where location g is looked up from directory base"""
        if g.startswith('up/'):
            os.makedirs(os.path.join(base, 'up'), exist_ok=True)
        elif not exists and self.smiss[s] == 'dangling':
            os.makedirs(os.path.dirname(os.path.join(base, g)), exist_ok=True)
        (self.mkstore if exists else self.mkmissing)(s, os.path.join(base, g))

    def canddir(self, i, c):
        """directory of candidate i, created on first use: a real directory, or reached through a symbolic link"""
        d = os.path.dirname(self.cand[i - 1])
        if not os.path.lexists(d):
            if c['cdir'][i - 1] == 'link':
                real = os.path.join(self.work, 'cdirs', 'c%d' % i, 'ndn-real')
                os.makedirs(real)
                os.makedirs(os.path.dirname(d), exist_ok=True)
                os.symlink(real if i % 2 else os.path.join('..', 'cdirs', 'c%d' % i, 'ndn-real'), d)
            else:
                os.makedirs(d)
        return d

    def target(self, i):
        """where the text of candidate i is kept when the candidate is a symbolic link to a file: another directory"""
        return os.path.join(self.work, 'tgt%d' % i, 'conf', 'client.conf')

    def mkcandidate(self, c, i, style):
        """the object at the path of an existing candidate i (c.kind)"""
        p, kind = self.cand[i - 1], c['kind'][i - 1]
        d = self.canddir(i, c)
        tgt = self.target(i)
        if kind == 'dir':
            # exists, but open() fails (EISDIR): the portable "exists and cannot be read" (we run as root, so
            # mode 000 would not stop open())
            os.makedirs(p)
        elif kind == 'linkdir':                 # a link to a directory: exists, open() fails the same way
            os.makedirs(os.path.dirname(tgt), exist_ok=True)
            os.symlink(os.path.dirname(tgt), p)
        elif kind == 'sock':                    # a unix socket: exists, open() fails with ENXIO
            import socket
            sk = socket.socket(socket.AF_UNIX, socket.SOCK_STREAM)
            try:
                sk.bind(p)
            except OSError as e:
                raise tlc.MachineryError('cannot create a unix socket at %s: %s' % (p, e))
            finally:
                sk.close()
        else:
            real = p
            if kind == 'link':                  # absolute link for odd i, relative (to the real directory) for even i
                os.makedirs(os.path.dirname(tgt), exist_ok=True)
                os.symlink(tgt if i % 2 else os.path.relpath(tgt, os.path.realpath(d)), p)
                real = tgt
            with open(real, 'w') as f:
                f.write(self.file_text(c, i, style))

    def mkghost(self, c, i):
        """a candidate path that does not exist, with something standing there (c.ghost)"""
        g = c['ghost'][i - 1]
        if g == 'none':
            return
        self.canddir(i, c)
        os.symlink(os.path.join(self.work, 'tgt%d' % i, 'gone', 'client.conf') if g == 'dangling' else 'client.conf',
                   self.cand[i - 1])

    def materialise(self, c, style=None):
        """c: configuration (exist = list, key = list of dicts, env/loc/defx dicts). style: file syntax choices."""
        c = norm_cfg(c) if 'rel' not in c else c
        self.val = c.get('val', 'plain')
        self.rel, self.sobj, self.smiss, self.nobj, self.cdirs = c['rel'], c['sobj'], c['smiss'], 0, {}
        self.anylink = 'link' in c['cdir']
        os.chdir(self.root)
        shutil.rmtree(self.work, ignore_errors=True)
        cwd = os.path.join(self.work, 'cwd')
        if c['cwd'] == 'link':                  # the working directory is entered through a symbolic link to it
            os.makedirs(os.path.join(self.work, 'real', 'deep', 'cwd-real'))
            os.symlink(os.path.join(self.work, 'real', 'deep', 'cwd-real'), cwd)
        else:
            os.makedirs(cwd)
        os.chdir(cwd)
        n = c['n']
        self.cand = [os.path.join(self.work, 'cand%d' % i, 'ndn', 'client.conf') for i in range(1, n + 1)]
        self.def_transport = 'unix://' + os.path.join(self.work, 'run', 'nfd.sock')
        self.defpaths = {s: [os.path.join(self.work, 'def-%s-%d' % (s, j + 1)) for j in range(len(c['defx'][s]))]
                         for s in STORES}
        exist = sorted(c['exist'])
        first = exist[0] if exist else 0
        for i in range(1, n + 1):
            if i in exist:
                self.mkcandidate(c, i, style)
            else:
                self.mkghost(c, i)
        for s in STORES:
            for j, b in enumerate(c['defx'][s]):
                (self.mkstore if b else self.mkmissing)(s, self.defpaths[s][j])
            lc = c['loc'][s]
            for src in self.sources(c, s):
                g = self.given_loc(s, src, lc)
                if not g:
                    continue
                if lc not in REL_CLASSES:
                    self.place(s, '/', g, lc in ('absE', 'absEc'))
                    continue
                self.place(s, cwd, g, lc == 'relCwd')                   # as given = from the working directory
                if first and lc != 'relCwd':
                    self.place(s, self.canddir(first, c), g, lc in ('relE', 'relB'))    # next to THE configuration file
                    if lc in ('relT', 'relB') and c['kind'][first - 1] == 'link':
                        self.place(s, os.path.dirname(self.target(first)), g, True)      # next to the link's target
                if lc == 'relOther':
                    other = n if first != n else 1
                    if other != first:
                        self.place(s, self.canddir(other, c), g, True)
        for s in SETTINGS:
            if c['env'][s] == 'set':
                src = {'k': 'env', 'i': 0}
                os.environ[ENVVAR[s]] = self.transport_value(src) if s == 'transport' else self.store_value(s, src, c['loc'][s])
            elif c['env'][s] == 'empty':
                os.environ[ENVVAR[s]] = ''                  # present, and empty
            else:
                os.environ.pop(ENVVAR[s], None)

    def conf_dirs(self, i):
        """the names under which "the directory of candidate i" may be given: as listed, or its canonical path"""
        if i not in self.cdirs:
            d = os.path.dirname(self.cand[i])
            r = os.path.realpath(d) if self.anylink else d
            self.cdirs[i] = (d,) if r == d else (d, r)
        return self.cdirs[i]

    @staticmethod
    def same_location(loc, want):
        """loc names the location `want`: the same string, or the same after removing '.' / 'x/..' when that does not
        change what the path reaches"""
        if loc == want:
            return True
        if os.path.normpath(loc) != os.path.normpath(want):
            return False
        return not os.path.exists(want) or (os.path.exists(loc) and os.path.samefile(loc, want))

    def file_text(self, c, i, style):
        st = style or {}
        body = (c.get('body') or ['plain'] * c['n'])[i - 1]
        if body == 'empty':
            return ''                                       # exists, 0 bytes
        blank = body == 'blank'                             # whitespace and comment lines only
        lines = ['', '   ', '\t'] if blank else ['; client configuration %d' % i, '']
        if blank and (i % 2 or st.get('blank')):
            lines.insert(1, '# nothing configured here')
        order = st.get('order', SETTINGS)
        for k, s in enumerate(order):
            state = c['key'][i - 1][s]
            if state == 'absent':
                continue
            src = {'k': 'file', 'i': i}
            val = self.transport_value(src) if s == 'transport' else self.store_value(s, src, c['loc'][s])
            if state == 'emptyval':
                val = ''                                    # "key=": the key is in the file, its value is empty
            eq = st.get('eq', '=')
            line = '%s%s%s' % (s, eq, val)
            if state == 'commented':
                line = (st.get('comment') or (';', '#', '; ')[(i + k) % 3]) + line
            lines.append(line)
            if st.get('blank'):
                lines.append('')
        for extra in st.get('extra', ()):
            if not blank or extra[1].lstrip()[:1] in ('', ';', '#'):
                lines.insert(min(len(lines), extra[0]), extra[1])
        return '\n'.join(lines) + ('\n' if st.get('newline', True) else '')

    # -- projection of what the library returns
    def observe(self, c):
        from ndn import client_conf as cc
        from ndn.security import KeychainSqlite3, TpmFile
        from ndn.transport.stream_face import UnixFace, TcpFace
        from ndn.transport.udp_face import UdpFace
        try:
            res = cc.read_client_conf()
        except OSError as e:
            # a refusal the reference knows (ClientConf: Refused); whether it is the expected outcome is the spec's call
            return {'err': 'oserror'}, 'read_client_conf raised %s: %s' % (type(e).__name__, e), type(e).__name__
        except Exception as e:  # noqa
            return {'err': 'raised-' + type(e).__name__}, 'read_client_conf raised %s: %s' % (type(e).__name__, e), type(e).__name__
        if not isinstance(res, dict) or set(res) != set(SETTINGS):
            return {'err': 'raised-shape'}, 'read_client_conf returned %r' % (res,), 'shape'
        obs = {'err': 'none'}
        tv = {self.transport_value(src): src for src in self.sources(c, 'transport') + [{'k': 'def', 'i': 0}]}
        tv[''] = EMPTY
        obs['transport'] = tv.get(res['transport'], {'k': 'other', 'i': 0})
        first = min(c['exist']) if c['exist'] else 0
        locs = {}
        for s in STORES:
            val = res[s]
            scheme, _, loc = val.partition(':')
            locs[s] = (scheme, loc)
            cands = [src for src in self.sources(c, s) + [{'k': 'def', 'i': 0}]
                     if self.store_value(s, src, c['loc'][s]).partition(':')[0] == scheme]
            marked = [src for src in cands if src['k'] != 'def' and c['loc'][s] != 'none'
                      and os.path.basename(loc) in (self.store_name(s, src), 'c:' + self.store_name(s, src),
                                                    'rel-' + self.store_name(s, src))]
            if scheme == '':
                src = EMPTY                             # the value used was the empty string: no scheme at all
            elif len(marked) == 1:
                src = marked[0]
            elif len(cands) == 1:
                src = cands[0]
            elif not cands:
                src = {'k': 'other', 'i': 0}
            else:
                src = {'k': 'unknown', 'i': 0}
            where, idx = 'other', 0
            if ':' not in val:
                where = 'malformed'
            elif loc == '':
                where = 'empty'
            elif loc in self.defpaths[s]:
                where, idx = 'default', self.defpaths[s].index(loc) + 1
            else:
                for x in self.sources(c, s):
                    g = self.given_loc(s, x, c['loc'][s])
                    if g and loc == g:
                        where = 'given'
                        break
                    hit = [i + 1 for i in range(len(self.cand))
                           if g and any(self.same_location(loc, os.path.join(d, g)) for d in self.conf_dirs(i))]
                    if hit:
                        where, idx = 'nexttofile', hit[0]
                        break
            obs[s] = {'src': src, 'where': where, 'idx': idx}
        # keychain
        bogus = any(locs[s][0] != VALID[s] for s in STORES)
        pibdb = os.path.join(locs['pib'][1], 'pib.db')
        if bogus or os.path.isfile(pibdb):
            try:
                kc = cc.default_keychain(res['pib'], res['tpm'])
            except ValueError:
                obs['kc'] = 'err'
            except NameError as e:
                # a private-key store of another platform: refused, though with NameError (the class that implements
                # it is not imported here); the statement fixes the exception class for transport schemes only
                foreign = locs['tpm'][0] in ('tpm-osxkeychain', 'tpm-cng')
                obs['kc'] = 'err' if foreign else 'raised-NameError'
            except Exception as e:  # noqa
                obs['kc'] = 'raised-' + type(e).__name__
            else:
                good = (isinstance(kc, KeychainSqlite3) and kc.path == pibdb and isinstance(kc.tpm, TpmFile)
                        and kc.tpm.path == locs['tpm'][1])
                obs['kc'] = 'ok' if good else 'wrong-paths'
                try:
                    kc.shutdown()
                except Exception:  # noqa
                    pass
        else:
            obs['kc'] = 'skipped'
        obs['face'] = face_obs(cc, res['transport'], {self.def_transport[len('unix://'):]: 'DEFAULT'})
        return obs, res, None


def face_obs(cc, uri, alias=None):
    from ndn.transport.stream_face import UnixFace, TcpFace
    from ndn.transport.udp_face import UdpFace
    try:
        f = cc.default_face(uri)
    except ValueError:
        return {'k': 'err', 'addr': '', 'port': 0}
    except Exception as e:  # noqa
        return {'k': 'raised-' + type(e).__name__, 'addr': '', 'port': 0}
    if isinstance(f, UnixFace):
        return {'k': 'unix', 'addr': (alias or {}).get(f.path, f.path), 'port': 0}
    if isinstance(f, TcpFace):
        return {'k': 'tcp', 'addr': f.host, 'port': f.port}
    if isinstance(f, UdpFace):
        return {'k': 'udp', 'addr': f.host, 'port': f.port}
    return {'k': 'other-' + type(f).__name__, 'addr': '', 'port': 0}


def render_uri(u):
    if u['scheme'] == '' and not u['addr'] and not u['path']:
        return ''
    if u['scheme'] == 'unix':
        return 'unix://' + u['path']
    host = '[%s]' % u['addr'] if ':' in u['addr'] else u['addr']
    return '%s://%s%s' % (u['scheme'], host, ':%d' % u['port'] if u['port'] else '')


def compare(out, obs):
    """spec state `out` (from the dump) vs observation: list of differing clauses"""
    bad = []
    if obs['err'] != out['err']:
        return ['refusal']
    if out['err'] != 'none':
        return []
    if obs['transport'] != out['transport']:
        bad.append('transport')
    for s in STORES:
        if obs[s]['src']['k'] != 'unknown' and obs[s]['src'] != out[s]['src']:
            bad.append(s + '_src')
        if {'where': obs[s]['where'], 'idx': obs[s]['idx']} not in out[s]['where']:
            bad.append(s + '_where')
    if obs['kc'] not in ('skipped', out['kc']):
        bad.append('keychain')
    if obs['face'] != out['face']:
        bad.append('face')
    return bad


def classify(c):
    """input class for signatures"""
    f = first_existing(c)
    if unreadable_first(c):
        return 'first-candidate-unreadable'
    if any(v == 'empty' for v in c['env'].values()):
        return 'empty-override'
    if f and any(v == 'emptyval' for v in c['key'][f - 1].values()):
        return 'empty-file-value'
    if any(c['kind'][i - 1] not in READABLE for i in c['exist']):
        return 'later-candidate-unreadable'
    if c.get('val') == 'pct' and c['exist'] and any(v == 'present' for v in c['key'][min(c['exist']) - 1].values()):
        return 'percent-in-file-value'
    if c.get('val', 'plain') != 'plain':
        return 'values-' + c['val']
    if c['exist'] and (c.get('body') or ['plain'] * c['n'])[min(c['exist']) - 1] in ('empty', 'blank'):
        return 'first-file-%s' % c['body'][min(c['exist']) - 1]
    if any(c['loc'][s] == 'absEc' for s in STORES):
        return 'colon-in-location'
    return fso_class(c) or 'general'


def fso_class(c):
    """the file-system-object dimension a configuration exercises (most specific first), '' if none"""
    f = first_existing(c)
    if f and c['kind'][f - 1] == 'link':
        return 'first-candidate-symlink'
    if f and c['cdir'][f - 1] == 'link':
        return 'candidate-directory-symlink'
    if any(c['ghost'][i - 1] != 'none' for i in range(1, c['n'] + 1) if i not in c['exist']):
        return 'dangling-candidate'
    if any(c['kind'][i - 1] == 'link' for i in c['exist']):
        return 'later-candidate-symlink'
    if any(c['sobj'][s] != 'dir' for s in STORES):
        return 'store-location-' + '-'.join(sorted({c['sobj'][s] for s in STORES} - {'dir'}))
    if any(c['smiss'][s] != 'absent' for s in STORES):
        return 'store-location-dangling'
    if any(c['rel'][s] != 'std' and c['loc'][s] in REL_CLASSES for s in STORES):
        return 'relative-location-spelling'
    if c['cwd'] != 'plain':
        return 'working-directory-symlink'
    return ''


NFD_SOCKS = {'/run/nfd/nfd.sock': 'new', '/run/nfd.sock': 'old'}


def replay_plat(ctx, world, x, out):
    """state of kind "plat": platform selected by the REAL dispatch of Platform() (singleton not pre-injected) for
    sys.platform = x.sys, and the Linux default transport with the new / old NFD socket existing as x says"""
    import sys
    real_exists, real_plat, inst = os.path.exists, sys.platform, world.Platform._instance

    def fake_exists(path):
        k = NFD_SOCKS.get(path) if isinstance(path, str) else None
        return x[k] if k else real_exists(path)
    world.Platform._instance = None
    os.path.exists = fake_exists
    sys.platform = x['sys']
    try:
        try:
            plat = world.Platform()
            again = world.Platform()
            obs = {'cls': type(plat).__name__, 'transport': ''}
            if obs['cls'] == 'Linux':
                obs['transport'] = plat.default_transport()
            if again is not plat:
                obs['cls'] += '-not-singleton'
        except ValueError:
            obs = {'cls': 'err', 'transport': ''}
        except Exception as e:  # noqa
            obs = {'cls': 'raised-' + type(e).__name__, 'transport': ''}
    finally:
        os.path.exists, sys.platform, world.Platform._instance = real_exists, real_plat, inst
    ctx.evaluations += 1
    if obs != out:
        field = 'class' if obs['cls'] != out['cls'] else 'default_transport'
        ctx.violation('C20/Platform/%s/%s' % (x['sys'], field),
                      'B: sys.platform=%s, %s exists: new=%s old=%s -> %s, reference %s' % (
                          x['sys'], '/run/nfd/nfd.sock | /run/nfd.sock', x['new'], x['old'], json.dumps(obs), json.dumps(out)),
                      {'kind': 'plat', 'x': x})


def check_linux_platform(ctx, world):
    """the real Linux platform lists against their documented values (ndn-cxx client.conf conventions); the platform
    object comes from the library's own dispatch.  HOME is given as the path of a real directory ("plain") and as the
    path of a symbolic link to the home directory ("link": '~' is $HOME as given; a library that names the directory
    by its canonical path instead is accepted too)"""
    for how in ('plain', 'link'):
        _linux_platform(ctx, world, how)


def _linux_platform(ctx, world, how):
    home = os.path.join(world.root, 'home' if how == 'plain' else 'hl')
    real_home = home
    if how == 'link':
        real_home = os.path.join(world.root, 'elsewhere', 'home-real')
        os.makedirs(real_home, exist_ok=True)
        if not os.path.lexists(home):
            os.symlink(real_home, home)
    os.makedirs(home, exist_ok=True)
    sfx = '' if how == 'plain' else '-home-symlink'

    def differs(got, exp):
        return got != exp and json.loads(json.dumps(got).replace(real_home, home)) != json.loads(json.dumps(exp))
    saved = os.environ.get('HOME')
    os.environ['HOME'] = home
    inst0 = world.Platform._instance
    try:
        world.Platform._instance = None
        try:
            p = world.Platform()
        except Exception as e:  # noqa
            ctx.violation('C20/Platform/linux/class', 'Platform() raised %s: %s on sys.platform=linux' % (type(e).__name__, e),
                          {'kind': 'platform', 'method': 'Platform()'})
            return
        finally:
            world.Platform._instance = inst0
        want = {
            'client_conf_paths': [home + '/.ndn/client.conf', '/usr/local/etc/ndn/client.conf',
                                  '/opt/local/etc/ndn/client.conf', '/etc/ndn/client.conf'],
            'default_pib_scheme': 'pib-sqlite3', 'default_pib_paths': [home + '/.ndn'],
            'default_tpm_scheme': 'tpm-file', 'default_tpm_paths': [home + '/.ndn/ndnsec-key-file'],
        }
        if type(p).__name__ != 'Linux':
            ctx.violation('C20/Platform/linux/class', 'Platform() is a %s on sys.platform=linux' % type(p).__name__,
                          {'kind': 'platform', 'method': 'Platform()'})
            return
        for k, v in want.items():
            got = getattr(p, k)()
            ctx.evaluations += 1
            if differs(got, v):
                ctx.violation('C20/platform.linux/%s/documented-value%s' % (k, sfx), 'Linux.%s() = %r, documented %r' % (k, got, v),
                              {'kind': 'platform', 'method': k, 'got': got, 'want': v})
        # end to end with the real class: ~/.ndn/client.conf is the first candidate
        from ndn import client_conf as cc
        inst = world.Platform._instance
        world.Platform._instance = p
        try:
            if not any(os.path.exists(x) for x in want['client_conf_paths'][1:]):
                os.makedirs(home + '/.ndn/ndnsec-key-file', exist_ok=True)
                for v in ENVVAR.values():
                    os.environ.pop(v, None)
                r0 = cc.read_client_conf()
                exp0 = {'transport': p.default_transport(), 'pib': 'pib-sqlite3:' + home + '/.ndn',
                        'tpm': 'tpm-file:' + home + '/.ndn/ndnsec-key-file'}
                with open(home + '/.ndn/client.conf', 'w') as f:
                    f.write('; comment\ntransport=tcp://homehost:1234\n;pib=pib-sqlite3:/nowhere\n')
                r1 = cc.read_client_conf()
                exp1 = dict(exp0, transport='tcp://homehost:1234')
                os.environ['NDN_CLIENT_TRANSPORT'] = 'udp://envhost'
                r2 = cc.read_client_conf()
                exp2 = dict(exp0, transport='udp://envhost')
                os.environ.pop('NDN_CLIENT_TRANSPORT')
                # ~/.ndn/client.conf is a symbolic link to a file kept in another directory (a dotfiles checkout); the
                # stores named relative to it sit next to ~/.ndn/client.conf - first only there, then also next to the
                # link's target, then only there (not "that file's directory": platform default location)
                dot = os.path.join(world.root, 'dotfiles-' + how, 'ndn')
                os.makedirs(dot, exist_ok=True)
                with open(dot + '/client.conf', 'w') as f:
                    f.write('pib=pib-sqlite3:keystore\ntpm=tpm-file:./keystore/private\n')
                os.remove(home + '/.ndn/client.conf')
                os.symlink(dot + '/client.conf', home + '/.ndn/client.conf')
                os.makedirs(home + '/.ndn/keystore/private')
                r3 = cc.read_client_conf()
                exp3 = dict(exp0, pib='pib-sqlite3:' + home + '/.ndn/keystore', tpm='tpm-file:' + home + '/.ndn/./keystore/private')
                os.makedirs(dot + '/keystore/private')
                r4 = cc.read_client_conf()
                shutil.rmtree(home + '/.ndn/keystore')
                r5 = cc.read_client_conf()
                for tag, got, exp in (('defaults', r0, exp0), ('home-file', r1, exp1), ('env', r2, exp2),
                                      ('linked-file-store-next-to-link', r3, exp3), ('linked-file-store-next-to-both', r4, exp3),
                                      ('linked-file-store-next-to-target', r5, exp0)):
                    tag += sfx
                    ctx.evaluations += 1
                    if isinstance(got, dict) and set(got) == set(exp) and all(isinstance(v, str) for v in got.values()):
                        # a location may be spelled with or without './'
                        got = {k: v.replace('/./', '/') for k, v in got.items()}
                        exp = {k: v.replace('/./', '/') for k, v in exp.items()}
                    if differs(got, exp):
                        ctx.violation('C20/platform.linux/read_client_conf/%s' % tag,
                                      'real Linux platform, HOME patched, %s: %r, expected %r' % (tag, got, exp),
                                      {'kind': 'platform', 'case': tag, 'got': got, 'want': exp})
        finally:
            world.Platform._instance = inst
    finally:
        if saved is None:
            os.environ.pop('HOME', None)
        else:
            os.environ['HOME'] = saved


# ------------------------------------------------------------------------------------------ random (stage C)

LOC_C = ['none', 'absE', 'absM', 'relE', 'relM', 'relCwd', 'relOther', 'absEc']
UNREADABLE_C = ['dir', 'dir', 'linkdir', 'sock']


def rand_config(rng):
    n = rng.randint(1, 6)
    exist = sorted(i for i in range(1, n + 1) if rng.random() < rng.choice([0.2, 0.5, 0.8]))
    key = [{s: rng.choice(['present', 'present', 'absent', 'absent', 'commented', 'commented', 'emptyval']) for s in SETTINGS}
           for _ in range(n)]
    env = {s: rng.choice(['unset'] * 13 + ['set'] * 5 + ['empty'] * 2) for s in SETTINGS}
    # every candidate is a regular file, a symbolic link to a file kept elsewhere, or something that exists and cannot
    # be read as a file (a directory, a link to one, a socket); its directory may be reached through a link; where no
    # candidate exists there may stand a dangling link or a link loop
    pdir = rng.choice([0.0, 0.0, 0.1, 0.3])
    plink = rng.choice([0.0, 0.0, 0.3, 0.7])
    kind = [rng.choice(UNREADABLE_C) if rng.random() < pdir else 'link' if rng.random() < plink else 'file' for _ in range(n)]
    ghost = [rng.choice(['dangling', 'loop']) if rng.random() < plink / 2 else 'none' for _ in range(n)]
    cdir = ['link' if rng.random() < plink / 2 else 'plain' for _ in range(n)]
    loc = {s: rng.choice(LOC_C[:7]) if rng.random() < 0.93 else 'absEc' for s in STORES}
    for s in STORES:
        if plink and rng.random() < 0.4:
            loc[s] = rng.choice(['relE', 'relT', 'relB'])
    fsx = rng.random() < 0.35               # the store locations / spellings / working directory take part as well
    sobj = {s: rng.choice(['dir', 'link', 'file']) if fsx else 'dir' for s in STORES}
    smiss = {s: rng.choice(['absent', 'dangling']) if fsx else 'absent' for s in STORES}
    rel = {s: rng.choice(['std', 'dot', 'dotdot', 'deep']) if fsx or rng.random() < 0.1 else 'std' for s in STORES}
    cwd = 'link' if fsx and rng.random() < 0.4 else 'plain'
    defx = {s: [rng.random() < 0.5 for _ in range(rng.randint(1, 3))] for s in STORES}
    body = []
    for i in range(n):
        opts = ['plain', 'plain']
        if all(v == 'absent' for v in key[i].values()):
            opts += ['empty', 'empty', 'blank']
        if all(v not in ('present', 'emptyval') for v in key[i].values()):
            opts += ['blank', 'blank']
        body.append(rng.choice(opts))
    if exist and rng.random() < 0.25:
        # the situation "first existing file carries nothing, a later one does" deserves weight
        f = exist[0]
        key[f - 1] = {s: rng.choice(['absent', 'absent', 'commented']) for s in SETTINGS}
        body[f - 1] = rng.choice(['empty', 'blank']) if all(v == 'absent' for v in key[f - 1].values()) else 'blank'
    val = rng.choice(['plain'] * 15 + ['pct', 'pct', 'punct', 'punct', 'foreigntpm'])
    if len(exist) >= 2 and rng.random() < 0.06:
        # "the first existing candidate is unreadable, a later one is a regular file with values" deserves weight
        kind[exist[0] - 1], kind[exist[1] - 1] = rng.choice(UNREADABLE_C), rng.choice(['file', 'file', 'link'])
        key[exist[1] - 1] = {s: 'present' for s in SETTINGS}
        body[exist[1] - 1] = 'plain'
    for i in range(n):
        if kind[i] not in READABLE:     # a directory / socket has no content
            key[i] = {s: 'absent' for s in SETTINGS}
            body[i] = 'plain'
    return {'n': n, 'exist': exist, 'kind': kind, 'key': key, 'body': body, 'env': env, 'loc': loc, 'defx': defx, 'val': val,
            'ghost': ghost, 'cdir': cdir, 'cwd': cwd, 'sobj': sobj, 'smiss': smiss, 'rel': rel}


def rand_style(rng):
    order = list(SETTINGS)
    rng.shuffle(order)
    pool = ['; transport=tcp://commented:1', '#pib=pib-sqlite3:/nowhere', '', 'unknown-key=1', 'protocol=nfd-0.1',
            '# tpm=tpm-file:/x', ';', 'Transport-extra=tcp://x']
    extra = [(rng.randint(0, 6), line) for line in rng.sample(pool, rng.randint(0, 3))]    # no key twice
    return {'order': order, 'eq': rng.choice(['=', '=', ' = ', '= ', ' =']), 'comment': rng.choice([None, ';', '#', '; ', '# ']),
            'blank': rng.random() < 0.3, 'extra': extra, 'newline': rng.random() < 0.8}


def rand_uri(rng):
    x = rng.random()
    if x < 0.12:
        return {'scheme': 'unix', 'addr': '', 'port': 0,
                'path': '/' + '/'.join(rng.choice(['run', 'nfd', 'var', 'tmp', 'x.sock', 'nfd.sock', 'a-b_c']) for _ in range(rng.randint(1, 4)))}
    if x < 0.72:
        scheme = rng.choice(['tcp', 'tcp4', 'tcp6', 'udp', 'udp4', 'udp6'])
    else:
        scheme = rng.choice(['ws', 'wss', 'http', 'https', 'foo', 'ether', 'dev', 'tcp5', 'udpx', 'unixx', 'fd', 'file', 'ndn'])
        if rng.random() < 0.5:      # near miss of a supported scheme: one or two characters added
            base = rng.choice(['tcp', 'tcp4', 'tcp6', 'udp', 'udp4', 'udp6', 'unix'])
            scheme = rng.choice([base + rng.choice('46sx0') + rng.choice(['', '4', '6']), rng.choice('xsn') + base,
                                 base[:-1] if len(base) > 3 else base + base])
    y = rng.random()
    if y < 0.4:
        addr = '.'.join(rng.choice(['a', 'b1', 'host', 'example', 'org', 'x-y', 'ndn', 'router7']) for _ in range(rng.randint(1, 4)))
    elif y < 0.7:
        addr = '.'.join(str(rng.randint(0, 255)) for _ in range(4))
    else:
        addr = rng.choice(['::1', 'fe80::1', '2001:db8::2:1', '::ffff:10.0.0.1'])
    port = 0 if rng.random() < 0.35 else rng.choice([1, 80, 6363, 6364, 9696, 65535, rng.randint(1, 65535)])
    return {'scheme': scheme, 'addr': addr, 'port': port, 'path': ''}


# ------------------------------------------------------------------------------------------ the check

def tojson_cfg(x):
    """state variable x of ClientConfMC (via dump) -> configuration dict used by World"""
    return {'n': x['n'], 'exist': sorted(x['exist']), 'kind': list(x['kind']), 'key': x['key'], 'body': x['body'], 'env': x['env'],
            'loc': x['loc'], 'defx': x['defx'], 'val': x['val'], 'ghost': list(x['ghost']), 'cdir': list(x['cdir']),
            'cwd': x['cwd'], 'sobj': x['sobj'], 'smiss': x['smiss'], 'rel': x['rel']}


def nontrivial(c):
    return bool(c['exist']) and (any(v != 'unset' for v in c['env'].values()) or c['kind'][min(c['exist']) - 1] != 'file'
                                 or any(v != 'present' for v in c['key'][min(c['exist']) - 1].values()))


def run(ctx):
    ctx.rule = ('one TLC state per configuration / transport URI; B materialises every state in a scratch tree and calls '
                'read_client_conf, default_keychain, default_face; C = random larger configurations judged by TLC. '
                'non-trivial = distinct configuration with an existing candidate and at least one of: environment override '
                '(set or empty), a key absent / commented / empty-valued in the first existing file, first existing '
                'candidate not a regular file (a directory, a socket, a symbolic link)')
    ctx.assumptions = ['the Platform singleton may be replaced by a subclass of the Linux platform whose path lists point '
                       'into a scratch tree (the code under test only calls Platform() methods)',
                       'macOS / Windows platform classes are not importable here and are not checked']
    t0 = time.time()
    thorough = 'FALSE' if ctx.quick else 'TRUE'
    cfg = os.path.join(tlc.BUILD, 'ClientConfMC_%s.cfg' % ctx.tier)
    tlc.write_cfg(cfg, constants={'Mode': '"both"', 'Thorough': thorough}, invariants=INVS, postcondition='Witnesses')
    dump = os.path.join(tlc.BUILD, 'c20-%s.dump' % ctx.tier)
    if os.path.exists(dump):
        os.remove(dump)
    r = tlc.run('ClientConfMC', cfg, workers=ctx.pick(3, 6), extra=['-dump', dump], tag='c20')
    ctx.add_tlc('ClientConfMC Mode=both Thorough=%s' % thorough, r)
    if r.violated:
        ctx.violation('C20/spec/%s' % r.violated, 'TLC: clause %s fails on the reference' % r.violated,
                      {'kind': 'spec', 'trace': r.errtrace})
        return          # the dump of an aborted run is incomplete
    runs = {'both': dump}
    ctx.note('A: %d states (configurations + transport URIs), clauses %s hold (tlc %.0fs)' % (r.distinct, ','.join(INVS), r.wall))
    world = World()
    try:
        from ndn import client_conf as cc
        if 'B' in ctx.stages:
            nb = nf = npl = 0
            dims = {'unreadable-first': 0, 'unreadable-later': 0, 'empty-override': 0, 'empty-file-value': 0}
            fso = {k: 0 for k in ('first-candidate-symlink', 'candidate-directory-symlink', 'dangling-candidate',
                                  'store-location-link', 'store-location-file', 'store-location-dangling',
                                  'relative-location-spelling', 'working-directory-symlink', 'relT', 'relB',
                                  'unreadable-linkdir', 'unreadable-sock')}
            for st in urikit.read_dump(dump, ('kind', 'x', 'out')):
                if st['kind'] == 'plat':
                    replay_plat(ctx, world, st['x'], st['out'])
                    npl += 1
                    continue
                if st['kind'] == 'face':
                    u, out = st['x'], st['out']
                    text = render_uri(u)
                    obs = face_obs(cc, text)
                    nf += 1
                    ctx.evaluations += 1
                    ctx.nt(['face', text])
                    if obs != out:
                        ctx.violation('C20/default_face/%s/face' % (u['scheme'] or 'empty'),
                                      'B: default_face(%r) -> %s, reference %s' % (text, json.dumps(obs), json.dumps(out)),
                                      {'kind': 'face', 'u': u})
                    continue
                c = tojson_cfg(st['x'])
                out = st['out']
                world.materialise(c)
                obs, res, exc = world.observe(c)
                nb += 1
                ctx.evaluations += 3
                if nontrivial(c):
                    ctx.nt(c)
                if nb == 4000:
                    ctx.sample({'kind': 'B-conf', 'c': c, 'result': world.anon(res), 'observation': obs})
                dims['unreadable-first'] += unreadable_first(c)
                dims['unreadable-later'] += any(c['kind'][i - 1] not in READABLE for i in c['exist']) and not unreadable_first(c)
                for k in {fso_class(c)} | {c['loc'][s] for s in STORES} | {'unreadable-' + c['kind'][i - 1] for i in c['exist']}:
                    if k in fso:
                        fso[k] += 1
                dims['empty-override'] += 'empty' in c['env'].values()
                dims['empty-file-value'] += any('emptyval' in k.values() for k in c['key'])
                for cl in compare(out, obs):
                    ctx.violation(sig_of(cl, c, exc),
                                  'B: clause %s: library %s -> observation %s, reference %s; configuration %s' % (
                                      cl, json.dumps(res), json.dumps(obs), json.dumps(out), json.dumps(c)),
                                  {'kind': 'conf', 'c': c})
            check_linux_platform(ctx, world)
            ctx.traces += nb + nf + npl
            if not npl:
                raise tlc.MachineryError('no platform states in the TLC dump')
            ctx.note('B: %d configurations materialised and resolved, %d transport URIs (t=%.0fs)' % (nb, nf, time.time() - t0))
            if not nb or not nf:
                raise tlc.MachineryError('no states in the TLC dump')
            ctx.note('B: of these ' + ', '.join('%d %s' % (v, k) for k, v in dims.items()))
            ctx.note('B: file-system objects: ' + ', '.join('%d %s' % (v, k) for k, v in fso.items()))
            dims.update(fso)
            if not all(dims.values()):
                raise tlc.MachineryError('a dimension of the configuration product is not in the TLC dump: %r' % dims)
        if 'C' in ctx.stages:
            rng = ctx.rng
            recs, meta = [], []
            for _ in range(ctx.pick(2500, 30000)):
                c = rand_config(rng)
                style = rand_style(rng)
                world.materialise(c, style)
                obs, res, exc = world.observe(c)
                ctx.evaluations += 3
                if nontrivial(c):
                    ctx.nt(c)
                recs.append({'k': 'conf', 'c': c, 'obs': obs})
                meta.append((res, style, exc))
            k0 = next((k for k, r in enumerate(recs) if r['obs']['err'] == 'none'), 0)
            ctx.sample({'kind': 'C-conf', 'c': recs[k0]['c'], 'result': world.anon(meta[k0][0]), 'observation': recs[k0]['obs']})
            for _ in range(ctx.pick(600, 6000)):
                u = rand_uri(rng)
                recs.append({'k': 'face', 'u': u, 'obs': face_obs(cc, render_uri(u))})
                meta.append((render_uri(u), None, None))
                ctx.nt(['face', render_uri(u)])
            results, rejected = urikit.judge_batches('ClientConfJudge', JUDGE_CFG, 'c20-c-%s' % ctx.tier, recs,
                                                     ctx.pick(4000, 6000), ctx.pick(2, 6))
            for k, r in enumerate(results):
                ctx.add_tlc('ClientConfJudge batch %d' % k, r)
            ctx.traces += len(recs)
            ctx.note('C: %d records judged by TLC, %d rejected (t=%.0fs)' % (len(recs), len(rejected), time.time() - t0))
            for i in sorted(rejected):
                rec = recs[i]
                for cl in rejected[i]:
                    if rec['k'] == 'conf':
                        ctx.violation(sig_of(cl, rec['c'], meta[i][2]),
                                      'C: reference rejects clause %s: library %s -> observation %s; configuration %s' % (
                                          cl, json.dumps(meta[i][0]), json.dumps(rec['obs']), json.dumps(rec['c'])),
                                      {'kind': 'conf', 'c': rec['c'], 'style': meta[i][1]})
                    else:
                        ctx.violation('C20/default_face/%s/face' % rec['u']['scheme'],
                                      'C: default_face(%r) -> %s rejected by the reference' % (meta[i][0], json.dumps(rec['obs'])),
                                      {'kind': 'face', 'u': rec['u']})
    finally:
        world.close()
        for p in runs.values():
            if os.path.exists(p):
                os.remove(p)


def sig_of(clause, c, exc):
    """violation signature for a failing clause of a configuration; exc = class name of what read_client_conf raised"""
    if clause == 'refusal':
        # raised where the reference resolves values / returned values where the reference refuses
        return 'C20/read_client_conf/%s/%s' % (classify(c), 'raises-%s' % exc if exc else 'refusal')
    return 'C20/%s/%s/%s' % (fn_of(clause), classify(c), clause)


def fn_of(clause):
    return {'keychain': 'default_keychain', 'face': 'default_face'}.get(clause, 'read_client_conf')


def replay(ctx, path):
    with open(path) as f:
        obj = json.load(f)
    kind = obj.get('kind')
    if kind == 'plat':
        w = World()
        try:
            class _C:
                evaluations = 0

                def violation(self, sig, what, obj):
                    print(sig, what)
                    self.bad = True
            c_ = _C()
            x = obj['x']
            out = {'cls': 'Linux' if x['sys'] == 'linux' else 'err',
                   'transport': '' if x['sys'] != 'linux' else
                   ('unix:///run/nfd.sock' if x['old'] and not x['new'] else 'unix:///run/nfd/nfd.sock')}
            replay_plat(c_, w, x, out)
            print('mismatch' if getattr(c_, 'bad', False) else 'no mismatch')
            return 1 if getattr(c_, 'bad', False) else 0
        finally:
            w.close()
    if kind not in ('conf', 'face'):
        print(json.dumps(obj, indent=1)[:4000])
        return 0
    world = World()
    try:
        from ndn import client_conf as cc
        if kind == 'face':
            rec = {'k': 'face', 'u': obj['u'], 'obs': face_obs(cc, render_uri(obj['u']))}
            print('default_face(%r) -> %s' % (render_uri(obj['u']), json.dumps(rec['obs'])))
        else:
            c = norm_cfg(obj['c'])
            world.materialise(c, obj.get('style'))
            obs, res, exc = world.observe(c)
            print('configuration: %s' % json.dumps(c))
            print('read_client_conf -> %s' % (json.dumps(res) if obs['err'] == 'none' else res))
            print('observation: %s' % json.dumps(obs))
            rec = {'k': 'conf', 'c': c, 'obs': obs}
        results, rejected = urikit.judge_batches('ClientConfJudge', JUDGE_CFG, 'c20-replay', [rec], 10, 1)
        print('rejected clauses: %s' % rejected[0] if rejected else 'accepted by the reference')
        return 1 if rejected else 0
    finally:
        world.close()
