"""C17 - prefix registration speaks the forwarder management protocol correctly.
Spec: NfdReg.tla / NfdRegTrace.tla / NfdRegResp.tla.

A  TLC exhaustive on NfdReg with Allowed = {} (the correct design) for both front-ends in focused
   configurations (concurrency/timestamps, all reply kinds, declared routes over reconnects);
   vacuity by action coverage and witness invariants; for every named deviation TLC must find the
   property clause it breaks (the spec can see each defect it names).
B  state graphs of NfdReg with every deviation available (nondeterministic at the deviation points)
   are walked on the real appv2.NDNApp+NfdRegister and legacy NDNApp over the virtual loop with a
   scripted wall clock: the stimuli of a transition-cover path are applied, the implementation picks
   the branch, the walker keeps every spec state whose projection (command Interests decoded by the
   strict reader, return values) equals what was observed. No state left = VIOLATION; property
   clauses violated in all explanations are reported with the deviation that explains them.
   parse_response: TLC enumerates ControlResponse field combinations with the expected result.
C  random call mixes with 8 calls, recorded and judged by NfdRegTrace; random ControlResponses
   judged by NfdRegResp.
Cancellation (A, B, C): the caller may cancel a call in progress (task.cancel()) wherever it is suspended - in the
   queue of the command semaphore, in the sleep of the timestamp guard, waiting for the reply (CancelWaiting /
   CancelSleeping / CancelSent of NfdReg.tla); the calls behind it and the calls made afterwards must go on, a
   reply that arrives for the abandoned command goes nowhere (LateReply).
"""
import json, os

from harness import tlc, graph, regkit
from harness.tlaval import seq
from harness.regkit import Scenario, Walker, env_labels

CANCELS = ('CancelWaiting', 'CancelSleeping', 'CancelSent')      # the caller cancels a call in progress (three places)
ENV = {'Call', 'Tick', 'Wake', 'FwdReply', 'Connect', 'Disconnect', 'DeclareRoute', 'LateReply'} | set(CANCELS)
INTERNAL = ['AutoNext', 'EndRun', 'Begin', 'Acquire', 'AcquireWake', 'ReadClock', 'Sleep', 'Send', 'Finish']
ALL_KINDS = ['r200', 'r400', 'r403', 'r503', 'nack', 'silence', 'garbage', 'vfail']
LATE_KINDS = ['r200', 'r400', 'r403', 'r503', 'nack', 'garbage']     # what may still arrive for a command whose call was cancelled
ALL_DEVS = ['UnregAnyData', 'RegRaisesNoBody', 'RegRaisesGarbage', 'V2TwoReads', 'V2GuardGivesUp', 'LegacyNoGuard',
            'LegacyUnregNoSem', 'LegacyUnregKeyError']
INVS = ['TypeOK', 'ClockBound', 'OneAtATime', 'TsStrictlyIncreasing', 'SuccessIff200', 'NeverRaises', 'ExactlyOneCommand',
        'RoutesOncePerConnection', 'NoStrandedWaiter', 'SemHolderOk', 'CancelReleases', 'NothingBad']
# which property clause each deviation can break (used to attribute a violated clause to a deviation)
RELEVANT = {'UnregAnyData': {'SuccessIff200'},
            'RegRaisesNoBody': {'NeverRaises', 'RoutesOncePerConnection'},
            'RegRaisesGarbage': {'NeverRaises', 'RoutesOncePerConnection'},
            'V2TwoReads': {'TsStrictlyIncreasing'},
            'V2GuardGivesUp': {'TsStrictlyIncreasing'},
            'LegacyNoGuard': {'TsStrictlyIncreasing'},
            'LegacyUnregNoSem': {'OneAtATime'},
            'LegacyUnregKeyError': {'NeverRaises', 'ExactlyOneCommand'}}
DEVS_OF = {'v2': ['UnregAnyData', 'RegRaisesNoBody', 'RegRaisesGarbage', 'V2TwoReads', 'V2GuardGivesUp'],
           'legacy': ['UnregAnyData', 'RegRaisesNoBody', 'RegRaisesGarbage', 'LegacyNoGuard', 'LegacyUnregNoSem',
                      'LegacyUnregKeyError']}


def tla_set(xs):
    return '{' + ', '.join('"%s"' % x for x in xs) + '}'


def consts(front, ncalls, prefixes, routes, maxconn, maxclock, kinds, allowed, forced=(), verbs=('register', 'unregister'),
           late=(), stall=False, maxcancel=0):
    return {'LateRoutes': tla_set(late), 'Stall': 'TRUE' if stall else 'FALSE', 'MaxCancel': maxcancel,
            'FrontEnd': '"%s"' % front, 'NCalls': ncalls, 'UserPrefixes': tla_set(prefixes), 'UserVerbs': tla_set(verbs),
            'Routes': '<- R%d' % routes, 'MaxConn': maxconn, 'MaxClock': maxclock,
            'ReplyKinds': tla_set(kinds), 'Allowed': tla_set(allowed), 'Forced': tla_set(forced)}


def res_str(r):
    return 'none' if r['k'] == 'none' else 'exc' if r['k'] == 'raised' else 'canc' if r['k'] == 'cancelled' else 'T' if r['v'] else 'F'


def proj(st):
    n = len(seq(st['pc'])) - st['nauto']
    res = seq(st['result'])
    return (tuple((c['verb'], c['prefix'], c['ts']) for c in seq(st['cmds'])), tuple(res_str(res[i]) for i in range(n)))


def obs_of(post):
    return (tuple((c['v'], c['p'], c['ts']) for c in post['cmds']), tuple(post['res']))


def same(p, obs):
    return p[0] == obs[0] and p[1] == obs[1][:len(p[1])] and all(x == 'none' for x in obs[1][len(p[1]):])


# ------------------------------------------------------------------ findings

def report(ctx, front, devs, bad, reported, what, replay_obj):
    """devs/bad: deviations taken / clauses violated in every explanation of the observed execution."""
    for inv in sorted(bad):
        expl = [d for d in sorted(devs) if inv in RELEVANT.get(d, ())]
        for d in expl or ['unexplained']:
            key = (inv, d)
            if key in reported:
                continue
            reported.add(key)
            ctx.violation('C17/%s/%s/%s' % (front, inv, d),
                          '%s front-end: %s violated (explained by deviation %s of NfdReg.tla); %s' % (front, inv, d, what),
                          replay_obj)


# ------------------------------------------------------------------ stage B: walk

def apply(sc, belief, g, act, args):
    if act == 'Call':
        c, v, p, w, d = args
        sc.call(c, v, p, w, d)
    elif act == 'Tick':
        sc.tick()
    elif act == 'Wake':
        sc.wake(args[1], args[2])
    elif act == 'DeclareRoute':
        sc.declare(args[0], args[1])
    elif act in CANCELS:
        sc.cancel(args[0], args[1])
    elif act in ('FwdReply', 'LateReply'):
        c, k, b, d = args if act == 'FwdReply' else (args[0], 'r200', True, args[1])   # late: the answer nobody waits for
        idx = None
        for s in belief:
            for i, cm in enumerate(seq(g.state[s]['cmds'])):
                if cm['call'] == c:
                    idx = i
            if idx is not None:
                break
        sc.reply(idx, k, b, d)
    elif act == 'Connect':
        sc.connect(args[0])
    elif act == 'Disconnect':
        sc.disconnect()
    else:
        raise ValueError(act)


def walk(ctx, front, routes, ncalls, g, w, init, labels, tag, learn=None, k=0):
    """Returns number of stimuli applied. k: index of the path, selects the long-prefix length and the Nack reasons."""
    long_len = regkit.LONG_LENS[k % len(regkit.LONG_LENS)]
    sc = Scenario(front, ['x', 'y'][:routes], ncalls, long_len=long_len, variant=k)
    reported = set()
    done = []
    try:
        belief = w.start(init)
        for act, args in labels:
            if not w.enabled(belief, act, args):
                break
            apply(sc, belief, g, act, args)
            done.append([act] + list(args))
            robj = {'kind': 'path', 'front': front, 'routes': routes, 'ncalls': ncalls, 'labels': done, 'long_len': long_len, 'variant': k}
            obs = obs_of(sc.post())
            for chk, msg, hexw in sc.wire_errors:
                ctx.violation('C17/%s/wire/%s' % (front, chk), 'command Interest fails strict check %s: %s' % (chk, msg), robj)
            if sc.wire_errors:
                return len(done)
            cand = w.step(belief, act, args)
            m = frozenset(t for t in cand if same(proj(g.state[t]), obs))
            if not m:
                exp = sorted({json.dumps(proj(g.state[t])) for t in cand})[:4]
                field = 'cmds' if all(proj(g.state[t])[0] != obs[0] for t in cand) else 'res'
                ctx.violation('C17/%s/%s/%s/unexplained' % (front, act, field),
                              '%s: after %s%s the implementation shows %s; the specification allows only %s' % (
                                  front, act, args, json.dumps(obs), exp), robj)
                return len(done)
            belief = m
            devs = Walker.necessary(g, belief, 'dev')
            bad = Walker.necessary(g, belief, 'bad')
            report(ctx, front, devs, bad, reported, 'history %s' % json.dumps(done), robj)
            if learn is not None:
                learn['has'] |= devs
                learn['hasnot'] |= Walker.necessary(g, belief, 'nodev')
        bg = sc.background_errors()
        if bg:
            ctx.violation('C17/%s/background-error' % front, 'loop exception handler: %s' % bg[0],
                          {'kind': 'path', 'front': front, 'routes': routes, 'ncalls': ncalls, 'labels': done, 'long_len': long_len,
                           'variant': k})
    finally:
        sc.close()
    return len(done)


def load_graph(ctx, front, name, cs):
    cfgp = os.path.join(tlc.BUILD, 'NfdReg_g_%s_%s.cfg' % (front, name))
    tlc.write_cfg(cfgp, constants=cs, invariants=['TypeOK', 'ClockBound'])
    g = regkit.fast_dump('NfdReg', cfgp, workers=4, tag='c17g')
    ctx.add_tlc('NfdReg graph %s/%s (%d edges)' % (front, name, g.n_edges), g.tlc)
    return g


def stage_b(ctx, front, name, cs, routes, ncalls, max_paths=None, learn=None):
    """learn: dict to be filled with the deviations the implementation necessarily has / has not."""
    g = load_graph(ctx, front, name, cs)
    w = Walker(g, ENV, proj)
    paths = graph.edge_cover_paths(g, max_len=60, max_paths=max_paths, rng=ctx.rng)
    n = 0
    seen = set()
    for init, path in paths:
        labels = env_labels(path, ENV)
        key = json.dumps(labels)
        if key in seen or not labels:
            continue
        seen.add(key)
        k = walk(ctx, front, routes, ncalls, g, w, init, labels, name, learn, k=n)
        n += 1
        ctx.traces += 1
        ctx.evaluations += k
        acts = [a for a, _ in labels]
        if ('FwdReply' in acts or any(a in CANCELS for a in acts)) and (acts.count('Call') >= 2 or routes):
            ctx.nt(['B', front, name, labels])
        ctx.sample({'kind': 'B-path', 'front': front, 'cfg': name, 'stimuli': labels[:12]}, limit=4)
    ctx.note('B %s/%s: %d states, %d edges, %d distinct stimulus sequences replayed' % (front, name, len(g.state), g.n_edges, n))


# ------------------------------------------------------------------ parse_response (pure function part)

def parse_case(fields):
    """fields: {'status_code': '200', 'status_text': '=OK', 'present': bool, 'body': {field: '=value' | 'none' (all 16)}}
    -> what parse_response returned, in the same string form ('none' for None)."""
    from ndn.app_support.nfd_mgmt import parse_response
    from ndn import encoding as enc
    body = None
    if fields['present']:
        body = {k: v[1:] for k, v in fields['body'].items() if v != 'none'}
    wire = regkit.control_response(int(fields['status_code']), fields['status_text'][1:], body)
    try:
        r = parse_response(wire)
    except BaseException as e:  # noqa
        return {'raised': type(e).__name__}

    def s(k, v):
        if v is None:
            return 'none'
        if k == 'name':
            return '=' + enc.Name.to_str(v)
        if k == 'strategy':
            return '=' + enc.Name.to_str(v.name)
        if isinstance(v, (bytes, bytearray, memoryview)):
            return '=' + bytes(v).decode()
        if isinstance(v, str):
            return '=' + v
        return '=%d' % int(getattr(v, 'value', v))
    out = {'raised': 'none', 'status_code': '%d' % r['status_code'], 'status_text': s('status_text', r['status_text'])}
    for fname, _, _ in regkit.BODY_FIELDS:
        out[fname] = s(fname, r.get(fname))
    return out


def encode_case(fields):
    """make_command_v2 with the body fields of a case as control parameters -> what a strict decoder finds in the
    ControlParameters component, shaped like a parse_response result so that NfdRegResp judges it."""
    from ndn.app_support.nfd_mgmt import make_command_v2
    from ndn import encoding as enc
    kw = {}
    for fname, _, kind in regkit.BODY_FIELDS:
        v = fields['body'][fname]
        if v != 'none':
            kw[fname] = int(v[1:]) if kind == 'uint' else v[1:]
    try:
        name = make_command_v2('rib', 'register', None, **kw)
        got = regkit.decode_control_parameters(enc.Component.get_value(name[-1]))
    except regkit.WireError as e:
        return {'raised': 'WireError:' + e.check}
    except BaseException as e:  # noqa
        return {'raised': type(e).__name__}
    out = {'raised': 'none', 'status_code': fields['status_code'], 'status_text': fields['status_text']}
    for fname, _, _ in regkit.BODY_FIELDS:
        out[fname] = got.get(fname, 'none')
    return out


def judge_resp(ctx, recs, tag):
    tf = os.path.join(tlc.BUILD, 'c17-resp-%s-%s.ndjson' % (tag, ctx.tier))
    with open(tf, 'w') as f:
        for r in recs:
            f.write(json.dumps(r) + '\n')
    cfgp = os.path.join(tlc.BUILD, 'NfdRegResp_judge.cfg')
    tlc.write_cfg(cfgp, spec=None, init='JInit', next_='JNext', postcondition='JPost')
    r, rejected = tlc.validate_traces('NfdRegResp', cfgp, tf, tag='c17resp')
    ctx.add_tlc('NfdRegResp judge %s (%d records)' % (tag, len(recs)), r)
    for i, _ in rejected:
        rec = recs[i - 1]
        cls = 'body' if rec['fields']['present'] else 'no-body'
        got = rec['result'].get('raised', 'none')
        fn = rec.get('fn', 'parse_response')
        if rec['fields']['present'] and rec['fields']['body'].get('face_persistency') not in ('none', '=0', '=1', '=2'):
            cls = 'unassigned-enum'           # a FacePersistency value the library's enum does not list
        ctx.violation('C17/%s/%s/%s' % (fn, cls, got if got != 'none' else 'wrong-fields'),
                      '%s on %s gave %s' % (fn, json.dumps(rec['fields']), json.dumps(rec['result'])),
                      {'kind': 'resp', 'rec': rec})
    return rejected


def stage_resp_b(ctx):
    out = os.path.join(tlc.BUILD, 'c17-resp-cases-%s.json' % ctx.tier)
    cfgp = os.path.join(tlc.BUILD, 'NfdRegResp_enum.cfg')
    tlc.write_cfg(cfgp, spec=None, init='JInit', next_='JNext')
    if os.path.exists(out):
        os.remove(out)
    tlc.run('NfdRegResp', cfgp, workers=1, heavy=False, env={'CASES_OUT': out, 'TRACE_FILE': '/dev/null'}, tag='c17enum')
    with open(out) as f:
        cases = json.load(f)
    recs = []
    for c in cases:
        got = parse_case(c['fields'])
        recs.append({'fields': c['fields'], 'result': got})
        ctx.evaluations += 1
        if got != c['expected']:
            cls = 'body' if c['fields']['present'] else 'no-body'
            if c['fields']['present'] and c['fields']['body'].get('face_persistency') not in ('none', '=0', '=1', '=2'):
                cls = 'unassigned-enum'
            g = got.get('raised', 'none')
            ctx.violation('C17/parse_response/%s/%s' % (cls, g if g != 'none' else 'wrong-fields'),
                          'parse_response on %s returned %s, expected %s' % (json.dumps(c['fields']), json.dumps(got),
                                                                             json.dumps(c['expected'])),
                          {'kind': 'resp', 'rec': {'fields': c['fields'], 'result': got}})
        if c['fields']['present']:
            # the other direction: the same values as control parameters of a command, decoded by the strict reader
            recs.append({'fn': 'make_command_v2', 'fields': c['fields'], 'result': encode_case(c['fields'])})
            ctx.evaluations += 1
        if c['fields']['present'] and sum(1 for v in c['fields']['body'].values() if v != 'none') >= 1:
            ctx.nt(['resp', c['fields']])
    ctx.note('B parse_response: %d TLC-enumerated ControlResponses decoded' % len(cases))
    ctx.traces += len(cases)
    return recs


BIG = [0, 1, 252, 253, 255, 256, 65535, 65536, 2 ** 32 - 1, 2 ** 32, 2 ** 63, 2 ** 64 - 1]


def random_resp(rng):
    def u():
        return rng.choice(BIG) if rng.random() < 0.5 else rng.randrange(0, 2 ** rng.choice([8, 16, 32, 64]))

    def txt():
        return ''.join(rng.choice('abcXYZ019 :/._-') for _ in range(rng.randrange(0, 12)))

    def nm():
        return '/' + '/'.join(rng.choice(['a', 'b', 'cc', 'localhost', 'ndn', 'x1']) for _ in range(rng.randrange(1, 5)))
    present = rng.random() < 0.85
    body = {}
    for fname, _, kind in regkit.BODY_FIELDS:
        if True:
            if present and rng.random() < 0.45:
                if fname == 'face_persistency':
                    body[fname] = '=%d' % rng.randrange(0, 3)
                elif kind == 'uint':
                    body[fname] = '=%d' % u()
                elif kind == 'text':
                    body[fname] = '=' + txt()
                else:
                    body[fname] = '=' + nm()
            else:
                body[fname] = 'none'
    return {'status_code': '%d' % rng.choice([200, 400, 403, 404, 409, 503, u()]), 'status_text': '=' + txt(),
            'present': present, 'body': body}


# ------------------------------------------------------------------ stage C: random call mixes

def record(front, routes, rng, ncalls=12, nev=40):
    rts = ['x', 'y'][:routes]
    long_len = rng.choice(regkit.LONG_LENS)
    variant = rng.randrange(len(regkit.NACK_REASONS))
    sc = Scenario(front, rts, ncalls, long_len=long_len, variant=variant)
    ev = []
    try:
        d = rng.randrange(2)
        sc.connect(d)
        ev.append({'a': 'Connect', 'd': d, 'post': sc.post()})
        nxt = 1
        declared = False
        epoch_start, expected = 0, len(rts)      # auto-registrations expected on this connection (route 'z' included)
        answered = set()
        cancel_w = rng.choice([0, 0, 1, 2])       # half of the executions without cancellations, as before
        maybe_late = set()       # commands that were outstanding when a call was cancelled: their call may be gone
        filt = set(rts) if front == 'legacy' else set()
        conns = 1
        kinds = ALL_KINDS
        for _ in range(nev):
            open_cmds = [i for i in range(len(sc.cmds)) if i not in answered]
            tasks_done = all(t.done() for t in sc.tasks.values())
            auto_done = sum(1 for c in sc.cmds[epoch_start:] if c['prefix'][1:] in rts + ['z'] and c['verb'] == 'register') >= expected \
                or bool(sc.main_errors)
            choices = ['Tick', 'Pass']
            if sc.face.running and not declared and rng.random() < 0.1:
                choices += ['Declare']
            if sc.face.running and nxt <= ncalls - 2 * len(rts) - 4:      # ids kept for auto-registrations (spec: IdsReserved)
                choices += ['Call'] * 4
            if open_cmds:
                choices += ['FwdReply'] * 4
                kinds = ALL_KINDS if len(open_cmds) == 1 else [k for k in ALL_KINDS if k != 'silence']
            if sc.pending():
                choices += ['Cancel'] * cancel_w      # the caller cancels a call in progress, wherever it is suspended
            if sc.face.running and not open_cmds and tasks_done and auto_done and conns < 2 and rng.random() < 0.3:
                choices += ['Disconnect']
            if not sc.face.running and conns < 2:
                choices = ['Connect']
            elif not sc.face.running:
                break
            a = rng.choice(choices)
            d = 1 if rng.random() < 0.35 else 0
            if a == 'Call':
                v = rng.choice(['register', 'unregister'])
                p = rng.choice(['a', 'long', 'root'])
                wf = front == 'legacy' and v == 'register' and p not in filt and rng.random() < 0.5
                if wf:
                    filt.add(p)
                if front == 'legacy' and v == 'unregister':
                    filt.discard(p)
                sc.call(nxt, v, p, wf, d)
                ev.append({'a': 'Call', 'c': nxt, 'v': v, 'p': p, 'w': wf, 'd': d})
                nxt += 1
            elif a == 'Tick':
                sc.tick()
                ev.append({'a': 'Tick'})
            elif a == 'Pass':
                adv = 0 if rng.random() < 0.15 else 1
                sc.wake(d, adv)
                ev.append({'a': 'Pass', 'd': d, 'adv': adv})
            elif a == 'Declare':
                expected += 1 if auto_done else 2      # the starting task, if still at work, picks the new route up as well
                sc.declare('z', d)
                declared = True
                ev.append({'a': 'Declare', 'r': 'z', 'd': d})
            elif a == 'FwdReply':
                i = rng.choice(open_cmds)
                # a command whose call may have been cancelled: answered with Data or a Nack only (nobody may be waiting: the
                # lifetime of nothing would end, no validator would run)
                k = rng.choice([x for x in kinds if x in LATE_KINDS] if i in maybe_late else kinds)
                b = k in regkit.STATUS and rng.random() < 0.7
                garbage = regkit.GARBAGE if rng.random() < 0.6 else bytes(rng.randrange(256) for _ in range(rng.randrange(0, 12)))
                sc.reply(i, k, b, d, garbage=garbage)
                answered.add(i)
                ev.append({'a': 'FwdReply', 'i': i + 1, 'k': k, 'b': b, 'd': d})
            elif a == 'Cancel':
                c = rng.choice(sc.pending())
                maybe_late |= set(open_cmds)
                sc.cancel(c, d)
                ev.append({'a': 'Cancel', 'c': c, 'd': d})
            elif a == 'Disconnect':
                sc.disconnect()
                filt.clear()
                ev.append({'a': 'Disconnect'})
            elif a == 'Connect':
                epoch_start, expected = len(sc.cmds), len(rts) + (1 if declared else 0)
                sc.connect(d)
                conns += 1
                filt |= set(rts) if front == 'legacy' else set()
                ev.append({'a': 'Connect', 'd': d})
            ev[-1]['post'] = sc.post()
        if sc.face.running and nxt <= ncalls - 2 * len(rts) - 4 and any(e['a'] == 'Cancel' for e in ev):
            # whatever was cancelled before: a call made now gets its command out once the calls before it are through
            sc.tick()
            ev.append({'a': 'Tick', 'post': sc.post()})
            sc.call(nxt, 'register', 'a', False, 0)
            ev.append({'a': 'Call', 'c': nxt, 'v': 'register', 'p': 'a', 'w': False, 'd': 0, 'post': sc.post()})
            sc.wake(0, 1)
            ev.append({'a': 'Pass', 'd': 0, 'adv': 1, 'post': sc.post()})
        wire_errors = list(sc.wire_errors)
        bg = sc.background_errors()
    finally:
        sc.close()
    return {'front': front, 'routes': routes, 'long_len': long_len, 'variant': variant, 'ev': ev}, wire_errors, bg


def judge(ctx, front, routes, recs, tag, forced=None):
    tf = os.path.join(tlc.BUILD, 'c17-traces-%s-%s-%d-%s.ndjson' % (tag, front, routes, ctx.tier))
    with open(tf, 'w') as f:
        for r in recs:
            f.write(json.dumps(r) + '\n')
    cfgp = os.path.join(tlc.BUILD, 'NfdRegTrace_%s_%d.cfg' % (front, routes))
    tlc.write_cfg(cfgp, spec='TSpec', constants=consts(front, 12, ['a', 'long', 'root'], routes, 2, 100000, ALL_KINDS,
                                                       *((forced[1], forced[0]) if forced else (DEVS_OF[front],)), late=['z'], stall=True, maxcancel=12),
                  invariants=['TypeOK'], constraints=['Mark'], postcondition='Post')
    r, rejected = tlc.validate_traces('NfdRegTrace', cfgp, tf, tag='c17tr')
    ctx.add_tlc('NfdRegTrace %s routes=%d (%d traces)' % (front, routes, len(recs)), r)
    if r.violated:
        raise tlc.MachineryError('NfdRegTrace: %s violated\n%s' % (r.violated, r.errtrace[:3000]))
    from harness import tlaval
    ends = {}
    out = r.out
    pos = 0
    while True:
        i0 = out.find('<<', pos)
        if i0 < 0:
            break
        j = out.find('>>', i0)
        if j < 0:
            break
        txt = ' '.join(out[i0:j + 2].split())
        pos = j + 2
        if not txt.replace(' ', '').startswith('<<"END",'):
            continue
        try:
            v = tlaval.parse(txt)
        except ValueError:
            continue
        ends.setdefault(int(v[1]), []).append((frozenset(v[2]), frozenset(v[3])))
    rej = {i for i, _ in rejected}
    for i, rec in enumerate(recs, 1):
        robj = {'kind': 'trace', 'rec': rec}
        if i in rej:
            lno = dict(rejected)[i]
            lno = int(lno) if lno else 0
            bad_ev = rec['ev'][lno - 1] if 0 < lno <= len(rec['ev']) else None
            ctx.violation('C17/%s/trace/%s/unexplained' % (front, bad_ev['a'] if bad_ev else 'end'),
                          'recorded execution rejected by NfdRegTrace at event %d: %s' % (lno, json.dumps(bad_ev)), robj)
            continue
        es = ends.get(i)
        if not es:
            raise tlc.MachineryError('NfdRegTrace: trace %d neither rejected nor explained' % i)
        devs = frozenset.intersection(*[e[0] for e in es])
        bad = frozenset.intersection(*[e[1] for e in es])
        report(ctx, front, devs, bad, set(), 'recorded execution of %d events' % len(rec['ev']), robj)
    return rejected


def stage_c(ctx, front, routes, n, forced):
    recs = []
    for _ in range(n):
        rec, werr, bg = record(front, routes, ctx.rng, nev=ctx.rng.choice([12, 25, 40]))
        for chk, msg, hexw in werr:
            ctx.violation('C17/%s/wire/%s' % (front, chk), 'command Interest fails strict check %s: %s' % (chk, msg),
                          {'kind': 'trace', 'rec': rec})
        if bg:
            ctx.violation('C17/%s/background-error' % front, 'loop exception handler: %s' % bg[0], {'kind': 'trace', 'rec': rec})
        recs.append(rec)
        acts = [e['a'] for e in rec['ev']]
        if acts.count('Call') >= 3 and 'FwdReply' in acts:
            ctx.nt(['C', front, routes, [[e['a'], e.get('v'), e.get('p'), e.get('k'), e.get('d')] for e in rec['ev']]])
    ctx.sample({'kind': 'C-trace', 'front': front, 'routes': routes,
                'events': [[e['a'], e.get('v', e.get('k', ''))] for e in recs[0]['ev']][:20]}, limit=6)
    judge(ctx, front, routes, recs, 'c', forced)
    ctx.traces += len(recs)
    ctx.evaluations += sum(len(r['ev']) for r in recs)


# ------------------------------------------------------------------ stage A

def stage_a(ctx):
    workers = ctx.pick(4, 8)
    cfgs = []
    for front in ('v2', 'legacy'):
        # concurrency / timestamps: 3 concurrent calls, clock free, three reply kinds
        cfgs.append((front, 'conc', consts(front, 3, ctx.pick(['a'], ['a', 'b']), 0, 1, ctx.pick(3, 5), ['r200', 'r400', 'silence'], [])))
        # every reply kind, with and without body
        cfgs.append((front, 'replies', consts(front, 2, ['a', 'b'], 0, 1, ctx.pick(2, 3), ALL_KINDS, [])))
        # declared routes, reconnect, a user call in between (the clock bound leaves room for every command)
        if ctx.quick:
            cfgs.append((front, 'routes', consts(front, 3, ['a'], 1, 2, 2, ['r200', 'r403', 'nack'], [])))
        else:
            cfgs.append((front, 'routes', consts(front, 5, ['a'], 2, 2, 4, ['r200', 'r403', 'nack'], [])))
        # a route declared while connected (one route before connecting, one later, two connections)
        cfgs.append((front, 'late', consts(front, ctx.pick(3, 5), ['a'], ctx.pick(0, 1), 2, ctx.pick(2, 4), ctx.pick(['r200'], ['r200', 'nack']), [],
                                             late=['z'], verbs=ctx.pick((), ('register',)))))
        # the wall clock may stand still while loop time passes
        # (a call may also be cancelled there: the guard loop sleeps longest when the clock stands still)
        cfgs.append((front, 'stall', consts(front, 2, ['a'], 0, 1, ctx.pick(1, 2), ['r200', 'r400'], [], stall=True, maxcancel=1)))
        # the caller cancels calls in progress (in the semaphore queue, in the guard sleep, waiting for the reply)
        cfgs.append((front, 'cancel', consts(front, 3, ['a'], 0, 1, 2, ctx.pick(['r200'], ['r200', 'r400', 'silence']), [],
                                               maxcancel=ctx.pick(1, 2))))
    cov = {}
    from concurrent.futures import ThreadPoolExecutor

    def big(job):
        front, name, cs = job
        cfgp = os.path.join(tlc.BUILD, 'NfdReg_a_%s_%s_%s.cfg' % (front, name, ctx.tier))
        tlc.write_cfg(cfgp, constants=cs, invariants=INVS)
        return job, tlc.run('NfdReg', cfgp, workers=workers, coverage=(name in ('routes', 'late', 'cancel') or (name == 'replies' and not ctx.quick)),
                            tag='c17a')
    with ThreadPoolExecutor(max_workers=2) as ex:
        done = list(ex.map(big, cfgs))
    for (front, name, cs), r in done:
        ctx.add_tlc('NfdReg %s/%s' % (front, name), r)
        if r.violated:
            ctx.violation('C17/spec/%s/%s' % (front, r.violated), 'TLC: %s violated in NfdReg (%s/%s, correct design)' % (
                r.violated, front, name), {'trace': r.errtrace})
        for a, (d, t) in r.coverage.items():
            cov[a] = cov.get(a, 0) + t
    for a in INTERNAL + sorted(ENV):
        if cov.get(a, 0) == 0:
            raise tlc.MachineryError('vacuous: action %s never taken in stage A' % a)
    # witnesses and deviation counterexamples: many tiny TLC runs, run side by side
    from concurrent.futures import ThreadPoolExecutor
    jobs = []
    for front, wname, routes, maxconn, ncalls in (('v2', 'W_Waiting', 0, 1, 3), ('v2', 'W_Slept', 0, 1, 2), ('v2', 'W_TwoCmds', 0, 1, 2),
                                                  ('legacy', 'W_FailNack', 0, 1, 1), ('legacy', 'W_Reconnect', 1, 2, 2),
                                                  ('v2', 'W_Reconnect', 2, 2, 4),
                                                  ('v2', 'W_CmdAfterCancel', 0, 1, 3), ('legacy', 'W_CmdAfterCancel', 0, 1, 3),
                                                  ('v2', 'W_CancelHolder', 0, 1, 3), ('legacy', 'W_CancelSentRet', 0, 1, 1),
                                                  ('v2', 'W_CancelSentExc', 0, 1, 1)):
        wp = os.path.join(tlc.BUILD, 'NfdReg_w_%s_%s.cfg' % (front, wname))
        tlc.write_cfg(wp, constants=consts(front, ncalls, ['a'], routes, maxconn, 3, ['r200', 'nack'], [],
                                           maxcancel=1 if 'Cancel' in wname else 0), invariants=[wname])
        jobs.append(('witness', front, wname, wp))
    # every named deviation breaks the clause it is said to break (the properties can see each defect)
    for front in ('v2', 'legacy'):
        for d in DEVS_OF[front]:
            dp = os.path.join(tlc.BUILD, 'NfdReg_d_%s_%s.cfg' % (front, d))
            tlc.write_cfg(dp, constants=consts(front, 2, ['a'], 0, 1, 2, ['r200', 'r400', 'garbage'], [d], stall=(d == 'V2GuardGivesUp')),
                          invariants=['NothingBad'])
            jobs.append(('deviation', front, d, dp))

    def one(job):
        return job, tlc.run('NfdReg', job[3], workers=1, heavy=False, tag='c17s')
    with ThreadPoolExecutor(max_workers=ctx.pick(4, 8)) as ex:
        results = list(ex.map(one, jobs))
    for (kind, front, what, _), r in results:
        if kind == 'witness' and r.violated != what:
            raise tlc.MachineryError('witness %s (%s) not reachable' % (what, front))
        if kind == 'deviation':
            if r.violated != 'NothingBad':
                raise tlc.MachineryError('deviation %s (%s) does not violate any property clause in the spec' % (what, front))
            ctx.add_tlc('NfdReg %s deviation %s -> counterexample' % (front, what), r)


def stage_ind(ctx):
    """Unbounded part: Apalache proves an inductive invariant of the counting abstraction NfdRegInd for any number of
    concurrent calls, commands and clock values (semaphore discipline => one command outstanding; guard => every
    command's timestamp above the previous one); TLC checks that NfdReg (correct design) refines NfdRegInd."""
    from harness import ind
    for front in ('v2', 'legacy'):
        rp = os.path.join(tlc.BUILD, 'NfdRegRef_%s.cfg' % front)
        tlc.write_cfg(rp, constants=consts(front, 3, ['a'], 1, 2, 3, ['r200', 'r400', 'silence'], [], stall=(front == 'v2')),
                      invariants=['IndInvHolds', 'WireIncreasing'], properties=['RefinesInd'])
        # the same with calls cancelled by their caller (CancelWaiting / CancelSleeping / CancelSent -> CancelWait / CancelSleep /
        # CancelSent of the abstraction), on a smaller configuration
        rc = os.path.join(tlc.BUILD, 'NfdRegRef_%s_cancel.cfg' % front)
        tlc.write_cfg(rc, constants=consts(front, 3, ['a'], 0, 1, 2, ['r200', 'silence'], [], maxcancel=ctx.pick(1, 2),
                                           verbs=ctx.pick(('register',), ('register', 'unregister'))),
                      invariants=['IndInvHolds', 'WireIncreasing'], properties=['RefinesInd'])
        for what, cfgp in (('', rp), (' with cancellations', rc)):
            r = tlc.run('NfdRegRef', cfgp, workers=4, heavy=False, tag='c17r')
            ctx.add_tlc('NfdReg (%s) refines NfdRegInd%s' % (front, what), r)
            if r.violated:
                ctx.violation('C17/spec/NfdRegRef/%s/%s' % (front, r.violated),
                              'TLC: %s violated (NfdReg%s does not refine NfdRegInd)' % (r.violated, what), {'trace': r.errtrace})
    ind.apalache(ctx, 'C17', 'NfdRegInd',
                 [('InitA', 'IndInv', 0, 'Init => IndInv'), ('IndInit', 'IndInv', 1, "IndInv /\\ Next => IndInv'"),
                  ('IndInit', 'Safety', 0, 'IndInv => OneAtATime /\\ OnePastSemaphore'),
                  ('IndInit', 'TsIncreases', 1, "IndInv /\\ Next => every new command's timestamp is above the previous one")])


def run(ctx):
    ctx.rule = ('A: TLC exhaustive on NfdReg (both front-ends; 3 concurrent calls x free clock; all 8 reply kinds x body; routes over '
                '2 connections; calls cancelled by their caller in the semaphore queue / the guard sleep / the wait for the reply). '
                'B: transition-cover stimulus sequences of the NfdReg graphs replayed on the real front-ends, '
                'TLC-enumerated ControlResponses decoded by parse_response. C: random 8-call mixes (half of them with calls cancelled while '
                'in progress) judged by NfdRegTrace, random '
                'ControlResponses judged by NfdRegResp. non-trivial = distinct stimulus sequence with a forwarder reply or a cancellation and >= 2 '
                'calls (B) / >= 3 calls (C) or declared routes; distinct ControlResponse with at least one body field')
    ctx.assumptions = ['wall clock never goes backwards; 1 ms of loop time is at least 1 ms of wall time',
                       'express()/express_interest() deliver Data/Nack/timeout correctly (C03)',
                       'SHA-256 from hashlib is the reference for digests',
                       'v2: a validation failure of the reply is injected by substituting the validator at NDNApp.express '
                       '(NfdRegister hard-wires pass_all)']
    import time
    t0 = time.time()
    if 'A' in ctx.stages:
        stage_a(ctx)
        stage_ind(ctx)
        from harness import lifecheck
        lifecheck.stage_a(ctx, ctx.quick)
        ctx.note('stage A wall %.0fs' % (time.time() - t0))
    t1 = time.time()
    forced = {}
    if 'B' in ctx.stages or 'C' in ctx.stages:
        # which named deviations does the code under test have? (small graph, every deviation optional)
        for front in ('v2', 'legacy'):
            learn = {'has': set(), 'hasnot': set()}
            stage_b(ctx, front, 'learn', consts(front, 2, ['a'], 0, 1, 0 if front == 'legacy' else 1, ['r200', 'r400', 'garbage'],
                                                DEVS_OF[front]), 0, 2, max_paths=ctx.pick(200, 1500), learn=learn)
            if front == 'v2':
                # the wall clock stands still while loop time passes: does the timestamp guard hold?
                stage_b(ctx, front, 'learn-stall', consts(front, 2, ['a'], 0, 1, 0, ['r200'], DEVS_OF[front], stall=True), 0, 2,
                        max_paths=ctx.pick(60, 300), learn=learn)
            unknown = [d for d in DEVS_OF[front] if d not in learn['has'] and d not in learn['hasnot']]
            if learn['has'] & learn['hasnot']:
                ctx.violation('C17/%s/inconsistent-deviation' % front, 'the code shows and does not show %s' % sorted(
                    learn['has'] & learn['hasnot']), {'learn': {k: sorted(v) for k, v in learn.items()}})
            forced[front] = (sorted(learn['has'] - learn['hasnot']), unknown)
            ctx.note('%s: deviations of NfdReg.tla the code under test has: %s; not decided: %s' % (front, forced[front][0], unknown))
    if 'B' in ctx.stages:
        for front in ('v2', 'legacy'):
            has, unk = forced[front]
            stage_b(ctx, front, 'replies', consts(front, 2, ['root'], 0, 1, 1, ALL_KINDS, unk, has), 0, 2,
                    max_paths=ctx.pick(500, None))
            stage_b(ctx, front, 'conc', consts(front, 3, ['long'], 0, 1, ctx.pick(1, 2), ctx.pick(['r200'], ['r200', 'r400']), unk, has), 0, 3,
                    max_paths=ctx.pick(500, 15000))
            # one declared route, two connections, one user register in between: 3 commands fit in clock 0..2
            stage_b(ctx, front, 'routes', consts(front, 3, ['a'], 1, 2, 2, ['r200', 'nack'], unk, has, verbs=('register',)), 1, 3,
                    max_paths=ctx.pick(300, 8000))
            # a route declared while connected: registered now, and once on the next connection
            stage_b(ctx, front, 'late', consts(front, ctx.pick(3, 4), ['a'], 0, 2, ctx.pick(2, 3), ['r200'], unk, has,
                                               verbs=ctx.pick((), ('register',)), late=['z']), 0, ctx.pick(3, 4), max_paths=ctx.pick(200, 4000))
            # wall clock standing still while loop time passes
            stage_b(ctx, front, 'stall', consts(front, 2, ['a'], 0, 1, 1, ['r200'], unk, has, stall=True), 0, 2,
                    max_paths=ctx.pick(150, 2000))
            # calls cancelled by their caller: in the semaphore queue, in the guard sleep (holding the semaphore), waiting
            # for the reply; the calls behind go on, a call made afterwards gets its command out, a late reply goes nowhere
            stage_b(ctx, front, 'cancel', consts(front, 3, ['a'], 0, 1, ctx.pick(1, 2), ['r200'], unk, has, maxcancel=ctx.pick(1, 2),
                                                 verbs=('register',)), 0, 3, max_paths=ctx.pick(400, 15000))
            if not ctx.quick:
                stage_b(ctx, front, 'cancel2', consts(front, 3, ['a'], 0, 1, 1, ['r200'], unk, has, maxcancel=2), 0, 3, max_paths=8000)
                stage_b(ctx, front, 'routes2', consts(front, 4, ['a'], 2, 2, 3, ['r200', 'nack'], unk, has, verbs=('register',)), 2, 4,
                        max_paths=8000)
        recs = stage_resp_b(ctx)
        judge_resp(ctx, recs, 'b')
        # connection life cycle (AppLife.tla): which routes are registered on which connection when connections fail to
        # open, end in the middle of the auto-registration, or are cancelled; only the command / handler variables
        from harness import lifecheck
        lifecheck.stage_b(ctx, 'C17', ctx.quick)
        ctx.note('stage B wall %.0fs (incl. learning)' % (time.time() - t1))
    t2 = time.time()
    if 'C' in ctx.stages:
        n = ctx.pick(90, 2500)
        for front in ('v2', 'legacy'):
            stage_c(ctx, front, 0, n, forced[front])
            stage_c(ctx, front, 2, n // 3, forced[front])
        recs = []
        for _ in range(ctx.pick(400, 20000)):
            f = random_resp(ctx.rng)
            recs.append({'fields': f, 'result': parse_case(f)})
            if f['present']:
                recs.append({'fn': 'make_command_v2', 'fields': f, 'result': encode_case(f)})
        judge_resp(ctx, recs, 'c')
        ctx.traces += len(recs)
        ctx.evaluations += len(recs)
        ctx.note('stage C wall %.0fs' % (time.time() - t2))


def replay(ctx, path):
    with open(path) as f:
        obj = json.load(f)
    if obj.get('kind') == 'life':
        from harness import lifecheck
        return lifecheck.replay(ctx, obj)
    if obj.get('kind') == 'path':
        sc = Scenario(obj['front'], ['x', 'y'][:obj['routes']], obj['ncalls'], long_len=obj.get('long_len', 200),
                      variant=obj.get('variant', 0))
        calls, answered = {}, set()
        try:
            for lab in obj['labels']:
                act, args = lab[0], lab[1:]
                if act == 'Call':
                    calls[args[0]] = (args[1], '/' + args[2])
                if act in CANCELS:
                    sc.cancel(args[0], args[1])
                elif act in ('FwdReply', 'LateReply'):
                    if act == 'LateReply':
                        args = [args[0], 'r200', True, args[1]]
                    # the command of call c: first unanswered command with its verb and prefix (auto-registrations: first unanswered)
                    open_ = [i for i in range(len(sc.cmds)) if i not in answered]
                    want = calls.get(args[0])
                    same = [i for i in open_ if want and (sc.cmds[i]['verb'], sc.cmds[i]['prefix']) == want]
                    idx = (same or open_)[0]
                    answered.add(idx)
                    sc.reply(idx, args[1], args[2], args[3])
                else:
                    apply(sc, (), None, act, args)
                print(lab, '->', json.dumps(sc.post()), sc.wire_errors)
        finally:
            sc.close()
        return 0
    if obj.get('kind') == 'trace':
        rec = obj['rec']
        rej = judge(ctx, rec['front'], rec['routes'], [rec], 'replay')
        for v in ctx.violations:
            print(v['sig'], '-', v['what'][:300])
        return 1 if (rej or ctx.violations) else 0
    if obj.get('kind') == 'resp':
        fn = encode_case if obj['rec'].get('fn') == 'make_command_v2' else parse_case
        got = fn(obj['rec']['fields'])
        print(obj['rec'].get('fn', 'parse_response'), json.dumps(obj['rec']['fields']), '->', json.dumps(got))
        return 0
    print(json.dumps(obj, indent=1)[:4000])
    return 0
