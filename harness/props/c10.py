"""C10 - link-layer envelopes are transparent: a packet inside an LpPacket is processed like the bare one,
a Nack header completes exactly the Interests it names with precisely that reason, unknown headers are
ignored, fragmented envelopes rejected; replies echo the PIT token byte for byte.
Reception half on NdnPit.tla (env parameter, reasons), token half on NdnFib.tla (v2 reply callback)."""
import json
from harness import pitcheck as pc, fibcheck as fc, pitkit, fibkit
from harness import strict_tlv as st
from harness.appkit import enc, nm
from harness.props import c03, c04


def frag_junk_factory():
    """Fragmented envelopes, and envelopes with a Nack header, around Data that *would* satisfy pending Interests:
    must be dropped without effect."""
    ws = []
    for ni, name in enumerate(pc.NAMES):
        for k in (1, 2):
            d = bytes(enc.make_data(nm(name), enc.MetaInfo(), b'D%d' % (k + 10 * ni)))
            ws.append(pitkit.lp_wrap(d, frag=(0, 1)).hex())
            ws.append(pitkit.lp_wrap(d, frag=(0, 2), extra=True).hex())
            ws.append(pitkit.lp_wrap(d, frag=(1, 2), odd=True).hex())      # Sequence, FragIndex, FragCount in NDNLPv2 order
            # a Nack header names an Interest: around a Data packet it names nothing and must not deliver the Data either
            ws.append(pitkit.lp_wrap(d, nack_reason=150).hex())
            ws.append(pitkit.lp_wrap(d, nack_reason=0, extra=True).hex())
    def junk(rng):
        return rng.choice(ws)
    return junk


def codec_roundtrips(ctx):
    """NDNLPv2 codec level: envelopes built by the harness' own writer are decoded by the library, and
    envelopes built by the library are decoded by the strict reader; reasons 0..2^64-1, tokens of length 0..33."""
    inner = bytes(enc.make_interest('/a/b', enc.InterestParam(lifetime=100, nonce=5)))
    for reason in (0, 1, 50, 100, 150, 252, 253, 255, 256, 65535, 65536, 2**32 - 1, 2**32, 2**32 + 5, 2**64 - 1):
        ctx.evaluations += 1
        w = pitkit.lp_wrap(inner, nack_reason=reason, extra=True)
        try:
            got = enc.parse_lp_packet_v2(w)
            bad = got.nack is None or got.nack.nack_reason != reason or bytes(got.fragment) != inner
            seen = got.nack and got.nack.nack_reason
        except Exception as ex:  # noqa
            bad, seen = True, 'raised %s' % type(ex).__name__
        if bad:
            ctx.violation('C10/parse_lp_packet_v2/nack-reason/%s' % ('big' if reason >= 2**32 else 'small'),
                          'reason %d decoded as %r' % (reason, seen), {'hex': w.hex()})
        try:
            r2, f2 = enc.parse_lp_packet(w)
            bad = r2 != reason or bytes(f2) != inner
        except Exception as ex:  # noqa
            bad, r2 = True, 'raised %s' % type(ex).__name__
        if bad:
            ctx.violation('C10/parse_lp_packet/nack-reason', 'reason %d decoded as %r' % (reason, r2), {'hex': w.hex()})
        w2 = bytes(enc.make_network_nack(inner, reason))
        top = st.read_tlv(w2, containers={0x64: {0x0320: {}}})
        els = dict(top[0][1])
        if st.read_uint(dict(els[0x0320])[0x0321]) != reason or els[0x50] != inner:
            ctx.violation('C10/make_network_nack/encoding', 'reason %d encoded wrongly' % reason, {'hex': w2.hex()})
    for tok in fibkit.TOKENS[1:] + [b'\x00', b'\xff' * 16]:
        ctx.evaluations += 1
        w = pitkit.lp_wrap(inner, token=tok, extra=True)
        try:
            got = enc.parse_lp_packet_v2(w)
        except Exception as ex:  # noqa  - an envelope with a token of any length is an envelope
            ctx.violation('C10/parse_lp_packet_v2/pit-token/raised-%s' % type(ex).__name__,
                          'envelope with a %d-octet PIT token refused: %s' % (len(tok), ex), {'hex': w.hex()})
            continue
        if got.pit_token is None or bytes(got.pit_token) != tok or bytes(got.fragment) != inner or got.nack is not None:
            ctx.violation('C10/parse_lp_packet_v2/pit-token', 'token %s decoded as %r' % (tok.hex(), got.pit_token), {'hex': w.hex()})
    for fr, odd in (((0, 1), False), ((0, 2), False), ((1, 2), False), ((0, 2), True), ((1, 2), True)):
        ctx.evaluations += 1
        try:
            enc.parse_lp_packet_v2(pitkit.lp_wrap(inner, frag=fr, odd=odd))
            ctx.violation('C10/parse_lp_packet_v2/fragment-accepted', 'fragmented envelope %r accepted' % (fr,), {})
        except enc.DecodeError:
            pass


def run(ctx):
    ctx.rule = ('A: TLC on NdnPit with every envelope kind and two reasons, on NdnFib with tokens none/t1/t2 and several '
                'outstanding Interests answered in any order; B: transition covers executed with envelopes built by the harness '
                'own NDNLPv2 writer; C: random schedules with 5 reason codes (0, absent=0, 50, 150, 2^32+5, 2^64-1), tokens of length '
                '0,1,8,32,33, optional/unknown headers, and fragmented envelopes around matching Data; judged by TLC. '
                'non-trivial = distinct schedule with an LP-wrapped packet, a Nack or a token')
    ctx.assumptions = ['virtual-time loop', 'envelopes are produced by the harness strict writer, not by the library encoder',
                       'legacy front-end has no reply callback: the token clause is decided on appv2 only']
    if 'A' in ctx.stages:
        pc.stage_a(ctx, [('v2 envelopes+reasons', pc.mc_cfg('pit-A10', 'v2', 2, 2, 'small', 'v2one', R='R_two', E='E_all')),
                         ('legacy envelopes', pc.mc_cfg('pit-A10-l', 'legacy', 2, 1, 'small', 'legacyone', R='R_two', E='E_all'))])
        cfgs10 = [('v2 tokens x replies', fc.mc_cfg('fib-A10', 'v2', 'small', 'reply', 'v2two', 2, 2, 1, reps=ctx.pick(3, 4), E='E_all'))]
        if not ctx.quick:
            cfgs10.append(('v2 3 Interests x tokens', fc.mc_cfg('fib-A10b', 'v2', 'small', 'reply', 'v2two', 3, 1, 1, reps=3, E='E_two')))
        fc.stage_a(ctx, cfgs10,
                   required=('RecvInterest', 'Reply'))
    if 'B' in ctx.stages:
        for front, V in (('v2', 'v2one'), ('legacy', 'legacyone')):
            cfgp = pc.mc_cfg('pit-B10-' + front, front, 2, 1, 'small', V, R='R_two', E='E_all', invs=[], props=[])
            pc.stage_b(ctx, front, cfgp, 'envelopes 2 entries', devs=c03.DEVS[front], report_devs=False, max_paths=ctx.pick(600, 12000))
        cfgp = fc.mc_cfg('fib-B10', 'v2', 'small', 'reply', 'v2two', 2, ctx.pick(0, 1), 1, reps=ctx.pick(2, 3), E=ctx.pick('E_two', 'E_all'), invs=[], props=[])
        fc.stage_b(ctx, 'v2', cfgp, 'tokens 2 Interests 3 replies', max_paths=ctx.pick(600, 12000))
    if 'C' in ctx.stages:
        junk = frag_junk_factory()
        for front in ('v2', 'legacy'):
            pc.stage_c(ctx, front, ctx.pick(250, 3000), 40, devs=c03.DEVS[front], report_devs=False, junk=junk,
                       envs=('lp', 'lph', 'lpo', 'bare'), weights=dict(RecvNack=6, RecvData=6, RecvJunk=3, ValFinish=4))
        fc.stage_c(ctx, 'v2', ctx.pick(250, 3000), 40, names=fc.NAMES[1:],
                   weights=dict(RecvInterest=10, Reply=9, IntValFinish=5, Tick=2, Attach=3, AttachDup=0.2, Detach=0.5))
        fc.stage_c_long(ctx, 'v2', ctx.pick(2, 12))
    codec_roundtrips(ctx)


def replay(ctx, path):
    with open(path) as f:
        obj = json.load(f)
    if obj.get('kind') == 'trace' and 'templates' not in obj['rec']:
        return c04.replay(ctx, path)
    return c03.replay(ctx, path)
