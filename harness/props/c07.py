"""C07 - packet decoders accept exactly the well-formed packets, reject with documented decoding errors,
extract the fields a strict reading gives, and terminate in time proportional to the input.
Spec: TlvNum, TlvModel, TlvModelScan, TlvModelPackets, TlvModelC07, TlvModelC07Judge.

A  TLC on the scan machine instantiated with the Interest / Data / Certificate / LpPacket schemas over all
   element sequences (alphabet: recognised fields x value classes, unknown critical / non-critical,
   overrunning and cut elements): Verdict = accept <=> WellFormed, out = Extract (+ the Name law).
B  every terminal state of that run is emitted by TLC; the sequence is serialised with the strict writer and
   given to parse_interest / parse_data / parse_certificate / parse_lp_packet_v2 / Name.from_bytes.
C  mutation corpus (single-byte substitutions, truncations, TLV-structural edits of valid packets) and random
   strings, classified by the strict reader, decoded, and judged by TLC (TlvModelC07Judge).
   Linear time: interpreter line events in tlv_model.py / Name.py / tlv_var.py on inputs scaled 1x 2x 4x 8x.
Histories: the reference starts every packet from InitSt, so a decoder's answer is a function of the bytes alone. B and C
   are therefore repeated in FRESH interpreters that meet the inputs in other orders (adverse = everything irregular
   first and the well-formed packets last, reversed, seeded shuffles; all decoders interleaved): B answers are compared
   with TLC's expectations, C answers judged by TlvModelC07Judge (hist field); signatures C07/<fn>/history:<order>/...
"""
import json, os, sys, zlib

from harness import tlc, tlvkit as kit, strict_tlv as stl, tlaval

INVS = ['AcceptIffWellFormed', 'ExtractEqual', 'RejectHasReason', 'AgreesWithRunScan', 'PosBound']
PROPS = ['OneElementPerStep', 'FposMonotone']
WITNESSES = ['W_AcceptFull', 'W_MissingName', 'W_LpFrag', 'W_NestedOverrun', 'W_IgnoredByFlagIn', 'W_OooNonCritical']
ACTIONS = ['FieldFound', 'SkippedFound', 'IgnoredNonCritical', 'IgnoredCriticalByFlag', 'RejectCritical', 'Overrun', 'CutNumber',
           'BadUintWidth', 'BadName', 'BadNested', 'Done']
SUBST = 'CONSTANTS SchemaOfCase <- C07Schema IcOfCase <- C07Ic InputOfCase <- C07Input'
FN = {'interest': 'parse_interest', 'data': 'parse_data', 'cert': 'parse_certificate', 'lp': 'parse_lp_packet_v2',
      'name': 'Name.from_bytes', 'lp.legacy': 'parse_lp_packet', 'lp.nack': 'parse_network_nack',
      'interest2017': '2017.parse_interest', 'data2017': '2017.parse_data'}


# ------------------------------------------------------------------ running the real decoders

def decoder_of(pk):
    from ndn import encoding as enc
    from ndn.app_support.security_v2 import parse_certificate
    from ndn.encoding import ndn_format_0_3_2017 as f17
    return {'interest': enc.parse_interest, 'data': enc.parse_data, 'cert': parse_certificate, 'lp': enc.parse_lp_packet_v2,
            'name': enc.Name.from_bytes, 'lp.legacy': enc.parse_lp_packet, 'lp.nack': enc.parse_network_nack,
            'interest2017': f17.parse_interest, 'data2017': f17.parse_data}[pk]


HAS_WITH_TL = ('interest', 'data', 'lp', 'lp.legacy', 'lp.nack', 'interest2017', 'data2017')


def decode(pk, wire, schema, container='bytearray', with_tl=True):
    """-> (got, out, ptr): got = accept | reject (documented decoding error) | error:<class>; out = projection of
    the returned fields, aligned with the packet schema of the spec (components for a name; (NackReason, Fragment)
    for lp.legacy / lp.nack); ptr = the SignaturePtrs (TlvModelPackets.Ptrs; only read back for a bytearray input).
    container: how the input is handed over - bytearray (writable, lets the offsets of returned views be read
    back), bytes (what a face delivers), memoryview (a read-only view at a non-zero offset of a larger buffer)."""
    f2a = kit.field_to_abstract
    ptr = {'dvb': kit.NONE, 'scn': {'k': 'list', 'items': []}, 'scr': [], 'dcr': []}
    if container == 'bytearray':
        wire = bytearray(wire)
    elif container == 'bytes':
        wire = bytes(wire)
    else:
        wire = memoryview(b'\x05\xfd' + bytes(wire) + b'\x07')[2:-1]
    fn = decoder_of(pk)
    try:
        res = fn(wire) if with_tl else fn(wire, with_tl=False)
    except Exception as ex:  # noqa
        return ('reject' if kit.exc_class(ex) == 'documented' else 'error:' + type(ex).__name__), [], ptr
    want_ptr = container == 'bytearray' and with_tl
    # projection of what was returned; a result of an unexpected shape is reported as such, not as a driver error
    try:
        if pk in ('interest', 'interest2017'):
            name, par, app, sig = res
            fh = par.forwarding_hint
            if not fh:
                fhv = kit.NONE
            elif pk == 'interest':
                fhv = {'k': 'model', 'v': [{'k': 'list', 'items': [f2a(schema[0], n, None) for n in fh]}]}
            else:
                dd = schema[3]['sub'][0]['elem'][0]['sub']
                fhv = {'k': 'model', 'v': [{'k': 'list', 'items': [{'k': 'model', 'v': [f2a(dd[0], pr, None), f2a(dd[1], n, None)]}
                                                                    for pr, n in fh]}]}
            out = [f2a(schema[0], name, None), f2a(schema[1], par.can_be_prefix, None), f2a(schema[2], par.must_be_fresh, None), fhv,
                   f2a(schema[4], par.nonce, None), f2a(schema[5], par.lifetime, None), f2a(schema[6], par.hop_limit, None),
                   f2a(schema[7], app, None), f2a(schema[8], sig.signature_info, None), f2a(schema[9], sig.signature_value_buf, None)]
            if want_ptr:
                cov = list(sig.signature_covered_part or [])
                has_range = sig.signature_value_buf is not None and len(cov) > 0
                ptr = {'dvb': f2a(schema[7], sig.digest_value_buf, None),
                       'scn': {'k': 'list', 'items': [kit.comp_abstract(c) for c in (cov[:-1] if has_range else cov)]},
                       'scr': elem_range(wire, cov[-1]) if has_range else [],
                       'dcr': elem_range(wire, sig.digest_covered_part[0]) if sig.digest_covered_part else []}
        elif pk in ('data', 'data2017'):
            name, meta, content, sig = res
            out = [f2a(schema[0], name, None), f2a(schema[1], meta, None), f2a(schema[2], content, None),
                   f2a(schema[3], sig.signature_info, None), f2a(schema[4], sig.signature_value_buf, None)]
            if want_ptr:
                cov = list(sig.signature_covered_part or [])
                ptr['scr'] = elem_range(wire, cov[-1]) if sig.signature_value_buf is not None and cov else []
        elif pk in ('cert', 'lp'):
            out = kit.to_abstract(schema, res)
        elif pk in ('lp.legacy', 'lp.nack'):
            reason, frag = res
            out = [f2a(schema[3]['sub'][0], reason, None), f2a(schema[12], frag, None)]
        else:
            out = [kit.comp_abstract(c) for c in res]
    except Exception as ex:  # noqa
        out = [{'k': 'unprojectable-result', 'exc': type(ex).__name__}]
    return 'accept', out, ptr


def lp_side_expect(pk, verdict, why, exp):
    """(NackReason, Fragment) decoders, from the reference result of the LP machine (same as LpLegacyOut / NetNackOut)"""
    if verdict != 'accept' and not (pk == 'lp.nack' and why == 'lp-fragmentation-unsupported'):
        return 'reject', []
    nack = exp[3]
    if nack['k'] == 'none':
        reason = kit.NONE
    else:
        reason = nack['v'][0] if nack['v'][0]['k'] != 'none' else {'k': 'uint', 'n': []}
    if pk == 'lp.nack' and nack['k'] == 'none':
        return 'accept', [kit.NONE, kit.NONE]
    return 'accept', [reason, exp[12]]


OUTER_T = {'interest': 5, 'data': 6, 'lp': 100, 'lp.legacy': 100, 'lp.nack': 100, 'interest2017': 5, 'data2017': 6}
VARIANTS = ('bytes', 'memoryview', 'with_tl=False')


def check_variant(ctx, k, pk, wire, schema, got, out, rep):
    """The same input handed over in another way must give the same verdict and fields as the judged call:
    bytes, a read-only memoryview at an offset, and (decoders that have it) the value alone with with_tl=False."""
    var = VARIANTS[k % 3]
    if var == 'with_tl=False':
        if pk not in HAS_WITH_TL:
            var = 'bytes'
        else:
            try:
                t, s1 = stl.parse_var(wire, 0, None, shortest=False)
                ln, s2 = stl.parse_var(wire, s1, None, shortest=False)
            except stl.TlvError:
                return
            if s1 + s2 + ln != len(wire) or t != OUTER_T[pk]:
                return                      # the outer Type / Length is wrong: only the with_tl=True path sees that
            g, o, _ = decode(pk, wire[s1 + s2:], schema, 'bytes', with_tl=False)
    if var != 'with_tl=False':
        g, o, _ = decode(pk, wire, schema, var)
    if (g, o) != (got, out):
        ctx.violation('C07/%s/variant:%s/%s-vs-%s' % (FN[pk], var, got, g if g != got else 'fields-differ'),
                      '%s(%s) handed over as %s: %s, but %s for the bytearray call' % (FN[pk], wire.hex()[:200], var, g, got),
                      dict(rep, variant=var))


def elem_range(wire, buf):
    """element range code of a returned buffer (see TlvModelPackets.Ptrs): [] none, [0, 0] empty, [a, b] = the
    top-level elements a .. b-1 of the packet value, [9999, 9999] not aligned on element boundaries / not a view"""
    import ctypes
    if buf is None:
        return []
    if len(buf) == 0:
        return [0, 0]
    try:
        base = ctypes.addressof(ctypes.c_char.from_buffer(wire))
        start = ctypes.addressof(ctypes.c_char.from_buffer(buf)) - base
    except (TypeError, ValueError):
        return [9999, 9999]
    end = start + len(buf)
    _, s1 = stl.parse_var(wire, 0, None, shortest=False)
    _, s2 = stl.parse_var(wire, s1, None, shortest=False)
    offs, off = [], s1 + s2
    try:
        while off < len(wire):
            offs.append(off)
            t, a = stl.parse_var(wire, off, None, shortest=False)
            ln, b = stl.parse_var(wire, off + a, None, shortest=False)
            off += a + b + ln
    except stl.TlvError:
        pass
    offs.append(len(wire))
    if start in offs and end in offs:
        return [offs.index(start) + 1, offs.index(end) + 1]
    return [9999, 9999]


def ptrs_ok(e, g):
    """same rule as PtrsOk in TlvModelPackets.tla (e = TLC's expectation, g = observed)"""
    un = {'k': 'unspecified'}
    return (e['dvb'] == un or e['dvb'] == g['dvb']) and (e['scn'] == un or e['scn'] == g['scn']) and \
        (e['scr'] == [] or e['scr'] == g['scr'] or (e['scr'][0] == e['scr'][1] and g['scr'] == [0, 0])) and \
        (e['dcr'] == [] or e['dcr'] == g['dcr'])


def norm_expected(pk, out):
    """decoder-level normalisation of the generic machine output (same as Norm in TlvModelC07Judge)"""
    if pk in ('interest', 'interest2017') and out[3]['k'] == 'model' and not out[3]['v'][0]['items']:
        out[3] = kit.NONE
    if pk == 'data' and out[1]['k'] == 'none':        # (the 2017 parse_data returns None for an absent MetaInfo)
        out[1] = {'k': 'model', 'v': [{'k': 'uint', 'n': []}, kit.NONE, kit.NONE]}
    return out


def packet_wire(outer_t, value):
    return stl.write_var(outer_t) + stl.write_var(len(value)) + value


def classify(pk, wire, schema, outer_t):
    """strict reader: bytes -> (outer class, abstract element tree of the value)"""
    try:
        t, s1 = stl.parse_var(wire, 0, None, shortest=False)
        ln, s2 = stl.parse_var(wire, s1, None, shortest=False)
    except stl.TlvError:
        return 'trunc', []
    if t != outer_t:
        return 'badtype', []
    rest = len(wire) - s1 - s2
    if ln > rest or (ln < rest and pk != 'name'):
        return 'badlen', []
    return 'ok', kit.project_raw(wire, schema, s1 + s2, s1 + s2 + ln)


# ------------------------------------------------------------------ stage A+B

def run_machine(ctx, tag, maxlen, lvl, pks, workers):
    tab = kit.scratch('c07-tab-%s.json' % tag)
    cfg = kit.write_cfg('TlvModelC07_%s.cfg' % tag, constants={'MaxLen': maxlen, 'Lvl': lvl, 'Pks': '{%s}' % ','.join('"%s"' % p for p in pks)},
                        invariants=INVS + ['Emit'], properties=PROPS, raw=SUBST)
    r = tlc.run('TlvModelC07', cfg, workers=workers, env={'C07_TAB': tab})
    ctx.add_tlc('TlvModelC07 MaxLen=%d Lvl=%d' % (maxlen, lvl), r)
    if r.violated:
        ctx.violation('C07/spec/%s' % r.violated, 'TLC: %s violated on the reference machine' % r.violated, {'trace': r.errtrace})
        return None, []
    with open(tab) as f:
        table = json.load(f)
    seqs = []
    buf = None
    for line in r.out.splitlines():
        # TLC pretty-prints a long value over several lines ("<< "S",\n   ..."): collect until the brackets balance
        if buf is None and (line.startswith('<<"S",') or line.startswith('<< "S",')):
            buf = []
        if buf is not None:
            buf.append(line)
            txt = ' '.join(buf)
            if txt.count('<<') == txt.count('>>'):
                v = tlaval.parse(txt)
                seqs.append((v[1], list(v[2]), v[3], v[4], [tuple(x) for x in v[5]], tlaval.to_json(v[6])))
                buf = None
    # every terminal state must have been emitted and parsed: one per initial state (= per sequence)
    import re
    m = re.search(r'Finished computing initial states: (\d+) distinct state', r.out)
    n_machine = sum(1 for q in seqs if q[0] != 'name')
    if buf is not None or not m or int(m.group(1)) != n_machine:
        raise tlc.MachineryError('TlvModelC07 %s: %s initial states but %d emitted terminal states parsed' % (
            tag, m.group(1) if m else '?', n_machine))
    return table, seqs


def build_case(table, item):
    """one TLC-emitted terminal state -> the bytes given to the decoder and what TLC expects back"""
    pk, w, verdict, why, taken, eptr = item
    T = table[pk]
    schema, letters = T['schema'], T['letters']
    elems = [letters[i - 1] for i in w]
    fr = T['frame']
    seq_pk = pk
    if fr['parent']:
        # nested level: the sequence is the content of a container inside a fixed frame of the parent packet
        full = fr['pre'] + [kit.node(kit.unlimbs(fr['t']), elems)] + fr['post']
        pk, dschema = fr['parent'], fr['pschema']
    else:
        full, dschema = elems, schema
    wire = packet_wire(kit.unlimbs(T['outer']), kit.wire_of(full))
    # trusted-base cross-check: the strict reader projects the strict writer's output onto the same elements
    oc, tree = classify(pk, wire, dschema, kit.unlimbs(T['outer']))
    if oc != 'ok' or tree != full:
        raise tlc.MachineryError('strict reader/writer disagree on %s %s: %s' % (seq_pk, w, oc))
    exp = None
    if verdict == 'accept' or why == 'lp-fragmentation-unsupported':
        if pk == 'name':
            exp = [T['values'][i - 1]['fv'] for i in w]
            exp = [{'t': c['t'], 'runs': c['runs']} for c in exp]
        else:
            exp = [({'k': 'list', 'items': []} if d['kind'] == 'repeated' else kit.NONE) for d in schema]
            for i, p in taken:
                fv = T['values'][w[p - 1] - 1]['fv']
                if schema[i - 1]['kind'] == 'repeated':
                    exp[i - 1]['items'].append(fv)
                else:
                    exp[i - 1] = fv
            if fr['parent']:
                pexp = json.loads(json.dumps(fr['pout']))
                pexp[fr['field'] - 1] = {'k': 'model', 'v': exp}
                exp = pexp
            exp = norm_expected(pk, exp)
    return {'pk': pk, 'seq_pk': seq_pk, 'w': w, 'wire': wire, 'dschema': dschema, 'schema': schema, 'verdict': verdict, 'why': why,
            'exp': exp, 'eptr': eptr, 'nested': bool(fr['parent']),
            # TLC's own account of the sequence: rejected, or an element it did not take (unknown, repeated, out of order)
            'irregular': verdict != 'accept' or len(taken) < len(w)}


def judge_case(ctx, c, got, out, ptr, hist=''):
    """decoder result against TLC's expectation; hist = the order the decoder met its inputs in ('' = canonical)"""
    pk, wire, verdict, why = c['pk'], c['wire'], c['verdict'], c['why']
    h = 'history:%s/' % hist if hist else ''
    after = ' [decoded in a fresh interpreter, inputs in the order "%s"]' % hist if hist else ''
    rep = {'kind': 'wire', 'pk': pk, 'wire': wire.hex(), 'letters': c['w'], 'level': c['seq_pk']}
    if hist:
        rep['history'] = hist
    if got != verdict:
        ctx.violation('C07/%s/%s%s%s/%s' % (FN[pk], h, verdict, ':' + why if why else '', got),
                      '%s(%s): reference %s%s, implementation %s%s' % (FN[pk], wire.hex(), verdict, ' (%s)' % why if why else '', got, after), rep)
    elif verdict == 'accept' and out != c['exp']:
        ctx.violation('C07/%s/%saccept/fields-differ' % (FN[pk], h), '%s(%s): extracted fields differ from the strict reading%s' % (FN[pk], wire.hex(), after), rep)
    elif verdict == 'accept' and not c['nested'] and not ptrs_ok(c['eptr'], ptr):
        ctx.violation('C07/%s/%saccept/pointers-differ' % (FN[pk], h),
                      '%s(%s): SignaturePtrs %s differ from the strict reading %s%s' % (FN[pk], wire.hex(), json.dumps(ptr), json.dumps(c['eptr']), after), rep)
    else:
        return rep
    return None


def judge_side(ctx, c, side, g, o, hist=''):
    h = 'history:%s/' % hist if hist else ''
    wire, why = c['wire'], c['why']
    rep = {'kind': 'wire', 'pk': side, 'wire': wire.hex(), 'letters': c['w'], 'level': c['seq_pk']}
    if hist:
        rep['history'] = hist
    ev, eo = lp_side_expect(side, c['verdict'], why, c['exp'])
    if g != ev:
        ctx.violation('C07/%s/%s%s%s/%s' % (FN[side], h, ev, ':' + why if why and ev == 'reject' else '', g),
                      '%s(%s): reference %s, implementation %s' % (FN[side], wire.hex(), ev, g), rep)
    elif ev == 'accept' and o != eo:
        ctx.violation('C07/%s/%saccept/fields-differ' % (FN[side], h),
                      '%s(%s): (NackReason, Fragment) differ from the strict reading' % (FN[side], wire.hex()), rep)


def replay_sequences(ctx, table, seqs, seen, keep, cases):
    """every new sequence is decoded in this interpreter (the canonical order) and compared; those keep() selects are
    retained, with the observation made here, for the histories"""
    n = 0
    for item in seqs:
        key = (item[0], tuple(item[1]), len(table[item[0]]['letters']))
        if key in seen:
            continue
        seen.add(key)
        c = build_case(table, item)
        pk, wire, dschema = c['pk'], c['wire'], c['dschema']
        got, out, ptr = decode(pk, wire, dschema)
        c['canon'] = {None: (got, out, ptr)}            # the observation in the canonical order (see history_replay_collect)
        n += 1
        rep = judge_case(ctx, c, got, out, ptr)
        if rep is not None:
            check_variant(ctx, n, pk, wire, dschema, got, out, rep)
        if c['seq_pk'] == 'lp':
            for side in ('lp.legacy', 'lp.nack'):
                g, o, p = decode(side, wire, c['schema'])
                c['canon'][side] = (g, o, p)
                n += 1
                judge_side(ctx, c, side, g, o)
        if len(c['w']) >= 3 or c['why']:
            ctx.nt(['B', c['seq_pk'], c['w']])
        if keep(c):
            cases.append(c)
    return n


# ------------------------------------------------------------------ histories: the decoder is a function of the bytes alone

def history_orders(rng, items, irregular, n_shuffled):
    """Orders in which one fresh interpreter meets its inputs (indices into items). The reference machine starts every
    packet from InitSt - nothing survives a packet - so every order must give the verdicts of the canonical one.
      adverse   everything TLC calls irregular (rejected, or holding an element the machine did not take: unknown,
                repeated, out of order) first, longest first; the regular packets only afterwards
      reversed  the canonical order backwards
      shuffled  seeded permutations (decoders and packet kinds interleaved)"""
    idx = list(range(len(items)))
    adverse = sorted(idx, key=lambda i: (not irregular[i], -len(items[i][1]), i))
    out = [('adverse', adverse), ('reversed', idx[::-1])]
    for _ in range(n_shuffled):
        p = list(idx)
        rng.shuffle(p)
        out.append(('shuffled', p))
    return out


def history_start(name, k, items, schemas, order):
    """start a FRESH interpreter (fresh model classes: whatever the decoders remember starts empty) that decodes
    items = [(decoder, wire, schema index)] in the given order; returns a handle for history_collect"""
    import subprocess
    job, outp = kit.scratch('c07-hist-%s-%d.job.json' % (name, k)), kit.scratch('c07-hist-%s-%d.out.json' % (name, k))
    with open(job, 'w') as f:
        json.dump({'schemas': schemas, 'items': [[items[i][0], items[i][1].hex(), items[i][2]] for i in order]}, f, separators=(',', ':'))
    p = subprocess.Popen([sys.executable, '-m', 'harness.props.c07', '--history-child', job, outp],
                         stdout=subprocess.PIPE, stderr=subprocess.STDOUT, text=True, cwd=tlc.VERIF)
    return p, outp, order


def history_collect(handle, timeout=1800):
    """-> {item index: (got, out, ptr)}"""
    import subprocess
    p, outp, order = handle
    try:
        txt, _ = p.communicate(timeout=timeout)
    except subprocess.TimeoutExpired:
        p.kill()
        raise tlc.MachineryError('history interpreter timed out')
    if p.returncode != 0 or not os.path.exists(outp):
        raise tlc.MachineryError('history interpreter failed (%s): %s' % (p.returncode, (txt or '')[-1500:]))
    with open(outp) as f:
        res = json.load(f)
    if len(res) != len(order):
        raise tlc.MachineryError('history interpreter returned %d of %d results' % (len(res), len(order)))
    return {i: tuple(r) for i, r in zip(order, res)}


def history_child(job, outp):
    with open(job) as f:
        J = json.load(f)
    res = [decode(pk, bytes.fromhex(hx), J['schemas'][k]) for pk, hx, k in J['items']]
    with open(outp + '.tmp', 'w') as f:
        json.dump(res, f, separators=(',', ':'))
    os.replace(outp + '.tmp', outp)


def history_replay_start(ctx, cases):
    """stage B under histories: the seeded sample (history_keep) of the TLC-enumerated sequences (all packet kinds and nested levels
    mixed, the two sibling LP decoders included), decoded in fresh interpreters in each order of history_orders."""
    rng = ctx.rng
    cases = sorted(cases, key=lambda c: (c['seq_pk'], len(c['w']), c['w']))       # TLC's print order is not deterministic
    nshuf = ctx.pick(1, 4)
    schemas, skey, items, owner, irregular = [], {}, [], [], []

    def sk(schema):
        key = json.dumps(schema, sort_keys=True)
        if key not in skey:
            skey[key] = len(schemas)
            schemas.append(schema)
        return skey[key]
    for c in cases:
        for side in ((None, 'lp.legacy', 'lp.nack') if c['seq_pk'] == 'lp' else (None,)):
            items.append((side or c['pk'], c['wire'], sk(c['schema'] if side else c['dschema'])))
            owner.append((c, side))
            irregular.append(c['irregular'])
    orders = history_orders(rng, items, irregular, nshuf)
    if ctx.quick:
        orders = [o for o in orders if o[0] != 'reversed']
    return owner, [(name, history_start('b-' + name, k, items, schemas, order)) for k, (name, order) in enumerate(orders)]


def history_replay_collect(ctx, started):
    owner, handles = started
    n = nd = 0
    for name, h in handles:
        for i, (got, out, ptr) in sorted(history_collect(h).items()):
            c, side = owner[i]
            n += 1
            # an observation identical to the one made in the canonical order has been compared with TLC's expectation
            # there (and reported under the plain signature if it differs): only an answer that DEPENDS ON THE ORDER
            # is judged again, under a history signature
            if json.loads(json.dumps(c['canon'][side])) == [got, out, ptr]:
                continue
            nd += 1
            if side:
                judge_side(ctx, c, side, got, out, name)
            else:
                judge_case(ctx, c, got, out, ptr, name)
    ctx.note('B histories: %d sequences x %d orders (%s) decoded in fresh interpreters: %d decodings, %d answers differ from the one '
             'given in the canonical order' % (len({id(c) for c, _ in owner}), len(handles), ', '.join(nm for nm, _ in handles), n, nd))
    return n


# ------------------------------------------------------------------ stage C corpus

SCHEMA2017 = None     # Interest2017S, derived in _run from the TLC-emitted Interest schema (only ForwardingHint differs)


def schema2017(interest_schema):
    s = json.loads(json.dumps(interest_schema))
    name_d = s[0]
    deleg = [kit.descr('preference', 30, 'uint'), dict(name_d, name='delegation')]
    s[3]['sub'] = [kit.descr('delegations', 31, 'repeated', elem=[kit.descr('delegations', 31, 'model', sub=deleg)])]
    return s


def hand_corpus():
    """well-formed packets written with the strict writer only (independent of the library's encoders), among them
    certificates whose SignatureInfo carries every optional field: KeyLocator, ValidityPeriod, AdditionalDescription"""
    name = (7, [(8, b'id'), (8, b'KEY'), (8, b'\x01'), (8, b'self'), (54, b'\x01\x02')])
    validity = (253, [(254, b'20200102T030405'), (255, b'20300102T030405')])
    desc = (258, [(512, [(513, b'k1'), (514, b'v1')]), (512, [(513, b'k2'), (514, b'')])])
    meta = (20, [(24, b'\x02'), (25, b'\x00\x36\xee\x80')])
    kl = (28, [(7, [(8, b'K')])])
    out = []
    for si in ([(27, b'\x03'), kl, validity, desc], [(27, b'\x03'), validity, desc], [(27, b'\x03'), kl, desc],
               [(27, b'\x00'), validity], [(27, b'\x03'), kl, (38, b'\x01\x02\x03\x04'), (40, b'\x01'), (42, b'\x07'), validity, desc]):
        out.append(('cert', stl.write_tlv([(6, [name, meta, (21, b'\x30\x59' + b'\x11' * 20), (22, si), (23, b'\x05' * 8)])])))
    out.append(('data', stl.write_tlv([(6, [(7, [(8, b'a')]), (20, [(24, b'\x00'), (25, b'\x0a'), (26, b'\x32\x01\x09')]), (21, b'xyz'),
                                           (22, [(27, b'\x01'), kl]), (23, b'\x00' * 4)])])))
    out.append(('interest', stl.write_tlv([(5, [(7, [(8, b'a'), (2, b'\xdd' * 32)]), (33, b''), (18, b''), (30, [(7, [(8, b'h')])]),
                                               (10, b'\x00\x00\x00\x09'), (12, b'\x0f\xa0'), (34, b'\x20'), (36, b'pp'),
                                               (44, [(27, b'\x03'), kl, (38, b'\x00\x00\x00\x01'), (40, b'\x02'), (42, b'\x03')]),
                                               (46, b'\x07' * 8)])])))
    out.append(('interest', stl.write_tlv([(5, [(7, [(8, b'test'), (2, b'\xee' * 32), (8, b'ndn')]), (10, b'\x00\x00\x00\x02'), (36, b'\x01\x02'),
                                               (44, [(27, b'\x00')]), (46, b'\x09' * 32)])])))
    out.append(('lp', stl.write_tlv([(100, [(98, b'\x01\x02'), (800, [(801, b'\x96')]), (812, b'\x01\x00'), (820, [(821, b'\x01')]), (832, b'\x01'),
                                            (80, b'\x05\x03\x07\x01\x00')])])))
    return out


def corpus(ctx):
    """valid packets (pk, wire): hand-written ones plus packets built with the library's own encoders. A builder
    that fails on the tree under test is a finding about that tree, not a harness failure."""
    from ndn import encoding as enc
    from ndn.security import DigestSha256Signer
    from ndn.app_support import security_v2 as sv2
    from datetime import datetime
    sgn = DigestSha256Signer()

    def lp_tok():
        i0 = enc.make_interest('/n/1', enc.InterestParam(nonce=1, lifetime=10))
        lp = enc.ndnlp_v2.LpPacket()
        lp.lp_packet = enc.ndnlp_v2.LpPacketValue()
        lp.lp_packet.pit_token = b'\x01\x02\x03\x04'
        lp.lp_packet.congestion_mark = 1
        lp.lp_packet.fragment = bytes(i0)
        return lp.encode()
    builders = [
        ('interest', 'plain', lambda: enc.make_interest('/a/b', enc.InterestParam())),
        ('interest', 'all-fields', lambda: enc.make_interest('/local/ndn/prefix', enc.InterestParam(
            can_be_prefix=True, must_be_fresh=True, nonce=0x01020304, lifetime=6000, hop_limit=9, forwarding_hint=['/r1', '/r2/x']))),
        ('interest', 'signed', lambda: enc.make_interest('/cmd/x', enc.InterestParam(nonce=7), b'\x01\x02\x03', signer=sgn)),
        ('data', 'signed', lambda: enc.make_data('/a/b/c', enc.MetaInfo(freshness_period=1000), b'hello', signer=sgn)),
        ('data', 'unsigned', lambda: enc.make_data('/x', enc.MetaInfo(content_type=2, final_block_id=enc.Component.from_segment(3)), b'', signer=None)),
        ('data', 'big', lambda: enc.make_data('/big/32=k/%00', enc.MetaInfo(), b'\xab' * 300, signer=sgn)),
        ('lp', 'nack', lambda: enc.make_network_nack(enc.make_interest('/n/1', enc.InterestParam(nonce=1, lifetime=10)), 150)),
        ('lp', 'token', lp_tok),
        ('cert', 'new_cert', lambda: sv2.new_cert('/id/KEY/%01', enc.Component.from_str('self'), b'\x30\x59\x30\x13' + b'\x11' * 20, sgn,
                                                  datetime(2020, 1, 2, 3, 4, 5), datetime(2030, 1, 2, 3, 4, 5))[1]),
        ('cert', 'data-as-cert', lambda: enc.make_data('/a/b/c', enc.MetaInfo(freshness_period=1000), b'hello', signer=sgn)),
        ('name', 'uri', lambda: enc.Name.to_bytes('/a/b/32=kw/seg=5')),
        ('name', 'root', lambda: enc.Name.to_bytes('/')),
    ]
    out = [(pk, w, 'hand') for pk, w in hand_corpus()]
    # the other public decoders of the same formats see the same packets
    out += [('lp.legacy', w, o) for pk, w, o in out if pk == 'lp'] + [('lp.nack', w, o) for pk, w, o in out if pk == 'lp']
    out += [('data2017', w, o) for pk, w, o in out if pk == 'data']
    out += [('interest2017', w, o) for pk, w, o in out if pk == 'interest' and b'\x1e\x05\x07\x03\x08\x01h' not in w]
    out.append(('interest2017', stl.write_tlv([(5, [(7, [(8, b'a')]), (30, [(31, [(30, b'\x01'), (7, [(8, b'h')])]), (31, [(30, b'\x02'), (7, [])])]),
                                                    (10, b'\x00\x00\x00\x09'), (12, b'\x0f\xa0')])]), 'hand'))
    for pk, what, fn in builders:
        try:
            out.append((pk, bytes(fn()), what))
        except Exception as ex:  # noqa
            ctx.violation('C07/corpus/%s-%s/encoder-raises:%s' % (pk, what, type(ex).__name__),
                          'building the valid %s packet "%s" with the library raised %r' % (pk, what, ex), {'kind': 'corpus', 'pk': pk, 'what': what})
    return out


def structural_edits(rng, pk, wire, schema, outer_t, n):
    """TLV-structural edits at the byte level: delete / duplicate / swap / insert unknown elements at any
    depth of the strict tree, and length-field changes with and without repairing the enclosing lengths"""
    out = []
    try:
        (t0, tree), = stl.read_tlv(wire, {outer_t: kit.containers_of(schema) if pk != 'name' else {}})
    except (stl.TlvError, ValueError):
        return out

    def levels(tr, path=()):
        yield path, tr
        for i, (t, v) in enumerate(tr):
            if isinstance(v, list):
                yield from levels(v, path + (i,))

    def rebuild(tr, path, new):
        if not path:
            return new
        i = path[0]
        return tr[:i] + [(tr[i][0], rebuild(tr[i][1], path[1:], new))] + tr[i + 1:]
    lv = list(levels(tree))
    # systematic part, at EVERY level of the tree (also inside SignatureInfo, MetaInfo, ForwardingHint, Nack, names):
    # each element duplicated in place, each adjacent pair transposed, each element deleted, an unknown critical
    # and an unknown non-critical element inserted at each position
    for path, lvl in lv:
        cand = []
        for i in range(len(lvl)):
            cand.append(lvl[:i + 1] + [lvl[i]] + lvl[i + 1:])
            cand.append(lvl[:i] + lvl[i + 1:])
            if i + 1 < len(lvl):
                cand.append(lvl[:i] + [lvl[i + 1], lvl[i]] + lvl[i + 2:])
        for i in range(len(lvl) + 1):
            cand.append(lvl[:i] + [(127, b'\x01')] + lvl[i:])
            cand.append(lvl[:i] + [(126, b'\x02')] + lvl[i:])
        out += [stl.write_tlv([(t0, rebuild(tree, path, new))]) for new in cand]
        # truncated multi-byte Type / Length numbers at the end of the level (enclosing lengths repaired):
        # partial numbers appended, and the level's own last bytes cut off
        for raw in (b'\xfd', b'\xfd\x00', b'\xfe\x00\x00', b'\xff' + b'\x00' * 7, b'\x50\xfd', b'\x50\xfd\x00',
                    b'\x15\xfe\x00\x00\x00', b'\xfd\x03\x20\xfd\x00', b'\xfd\x03\x21\xfd'):
            out.append(stl.write_tlv([(t0, rebuild(tree, path, lvl + [raw]))]))
        whole = stl.write_tlv(lvl)
        for k in range(1, min(len(whole), 8)):
            out.append(stl.write_tlv([(t0, rebuild(tree, path, [whole[:-k]]))]))
    for _ in range(n):
        path, lvl = rng.choice(lv)
        op = rng.choice(['del', 'dup', 'swap', 'insnc', 'insuc', 'len+', 'len-', 'rawlen'])
        new = list(lvl)
        if op == 'del' and lvl:
            del new[rng.randrange(len(lvl))]
        elif op == 'dup' and lvl:
            new.insert(rng.randint(0, len(lvl)), rng.choice(lvl))
        elif op == 'swap' and len(lvl) > 1:
            i = rng.randrange(len(lvl) - 1)
            new[i], new[i + 1] = new[i + 1], new[i]
        elif op in ('insnc', 'insuc'):
            t = rng.choice([126, 250, 1000, 70000]) + (1 if op == 'insuc' else 0)
            new.insert(rng.randint(0, len(lvl)), (t, bytes(rng.randrange(256) for _ in range(rng.choice([0, 1, 3])))))
        elif op in ('len+', 'len-') and lvl:
            i = rng.randrange(len(lvl))
            t, v = lvl[i]
            body = stl.write_tlv(v) if isinstance(v, list) else v
            d = rng.choice([1, 2, 5]) * (1 if op == 'len+' else -1)
            if len(body) + d < 0:
                continue
            new[i] = (t, body, len(body) + d)        # announced length differs; enclosing lengths stay consistent
        elif op == 'rawlen':
            w = bytearray(wire)                      # change one length byte in place, nothing repaired
            offs = [o for o in range(1, len(w)) if w[o] < 253]
            o = rng.choice(offs)
            w[o] = (w[o] + rng.choice([1, 2, 255, 254])) % 253
            out.append(bytes(w))
            continue
        else:
            continue
        out.append(stl.write_tlv([(t0, rebuild(tree, path, new))]))
    return out


def mutations(ctx, pk, wire, schema, outer_t):
    rng = ctx.rng
    out = [wire]
    vals = ctx.pick([0x00, 0xFF, 0x01, 0x80], None)
    for i in range(len(wire)):
        if vals is None:
            cand = [b for b in range(256) if b != wire[i]] if (i < 40 or rng.random() < 0.15) else [wire[i] ^ 1, wire[i] ^ 0x80, 0, 255, 253]
        else:
            cand = [wire[i] ^ v if v in (1, 0x80) else v for v in vals]
        for b in cand:
            if b != wire[i]:
                out.append(wire[:i] + bytes([b]) + wire[i + 1:])
    out += [wire[:i] for i in range(len(wire))]                       # every truncation
    out += [wire + b'\x00', wire + wire[:3]]                          # trailing bytes
    out += structural_edits(rng, pk, wire, schema, outer_t, ctx.pick(30, 600))
    return out


def random_strings(ctx, pk, outer_t):
    rng = ctx.rng
    out = []
    for _ in range(ctx.pick(25, 400)):
        n = rng.choice([0, 1, 2, 5, 17, 60, 300, 1500, 4096])
        body = bytes(rng.randrange(256) for _ in range(n))
        out.append(body)                                              # uniformly random
        out.append(packet_wire(outer_t, body))                        # random value under a valid outer header
        small = bytes(rng.choice([0, 1, 2, 7, 8, 10, 12, 20, 21, 22, 23, 27, 80, 98, 253, 3, 32]) for _ in range(rng.choice([2, 4, 8, 16])))
        out.append(packet_wire(outer_t, small))                       # small type/length alphabet: deeper structure
    return out


# ------------------------------------------------------------------ linear time

def count_steps(fn, wire):
    files = ('tlv_model.py', 'Name.py', 'tlv_var.py', 'ndn_format_0_3.py', 'ndnlp_v2.py', 'security_v2.py')
    cnt = [0]

    def tr(frame, event, arg):
        if not frame.f_code.co_filename.endswith(files):
            return None

        def local(frame, event, arg):
            if event == 'line':
                cnt[0] += 1
            return local
        return local
    sys.settrace(tr)
    try:
        try:
            fn(wire)
        except Exception:  # noqa
            pass
    finally:
        sys.settrace(None)
    return cnt[0]


def scaled_inputs(k):
    """families of inputs whose size grows with k: (family, pk, wire)"""
    from ndn import encoding as enc
    comp = stl.write_tlv([(8, b'abcd')])
    name = stl.write_tlv([(7, [(8, b'abcd')] * (16 * k))])
    unk = stl.write_tlv([(250, b'xy')] * (32 * k))
    fam = []
    fam.append(('long-name', 'name', name))
    fam.append(('interest-long-name', 'interest', packet_wire(5, name + stl.write_tlv([(10, b'\x00\x00\x00\x01')]))))
    fam.append(('interest-many-unknown', 'interest', packet_wire(5, stl.write_tlv([(7, [(8, b'a')])]) + unk)))
    fam.append(('interest-many-hints', 'interest', packet_wire(5, stl.write_tlv([(7, [(8, b'a')]), (30, [(7, [(8, b'r')])] * (16 * k))]))))
    fam.append(('data-big-content', 'data', packet_wire(6, stl.write_tlv([(7, [(8, b'a')]), (21, b'\x55' * (512 * k))]))))
    fam.append(('data-many-unknown', 'data', packet_wire(6, stl.write_tlv([(7, [(8, b'a')])]) + unk + stl.write_tlv([(21, b'c')]))))
    fam.append(('data-repeated-ooo', 'data', packet_wire(6, stl.write_tlv([(7, [(8, b'a')]), (21, b'c')] + [(20, []), (24, b'\x00')] * (16 * k)))))
    fam.append(('lp-many-unknown', 'lp', packet_wire(100, unk + stl.write_tlv([(81, b'\x00' * 8)] * (8 * k)) + stl.write_tlv([(80, b'\x05\x00')]))))
    fam.append(('cert-many-descriptions', 'cert', packet_wire(6, stl.write_tlv(
        [(7, [(8, b'k')]), (21, b'k'), (22, [(27, b'\x03'), (253, [(254, b'1' * 15), (255, b'2' * 15)]),
                                             (258, [(512, [(513, b'k'), (514, b'v')])] * (8 * k))]), (23, b'\x00' * 4)]))))
    fam.append(('name-huge-component', 'name', stl.write_tlv([(7, [(8, b'z' * (1024 * k))])])))
    del comp, enc
    return fam


def linear_time(ctx):
    from ndn import encoding as enc
    from ndn.app_support.security_v2 import parse_certificate
    fns = {'interest': enc.parse_interest, 'data': enc.parse_data, 'lp': enc.parse_lp_packet_v2, 'cert': parse_certificate,
           'name': enc.Name.from_bytes}
    base = {}
    rows = []
    for k in (1, 2, 4, 8):
        for fam, pk, wire in scaled_inputs(k):
            steps = count_steps(fns[pk], wire)
            if k == 1:
                base[fam] = (steps, len(wire))
            s1, l1 = base[fam]
            # steps <= a * len + b with a = the per-byte cost observed at 1x (plus 25 %) and b = 200
            bound = 1.25 * s1 * (len(wire) / l1) + 200
            rows.append((fam, k, len(wire), steps))
            ctx.evaluations += 1
            if steps > bound:
                ctx.violation('C07/%s/linear-time/%s' % (FN[pk], fam),
                              '%s: %d line events on %d bytes at %dx, bound %.0f from %d events on %d bytes at 1x' % (
                                  fam, steps, len(wire), k, bound, s1, l1), {'kind': 'steps', 'family': fam, 'k': k})
    ctx.extra['linear_time_steps'] = ['%s k=%d len=%d steps=%d' % r for r in rows]
    ctx.note('linear time: %d families x 4 scales, max steps/byte at 8x = %.2f' % (
        len(base), max(s / l for f, k, l, s in rows if k == 8)))


def scaling_cpu(ctx):
    """Second measure for "time proportional to the input": line events do not see super-linear work done inside C
    (`lst = lst + [x]`, repeated slicing / copying). Inputs with N and 16 N cheap elements are decoded; the CPU time
    of this process (time.process_time: not disturbed by other processes the way wall time is) may grow by at most
    16 x SLACK, and the traced memory peak (tracemalloc) likewise. The RESULTS of the big parses are compared with
    the strict reading (component / name counts and bytes)."""
    import time, tracemalloc
    from ndn import encoding as enc
    SLACK = 2.5
    N = 4000

    def name_wire(n):
        return stl.write_var(7) + stl.write_var(3 * n) + b'\x08\x01a' * n

    def fh_wire(n):
        body = stl.write_tlv([(7, [(8, b'a')])]) + stl.write_var(30) + stl.write_var(2 * n) + b'\x07\x00' * n + stl.write_tlv([(10, b'\x00\x00\x00\x01')])
        return stl.write_var(5) + stl.write_var(len(body)) + body

    def unk_wire(n):
        body = stl.write_tlv([(7, [(8, b'a')])]) + b'\xfa\x00' * n + stl.write_tlv([(21, b'c')])
        return stl.write_var(6) + stl.write_var(len(body)) + body

    def check_name(res, n, w):
        return len(res) == n and b''.join(bytes(c) for c in res[:3] + res[-3:]) == b'\x08\x01a' * 6

    def check_fh(res, n, w):
        name, par, app, sig = res
        return len(par.forwarding_hint) == n and all(len(x) == 0 for x in par.forwarding_hint[:3] + par.forwarding_hint[-3:]) \
            and par.nonce == 1 and [bytes(c) for c in name] == [b'\x08\x01a']

    def check_unk(res, n, w):
        name, meta, content, sig = res
        return bytes(content) == b'c' and [bytes(c) for c in name] == [b'\x08\x01a']
    fams = [('many-name-components', 'name', enc.Name.from_bytes, name_wire, check_name),
            ('many-forwarding-hint-names', 'interest', enc.parse_interest, fh_wire, check_fh),
            ('many-unknown-elements', 'data', enc.parse_data, unk_wire, check_unk)]
    rows = []
    for fam, pk, fn, mk, chk in fams:
        small, big = mk(N), mk(16 * N)

        def cpu(w, reps):
            best = None
            for _ in range(reps):
                t0 = time.process_time()
                r = fn(w)
                dt = time.process_time() - t0
                best = dt if best is None or dt < best else best
            return best, r
        fn(small)                                             # warm up
        t1, r1 = cpu(small, 7)
        t2, r2 = cpu(big, 3)
        ctx.evaluations += 2
        ok_res = chk(r1, N, small) and chk(r2, 16 * N, big)
        tracemalloc.start()
        fn(mk(N // 4))
        p1 = tracemalloc.get_traced_memory()[1]
        tracemalloc.reset_peak()
        fn(mk(N))
        p2 = tracemalloc.get_traced_memory()[1]
        tracemalloc.stop()
        rows.append('%s: cpu %.1f ms -> %.1f ms (x%.1f for 16x input), peak %d -> %d B (x%.1f for 4x)' % (
            fam, 1000 * t1, 1000 * t2, t2 / max(t1, 1e-6), p1, p2, p2 / max(p1, 1)))
        rep = {'kind': 'steps', 'family': fam}
        if not ok_res:
            ctx.violation('C07/%s/scaled-input/fields-differ' % FN[pk], '%s: the decoded result of the scaled input differs from the strict reading' % fam, rep)
        if t2 > 16 * SLACK * max(t1, 0.0005):
            ctx.violation('C07/%s/linear-time/cpu:%s' % (FN[pk], fam),
                          '%s: CPU time %.1f ms for N=%d but %.1f ms for 16 N (x%.0f, bound x%.0f)' % (fam, 1000 * t1, N, 1000 * t2, t2 / t1, 16 * SLACK), rep)
        if p2 > 4 * SLACK * max(p1, 4096):
            ctx.violation('C07/%s/linear-time/memory:%s' % (FN[pk], fam),
                          '%s: traced memory peak %d B for N/4 but %d B for N (bound x%.0f)' % (fam, p1, p2, 4 * SLACK), rep)
    ctx.extra['scaling_cpu'] = rows
    ctx.note('scaling (CPU time / memory peak): ' + '; '.join(rows))


def disorder(tree, schema):
    """how many recognised elements of the projected tree (all levels) come twice or before an element they should follow.
    Only used to ORDER a history (such inputs first); what a decoder has to answer is decided by the reference."""
    pos = {kit.unlimbs(d['t']): i for i, d in enumerate(schema)}
    subs = {kit.unlimbs(d['t']): d['sub'] for d in schema if d['kind'] == 'model'}
    n, last = 0, -1
    for e in tree:
        t = kit.unlimbs(e['t']) if e['t'] else None
        if t in pos:
            if pos[t] < last or (pos[t] == last and schema[last]['kind'] not in ('repeated', 'map')):
                n += 1
            last = max(last, pos[t])
        if t in subs and not e['leaf']:
            n += disorder(e['kids'], subs[t])
    return n


def history_corpus(ctx, recs, table):
    """stage C under a history: a seeded sample of the mutants the strict reader can look into (outer header valid:
    duplicated / transposed / deleted / unknown elements at every level, overruns, substitutions) is decoded FIRST by a
    fresh interpreter, then every unmutated corpus packet. An observation that differs from the one made in the canonical
    order is appended to recs (hist = "adverse") and judged by TLC like all the others (TlvModelC07Judge: the reference
    does not look at hist); an identical one is the record TLC judges anyway."""
    rng = ctx.rng
    bases = [r for r in recs if r['base']]
    muts = [r for r in recs if not r['base'] and r['outer'] == 'ok']
    rng.shuffle(muts)
    schema_of = {}

    def disordered(r):
        pk = r['pk']
        if pk not in schema_of:
            T = table[{'lp.legacy': 'lp', 'lp.nack': 'lp', 'data2017': 'data', 'interest2017': 'interest'}.get(pk, pk)]
            schema_of[pk] = SCHEMA2017 if pk == 'interest2017' else T['schema']
        return pk != 'name' and disorder(r['input'], schema_of[pk]) > 0
    # the mutants in which some recognised element comes twice or before one it should follow go first (two thirds of
    # the sample when there are that many), then the other mutants, then the unmutated packets
    nmax = ctx.pick(1500, 20000)
    dis = [r for r in muts if disordered(r)][:2 * nmax // 3]
    ids = {r['id'] for r in dis}
    muts = dis + [r for r in muts if r['id'] not in ids][:nmax - len(dis)]
    todo = muts + bases
    schemas, skey, items = [], {}, []
    for r in todo:
        pk = r['pk']
        T = table[{'lp.legacy': 'lp', 'lp.nack': 'lp', 'data2017': 'data', 'interest2017': 'interest'}.get(pk, pk)]
        if pk not in skey:
            skey[pk] = len(schemas)
            schemas.append(SCHEMA2017 if pk == 'interest2017' else T['schema'])
        items.append((pk, bytes.fromhex(r['wire']), skey[pk]))
    res = history_collect(history_start('c-adverse', 0, items, schemas, list(range(len(items)))))
    nd = 0
    for i, r in enumerate(todo):
        got, out, ptr = res[i]
        if json.loads(json.dumps([r['got'], r['out'], r['ptr']])) == [got, out, ptr]:
            continue            # the identical observation is already a record (judged by TLC under the plain signature)
        nd += 1
        recs.append(dict(r, id=len(recs) + 1, hist='adverse', got=got, out=out, ptr=ptr, base=False))
    ctx.note('C history: %d mutants (%d of them with a repeated / out-of-order element, these first), then the %d unmutated corpus '
             'packets, decoded in that order by a fresh interpreter; %d answers differ from the canonical order and are judged as '
             'records of their own' % (len(muts), len(dis), len(bases), nd))
    return len(todo)


# ------------------------------------------------------------------ run

def judge(ctx, recs, name):
    cfg = kit.write_cfg('TlvEval.cfg', init='Init', next_='Next')
    verdicts, wall = kit.judge('TlvModelC07Judge', cfg, recs, name, nproc=ctx.pick(4, 12))
    ctx.tlc_runs.append({'cfg': 'TlvModelC07Judge (%d records, evaluated not explored)' % len(recs), 'distinct': 0,
                         'generated': 0, 'depth': 0, 'wall_s': round(wall, 1)})
    return verdicts


def run(ctx):
    try:
        _run(ctx)
        kit.cleanup()
    except tlc.MachineryError:
        raise
    except Exception as ex:  # noqa
        # an implementation broken badly enough to derail the driver after violations were already recorded:
        # report those violations rather than a machinery failure
        from harness import core as _core
        known = _core.load_known(ctx.prop)
        if not any(_core.match_known(known, v['sig']) is None for v in ctx.violations):
            raise
        ctx.note('driver stopped by %s after %d violation signature(s)' % (type(ex).__name__, len(ctx.violations)))


def _run(ctx):
    ctx.rule = ('A/B: one TLC terminal state = one element sequence, each replayed on the real decoder. C: one record per '
                'distinct (decoder, input bytes). non-trivial = sequences of length >= 3 or rejected by the reference; '
                'mutants/random strings whose outer header is valid (the value level is reached). Histories: the decodings made '
                'by fresh interpreters in other input orders are counted as executed traces, not as new non-trivial cases')
    ctx.assumptions = ['strict_tlv reader/writer (cross-checked: every emitted sequence is written, read back and compared)',
                       'projection of decoder results in harness/tlvkit.py and c07.decode', 'TLC and the CommunityModules Json module',
                       'sys.settrace line events as the step measure for the linear-time clause']
    table = None
    allpk = ['interest', 'data', 'cert', 'lp', 'name', 'interest.si', 'data.si', 'cert.si', 'data.meta']
    if 'A' in ctx.stages or 'B' in ctx.stages:
        # (MaxLen, alphabet level): quick = length 4 over the mini alphabet + length 2 over the full one;
        # thorough = length 5 mini + length 4 reduced + length 3 full
        plan = ctx.pick([(4, 0), (2, 2)], [(5, 0), (4, 1), (3, 2)])
        seen = set()
        nseq = 0
        cases = []
        salt = ctx.rng.getrandbits(32)
        for maxlen, lvl in plan:
            table, seqs = run_machine(ctx, '%s_%d_%d' % (ctx.tier, maxlen, lvl), maxlen, lvl, allpk, ctx.pick(4, 16))
            if table is None:
                continue
            if 'B' in ctx.stages:
                # sample for the histories: about 6000 (quick) / 60000 (thorough) sequences over the plan, chosen by a seeded
                # hash of the bytes (TLC's print order is not deterministic, the sample is)
                share = ctx.pick(6000, 60000) / len(plan) / max(1, len(seqs))
                nseq += replay_sequences(ctx, table, seqs, seen, lambda c: zlib.crc32(c['wire'] + c['pk'].encode(), salt) < share * 2 ** 32, cases)
        ctx.note('A/B: %d element sequences enumerated by TLC and replayed on the real decoders' % nseq)
        # the same sequences met in other orders by fresh interpreters (they run beside the TLC runs below)
        hist = history_replay_start(ctx, cases) if 'B' in ctx.stages and cases else None
        if 'A' in ctx.stages:
            cfgc = kit.write_cfg('TlvModelC07_cov.cfg', constants={'MaxLen': 2, 'Lvl': 2, 'Pks': '{"interest","data","cert","lp"}'},
                                 invariants=INVS, raw=SUBST)
            rc = tlc.run('TlvModelC07', cfgc, workers=2, coverage=True, env={'C07_TAB': kit.scratch('c07-tab-cov.json')})
            for a in ACTIONS:
                if rc.coverage.get(a, (0, 0))[1] == 0:
                    raise tlc.MachineryError('vacuous: action %s never taken in TlvModelC07' % a)
            kit.check_witnesses('TlvModelC07', WITNESSES, {'MaxLen': 3, 'Lvl': 0, 'Pks': '{"interest","data","cert","lp"}'},
                                raw=SUBST, env={'C07_TAB': 'c07-tab-w.json'})
        if hist:
            nseq += history_replay_collect(ctx, hist)
        ctx.traces += nseq
        ctx.evaluations += nseq
    if 'C' in ctx.stages:
        if table is None:
            table, _ = run_machine(ctx, 'tab', 1, 0, allpk, 2)
        global SCHEMA2017
        SCHEMA2017 = schema2017(table['interest']['schema'])
        recs, seen = [], set()
        stats = {}
        hand_n = hand_ok = 0
        for pk, wire, origin in corpus(ctx):
            T = table[{'lp.legacy': 'lp', 'lp.nack': 'lp', 'data2017': 'data', 'interest2017': 'interest'}.get(pk, pk)]
            T = dict(T, schema=SCHEMA2017 if pk == 'interest2017' else T['schema'])
            outer_t = kit.unlimbs(T['outer'])
            # (an unmutated packet that the decoder does not accept, or reads differently, is judged by TLC like
            # any other input: it is the first element of mutations())
            inputs = mutations(ctx, pk, wire, T['schema'], outer_t) + random_strings(ctx, pk, outer_t)
            if pk in ('lp.legacy', 'lp.nack', 'data2017', 'interest2017') and ctx.quick:
                inputs = inputs[:1] + inputs[1::3]        # sibling decoders share the code: a third of the inputs
            for w in inputs:
                if (pk, w) in seen:
                    continue
                seen.add((pk, w))
                oc, tree = classify(pk, w, T['schema'], outer_t)
                got, out, ptr = decode(pk, w, T['schema'])
                base = w is wire
                if base and origin == 'hand':
                    hand_n += 1
                    hand_ok += got == 'accept'
                recs.append({'id': len(recs) + 1, 'pk': pk, 'must': 'accept' if base and origin == 'hand' else '', 'outer': oc, 'hist': '',
                             'input': tree, 'got': got, 'out': out, 'ptr': ptr, 'wire': w.hex(), 'base': base})
                check_variant(ctx, len(recs), pk, w, T['schema'], got, out, {'kind': 'wire', 'pk': pk, 'wire': w.hex()})
                stats[(pk, oc)] = stats.get((pk, oc), 0) + 1
                if oc == 'ok':
                    ctx.nt(['C', pk, w.hex()])
        ctx.note('C: %d inputs (%s)' % (len(recs), ', '.join('%s/%s=%d' % (a, b, n) for (a, b), n in sorted(stats.items()))))
        nhist = history_corpus(ctx, recs, table)
        verdicts = judge(ctx, [{k: r[k] for k in ('id', 'pk', 'must', 'hist', 'outer', 'input', 'got', 'out', 'ptr')} for r in recs], 'c07-judge-%s' % ctx.tier)
        dead = [recs[rid - 1] for rid, tags in verdicts.items() if tags[0].rpartition('|')[2].startswith('CORPUS-DEAD/')]
        if dead:
            # independent of the tree under test: the harness' own corpus and reference disagree
            raise tlc.MachineryError('hand-written corpus packet %s %s is rejected by the reference' % (dead[0]['pk'], dead[0]['wire']))
        ctx.note('corpus sanity: %d hand-written packets, all accepted by the reference, %d accepted by the decoders' % (hand_n, hand_ok))
        for rid, tags in verdicts.items():
            r = recs[rid - 1]
            h, _, tag = tags[0].rpartition('|')         # "history:<order>|" in front of the tag of a record decoded under a history
            h = h + '/' if h else ''
            want, rest = tag.split('/', 1)
            why, got = rest.rsplit('/', 1)
            sig = 'C07/%s/%saccept/%s' % (FN[r['pk']], h, why) if why in ('fields-differ', 'pointers-differ') else \
                'C07/%s/%s%s%s/%s' % (FN[r['pk']], h, want, ':' + why if why else '', got)
            rep = {'kind': 'wire', 'pk': r['pk'], 'wire': r['wire']}
            if r['hist']:
                rep['history'] = r['hist']
            ctx.violation(sig, '%s(%s): reference %s%s, implementation %s%s' % (
                FN[r['pk']], r['wire'][:200], want, ' (%s)' % why if why else '', got,
                ' [decoded in a fresh interpreter, inputs in the order "%s"]' % r['hist'] if r['hist'] else ''), rep)
        ctx.traces += len(recs) + nhist
        ctx.evaluations += len(recs) + nhist
        ctx.sample({'kind': 'C-record', 'decoder': FN[recs[5]['pk']], 'wire': recs[5]['wire'][:120], 'outer': recs[5]['outer'], 'got': recs[5]['got']})
        linear_time(ctx)
        scaling_cpu(ctx)


def replay(ctx, path):
    with open(path) as f:
        obj = json.load(f)
    if obj.get('kind') != 'wire':
        print(json.dumps(obj, indent=1)[:3000])
        return 0
    table, _ = run_machine(ctx, 'tab', 1, 0, ['interest', 'data', 'cert', 'lp', 'name'], 2)
    pk, wire = obj['pk'], bytes.fromhex(obj['wire'])
    T = table[{'lp.legacy': 'lp', 'lp.nack': 'lp', 'data2017': 'data', 'interest2017': 'interest'}.get(pk, pk)]
    if pk == 'interest2017':
        T = dict(T, schema=schema2017(T['schema']))
    oc, tree = classify(pk, wire, T['schema'], kit.unlimbs(T['outer']))
    got, out, ptr = decode(pk, wire, T['schema'])
    print('%s(%s) -> %s; strict reader: outer=%s' % (FN[pk], obj['wire'][:200], got, oc))
    if obj.get('history'):
        print('(found with the inputs met in the order "%s" by a fresh interpreter; this replay decodes the one input alone)' % obj['history'])
    v = judge(ctx, [{'id': 1, 'pk': pk, 'must': '', 'hist': '', 'outer': oc, 'input': tree, 'got': got, 'out': out, 'ptr': ptr}], 'c07-replay')
    print('judge:', v.get(1, 'conforms'))
    return 1 if v else 0


if __name__ == '__main__':
    if len(sys.argv) == 4 and sys.argv[1] == '--history-child':
        history_child(sys.argv[2], sys.argv[3])
