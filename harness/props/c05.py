"""C05 - nothing that requires validation reaches the application unvalidated.
Data half on NdnPit.tla (verdict dimension fully open, validator latency vs deadline), Interest half on
NdnFib.tla (parameters-digest gate, validator in force, all ValidResult values / truthiness)."""
import json
from harness import pitcheck as pc, fibcheck as fc
from harness.props import c03, c04

DEVS = {'v2': (), 'legacy': ('legacySlowValidator',)}


def run(ctx):
    ctx.rule = ('A: TLC exhaustive on NdnPit with every validator verdict (PASS, FAIL, TIMEOUT, SILENCE, ALLOW_BYPASS, raising '
                'TimeoutError; legacy truthy/falsy) and every latency relative to the deadline, and on NdnFib with every '
                'ApplicationParameters/signature/digest-correctness combination with and without an attached validator; '
                'B: transition covers executed on both front-ends; C: random schedules; judged by TLC trace validation. '
                'non-trivial = distinct schedule containing a validator verdict or a parameterised/signed Interest')
    ctx.assumptions = ['virtual-time loop', 'harness validators (verdict and latency are schedule parameters)',
                       'validators raising arbitrary exceptions are outside the quantifier']
    if 'A' in ctx.stages:
        pc.stage_a(ctx, [('v2 all verdicts 2 entries', pc.mc_cfg('pit-A5-v2', 'v2', 2, ctx.pick(2, 3), 'small', 'v2all')),
                         ('legacy verdicts 2 entries', pc.mc_cfg('pit-A5-l', 'legacy', 2, ctx.pick(2, 3), 'small', 'legacy'))])
        fc.stage_a(ctx, [('v2 gate', fc.mc_cfg('fib-A5-v2', 'v2', 'small', 'gate', 'v2', 2, 0, 2, vals='both')),
                         ('legacy gate', fc.mc_cfg('fib-A5-l', 'legacy', 'small', 'gate', 'legacy', 2, 0, 2, vals='both'))],
                   required=('Attach', 'RecvInterest', 'IntValFinish'))
    if 'B' in ctx.stages:
        for front, V in (('v2', 'v2all'), ('legacy', 'legacy')):
            cfgp = pc.mc_cfg('pit-B5-' + front, front, 2, 1, 'small', V, invs=[], props=[])
            pc.stage_b(ctx, front, cfgp, 'verdicts 2 entries MaxT=1', devs=DEVS[front], max_paths=ctx.pick(700, 12000))
            cfgp = fc.mc_cfg('fib-B5-' + front, front, 'small', 'gate', 'v2' if front == 'v2' else 'legacy', 2, 0, 2,
                             vals='both', invs=[], props=[])
            fc.stage_b(ctx, front, cfgp, 'gate 2 Interests', max_paths=ctx.pick(700, 12000))
    if 'C' in ctx.stages:
        for front in ('v2', 'legacy'):
            pc.stage_c(ctx, front, ctx.pick(200, 3000), 40, devs=DEVS[front],
                       weights=dict(ValFinish=9, RecvData=8, RecvNack=0.5, RecvJunk=0.3))
            pc.stage_c_long(ctx, front, ctx.pick(2, 20), devs=DEVS[front], weights=dict(ValFinish=9, RecvData=8))
            fc.stage_c(ctx, front, ctx.pick(200, 3000), 40,
                       weights=dict(RecvInterest=10, IntValFinish=8, Reply=1, AttachDup=1.5))
            fc.stage_c_long(ctx, front, ctx.pick(2, 12))


def replay(ctx, path):
    with open(path) as f:
        obj = json.load(f)
    if obj.get('kind') == 'trace' and obj['rec']['ev'] and obj['rec']['ev'][0]['a'] in ('Attach', 'AttachDup', 'Detach', 'RecvInterest'):
        return c04.replay(ctx, path)
    return c03.replay(ctx, path)
