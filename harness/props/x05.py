"""X05 (not one of the listed properties, not in MANIFEST.json): the `pyndnsec` command-line tool (ndn.bin.sec) as a
specified sequential system - a store of identities / keys / certificates with defaults and the ten commands that
work on it.  Spec: SecCli.tla, SecCliTrace.tla; executor harness/seckit.py.  `bin/check X05`.

A  TLC exhaustive on SecCli (2 identities x 2 key ids x 2 certificate ids, all invariants), every action taken, witnesses
B  transition cover of the state graphs of two small configurations replayed into the real tool: the result of every
   invocation (exit status, message class, names printed) and the store (read through KeychainSqlite3 / TpmFile)
   are compared with the specification after every command
C  random sessions over two stores and a peer (30-60 commands per store, 3 identities x 4 key ids x 4 certificate ids;
   certificates, sign requests and issued certificates travel between the stores) judged by SecCliTrace

An exception that escapes a command is a violation of its own (`X05/<command>/<argument class>/<exception>`): the
process would end with a traceback."""
import json, os

from harness import tlc, graph, judge, seckit, tlaval

INVS = ['TypeOK', 'Containment', 'AtMostOneDefault', 'DefaultWhenPopulated', 'ListingIsStore', 'DefaultsAgree',
        'RemovalCascades', 'FailedChangesNothing', 'MissingChangesNothing', 'SetDefaultWorks', 'NewItemWorks',
        'ExportImportRoundTrip', 'SignerIsOurs']
ACTIONS = ['InitPib', 'NewItem', 'RemoveItem', 'SetDefault', 'GetDefault', 'GetChildItem', 'ExportCert', 'ImportCert',
           'SignCert', 'GetSignReq']
CRASH_DEVS = ('DevRemoveCrash', 'DevSignReqCrash', 'DevDecodeCrash')


def consts(ids, keyids, certids, ktypes='{"e", "r"}', kidtypes='{"r", "h"}', sign='SignOptsMid', found=False):
    c = {'Ids': ids, 'KeyIds': keyids, 'CertIds': certids, 'KTypes': ktypes, 'KidTypes': kidtypes,
         'SignOpts': '<- ' + sign, 'DevRemoveCertSilent': 'TRUE', 'DevSignUnlisted': 'TRUE'}
    for d in CRASH_DEVS:
        c[d] = 'TRUE' if found else 'FALSE'
    return c


def cfg(name, constants, **kw):
    p = os.path.join(tlc.BUILD, name + '.cfg')
    tlc.write_cfg(p, constants=constants, **kw)
    return p


# ------------------------------------------------------------------------------------------------ A
def stage_a(ctx):
    # the commands that change the store, over the full bound; the queries are evaluated by the invariants in every state
    # (identities as model values: interchangeable, SYMMETRY Perms halves the states)
    full = consts('{A, B}', '{1, 2}', '{1, 2}', ktypes='{"e"}', kidtypes='{"r"}', sign='SignOptsSmall')
    res = tlc.run('SecCli', cfg('sec-A-full', full, spec='SpecM', invariants=INVS, symmetry='Perms'),
                  workers=ctx.pick(4, 16), timeout=1500)
    ctx.add_tlc('SecCli: 2 identities x 2 key ids x 2 certificate ids, store-changing commands, identities symmetric', res)
    if res.violated:
        ctx.violation('X05/spec/SecCli/%s' % res.violated, 'TLC: %s violated in SecCli (full bound)' % res.violated, {'trace': res.errtrace})
    # every command with every option, as intended and as found
    for label, found in (('intended', False), ('as found', True)):
        small = consts('{"A"}', '{1, 2}', '{1, 2}', found=found)
        res = tlc.run('SecCli', cfg('sec-A-all-%d' % found, small, invariants=INVS), coverage=True, workers=ctx.pick(2, 8),
                      heavy=False, timeout=900)
        ctx.add_tlc('SecCli: 1 identity x 2 key ids x 2 certificate ids, all commands and options (%s)' % label, res)
        if res.violated:
            ctx.violation('X05/spec/SecCli/%s' % res.violated, 'TLC: %s violated in SecCli (%s)' % (res.violated, label), {'trace': res.errtrace})
        for a in ACTIONS:
            if res.coverage.get(a, (0, 0))[1] == 0:
                raise tlc.MachineryError('vacuous: SecCli action %s never taken' % a)
    if not ctx.quick:
        for label, c in (('3 identities x 1 key id x 2 certificate ids', consts('{A, B, C}', '{1}', '{1, 2}', ktypes='{"e"}', kidtypes='{"r"}', sign='SignOptsSmall')),
                         ('1 identity x 3 key ids x 2 certificate ids', consts('{A}', '{1, 2, 3}', '{1, 2}', ktypes='{"e"}', kidtypes='{"r"}', sign='SignOptsSmall')),
                         ('2 identities x 1 key id x 3 certificate ids', consts('{A, B}', '{1}', '{1, 2, 3}', ktypes='{"e"}', kidtypes='{"r"}', sign='SignOptsSmall'))):
            res = tlc.run('SecCli', cfg('sec-A-more', c, spec='SpecM', invariants=INVS, symmetry='Perms'), workers=16, timeout=3000)
            ctx.add_tlc('SecCli: %s, store-changing commands' % label, res)
            if res.violated:
                ctx.violation('X05/spec/SecCli/%s' % res.violated, 'TLC: %s violated in SecCli (%s)' % (res.violated, label), {'trace': res.errtrace})
    # witnesses: one single-worker run per group
    for label, c, post in (('one identity', consts('{"A"}', '{1, 2}', '{1, 2}', ktypes='{"e"}', kidtypes='{"r"}', sign='SignOptsSmall'), 'WitnessPostOne'),
                           ('two identities', consts('{"A", "B"}', '{1}', '{1}', ktypes='{"e"}', kidtypes='{"r"}', sign='SignOptsSmall'), 'WitnessPostTwo')):
        res = tlc.run('SecCli', cfg('sec-W-' + post, c, spec=None, init='WitnessInit', next_='Mutate', constraints=['WitnessMark'],
                                    postcondition=post), workers=1, heavy=False, timeout=600)
        if 'UNREACHED' in res.out or res.violated:
            raise tlc.MachineryError('vacuous: SecCli witness not reachable (%s):\n%s' % (label, res.out[-1500:]))
    ctx.note('SecCli: 9 witnesses reachable')


# ------------------------------------------------------------------------------------------------ B
def tla_args(act, args):
    """edge label arguments (parsed TLC values) -> arguments of Store.do"""
    out = []
    for a in args:
        if isinstance(a, dict) and 'l' in a:
            out.append(seckit.obj_of_tla(a))
        elif isinstance(a, dict) and 'kind' in a:
            out.append({'kind': str(a['kind']), 'k': (str(a['k'][0]), a['k'][1]), 'c': a['c']})
        elif isinstance(a, dict):
            out.append({k: str(v) for k, v in a.items()})
        else:
            out.append(a if isinstance(a, (bool, int)) else str(a))
    return out


def obs_of(node, act, args):
    t = node['obs'][act]
    if act == 'InitPib':
        return t
    if act == 'NewItem':
        return t[args[0]]
    if act in ('GetDefault', 'SignCert'):
        return t[(args[0], args[1])]
    return t[args[0]]


def args_json(args):
    return [seckit.obj_json(a) if isinstance(a, tuple) else a for a in args]


def args_unjson(args):
    out = []
    for a in args:
        if isinstance(a, dict) and 'l' in a:
            out.append((a['l'], a['i'], a['n'], a['c']))
        elif isinstance(a, dict) and 'kind' in a:
            out.append({'kind': a['kind'], 'k': tuple(a['k']), 'c': a['c']})
        else:
            out.append(a)
    return out


def report_crashes(ctx, store, replay_obj):
    for cmd, argclass, exc, where, msg in store.crashes:
        ctx.violation('X05/%s/%s/%s' % (cmd, argclass, exc),
                      '%s (%s) ends in an uncaught %s: %s [%s]' % (cmd, argclass, exc, msg, where), replay_obj)
    del store.crashes[:]


def replay_graph_path(ctx, g, init, path, uni, k):
    """-> number of commands executed.  Differences are reported into ctx."""
    variant = {'naming': k % len(seckit.NAMINGS), 'addressing': (k // len(seckit.NAMINGS)) % len(seckit.ADDRESSING), 'k': k,
               'on_disk': k % 29 == 7}
    steps = []
    n = 0
    with seckit.World(seed=k, on_disk=variant['on_disk']) as w:
        st = seckit.Store(w, 's', uni, naming=variant['naming'], addressing=variant['addressing'], k=k)
        cur = init
        for act, targs, dst in path:
            args = tla_args(act, targs)
            steps.append([act, args_json(args)])
            robj = {'kind': 'graph', 'universe': uni, 'variant': variant, 'seed': k, 'steps': list(steps)}
            exp_r = seckit.expected_result(obs_of(g.state[cur], act, targs))
            try:
                got_r = st.do(act, args)
                got_s = st.project()
            except seckit.Mismatch as e:
                report_crashes(ctx, st, robj)
                ctx.violation('X05/%s/check/%s' % (seckit.COMMANDS[act][0], e.slug),
                              '%s %s (step %d): %s' % (seckit.COMMANDS[act][0], json.dumps(args_json(args)), len(steps), e), robj)
                return n
            n += 1
            crashed = bool(st.crashes)
            report_crashes(ctx, st, robj)
            ds = seckit.diff_state(seckit.expected_state(g.state[dst]), got_s)
            # a command that ended in an uncaught exception has been reported as such; the history goes on when the
            # store is as the specification says
            dr = [] if crashed and got_r['cls'] == 'crash' else seckit.diff_result(exp_r, got_r)
            if ds or dr:
                field, e, o = (ds or dr)[0]
                robj['differences'] = [list(x) for x in ds + dr]
                ctx.violation('X05/%s/%s/%s' % (seckit.COMMANDS[act][0], st._argclass(act, args) if not ds else 'store', field),
                              'after %s %s (step %d, %s) %s is %s, the specification says %s' % (
                                  seckit.COMMANDS[act][0], json.dumps(args_json(args)), len(steps), ' '.join(st.log[-1])[:160], field,
                                  json.dumps(o)[:300], json.dumps(e)[:300]), robj)
                return n
            cur = dst
    return n


def stage_b(ctx):
    graphs = (('1 identity x 2 key ids x 2 certificate ids, every option', consts('{"A"}', '{1, 2}', '{1, 2}'),
               {'Ids': ['A'], 'KeyIds': 2, 'CertIds': 2}, ctx.pick(80, None)),
              ('2 identities x 1 key id x 2 certificate ids', consts('{"A", "B"}', '{1}', '{1, 2}', ktypes='{"e"}', kidtypes='{"h"}', sign='SignOptsSmall'),
               {'Ids': ['A', 'B'], 'KeyIds': 1, 'CertIds': 2}, ctx.pick(50, None)))
    k = ctx.seed % 1000
    for gi, (label, c, uni, npaths) in enumerate(graphs):
        g = graph.dump('SecCli', cfg('sec-B-%d' % gi, c, raw='ALIAS DumpAlias'), workers=4, tag='sec')
        ctx.add_tlc('SecCli graph %s (%d edges)' % (label, g.n_edges), g.tlc)
        paths = graph.edge_cover_paths(g, max_len=30)
        total = len(paths)
        if npaths is not None and npaths < total:
            paths = ctx.rng.sample(paths, npaths)
        ncmd = 0
        for init, path in paths:
            if not path:
                continue
            k += 1
            n = replay_graph_path(ctx, g, init, path, uni, k)
            ncmd += n
            ctx.traces += 1
            ctx.evaluations += n
            acts = {a for a, _, _ in path}
            if len(path) >= 5 and len(acts & {'NewItem', 'RemoveItem', 'SetDefault', 'ImportCert'}) >= 2:
                ctx.nt(['graph', gi, [(a, json.dumps([tlaval.to_json(x) for x in b], sort_keys=True)) for a, b, _ in path]])
        ctx.sample({'kind': 'graph-path', 'graph': label, 'commands': [[a, [tlaval.to_json(x) for x in b]] for a, b, _ in paths[-1][1][:8]]}, limit=2)
        ctx.note('SecCli replay (%s): %d states, %d edges, %d of %d cover paths, %d commands' % (label, len(g.state), g.n_edges, len(paths), total, ncmd))


# ------------------------------------------------------------------------------------------------ C
UNI_C = {'Ids': ['A', 'B', 'C'], 'KeyIds': 4, 'CertIds': 4}
SIGN_POOL = [{'req': 'ok', 'iss': 'absent', 'nb': 'absent', 'na': 'absent'}] * 6 + \
    [{'req': r, 'iss': i, 'nb': b, 'na': a} for r in ('ok', 'ok', 'junk', 'undecodable', 'nocontent')
     for i in ('absent', 'one', 'bad') for b in ('absent', 'ok', 'bad') for a in ('absent', 'ok', 'bad')]


def pick_obj(rng, p, levels, missing=0.3):
    """an object of one of the levels: listed (mostly) or not"""
    lv = rng.choice(levels)
    ids, keyids, certids = UNI_C['Ids'], range(1, UNI_C['KeyIds'] + 1), range(1, UNI_C['CertIds'] + 1)
    if lv == 3:
        return seckit.NOOBJ
    listed = {0: [(0, i, 0, 0) for i in sorted(p['ids'])], 1: [(1, k[0], k[1], 0) for k in sorted(p['keys'])],
              2: [(2, x[0][0], x[0][1], x[1]) for x in sorted(p['certs'])]}[lv]
    if listed and rng.random() >= missing:
        return rng.choice(listed)
    # not necessarily missing: anything of the universe, with a preference for what hangs under something listed
    i = rng.choice(sorted(p['ids']) if p['ids'] and rng.random() < 0.6 else ids)
    if lv == 0:
        return (0, i, 0, 0)
    ks = [k for k in sorted(p['keys']) if k[0] == i]
    n = rng.choice(ks)[1] if ks and lv == 2 and rng.random() < 0.7 else rng.choice(list(keyids)[:3])
    if lv == 1:
        return (1, i, n, 0)
    return (2, i, n, rng.choice(list(certids)[:3]))


def next_command(rng, p):
    """(action, arguments) for a store whose projection is p"""
    if not p['pib']:
        if rng.random() < 0.7:
            return 'InitPib', []
    elif rng.random() < 0.02:
        return 'InitPib', []
    act = rng.choices(['NewItem', 'RemoveItem', 'SetDefault', 'GetDefault', 'GetChildItem', 'ExportCert', 'ImportCert', 'SignCert', 'GetSignReq'],
                      [20, 11, 12, 10, 6, 9, 14, 9, 9])[0]
    if act == 'NewItem':
        o = pick_obj(rng, p, [0, 0, 1, 1, 1, 2], missing=0.7)
        if o[0] == 0 and all((o[1], n) in p['keys'] for n in range(1, UNI_C['KeyIds'] + 1)):
            o = (1, o[1], 1, 0)
        if len(p['keys']) >= 7 and not (o[0] >= 1 and (o[1], o[2]) in p['keys']):
            return 'RemoveItem', [pick_obj(rng, p, [0, 1], missing=0.0)]
        return act, [o, 'r' if rng.random() < 0.06 else 'e', rng.choice(['r', 'h'])]
    if act == 'RemoveItem':
        return act, [pick_obj(rng, p, [0, 1, 1, 2, 2, 2], missing=0.25)]
    if act == 'SetDefault':
        return act, [pick_obj(rng, p, [0, 1, 2], missing=0.2)]
    if act == 'GetDefault':
        return act, [rng.choice([0, 1, 2]), pick_obj(rng, p, [3, 0, 1, 2], missing=0.2)]
    if act == 'GetChildItem':
        return act, [rng.choice([0, 1, 2, 2, 3])]
    if act in ('ExportCert', 'GetSignReq'):
        return act, [pick_obj(rng, p, [3, 0, 1, 2], missing=0.2)]
    if act == 'ImportCert':
        r = rng.random()
        if r < 0.08:
            return act, [{'kind': 'junk', 'k': ('none', 0), 'c': 0}]
        if r < 0.14:
            return act, [{'kind': 'undecodable', 'k': ('none', 0), 'c': 0}]
        o = pick_obj(rng, p, [2], missing=0.75)
        k = (o[1], o[2])
        if k in p['keys'] and ((k, o[3]) not in p['certs']):
            free = [c for c in range(1, UNI_C['CertIds'] + 1) if (k, c) not in p['certs']]
            o = (2, o[1], o[2], free[0])
        return act, [{'kind': 'cert', 'k': k, 'c': o[3]}]
    return 'SignCert', [pick_obj(rng, p, [0, 1, 2], missing=0.2), dict(rng.choice(SIGN_POOL))]


def event_of(act, args, r, post):
    ev = {'a': act, 'r': seckit.result_json(r), 'post': seckit.state_json(post)}
    for a in args:
        if isinstance(a, tuple):
            ev['o'] = seckit.obj_json(a)
        elif isinstance(a, dict) and 'kind' in a:
            ev['f'] = {'kind': a['kind'], 'k': list(a['k']), 'c': a['c']}
        elif isinstance(a, dict):
            ev['s'] = a
    if act in ('GetDefault', 'GetChildItem'):
        ev['lvl'] = args[0]
    if act == 'NewItem':
        ev['kt'], ev['kit'] = args[1], args[2]
    return ev


def random_session(ctx, rng, k):
    """two stores with the same spelling of names (certificates of the one are foreign certificates for the other) and
    the peer; -> [trace record per store]"""
    variant = {'naming': rng.randrange(len(seckit.NAMINGS)), 'addressing': [rng.randrange(len(seckit.ADDRESSING)) for _ in range(2)],
               'on_disk': k % 23 == 5}
    lens = [rng.randint(30, 60), rng.randint(30, 60)]
    recs = [{'universe': UNI_C, 'variant': variant, 'seed': k, 'store': s, 'ev': [], 'cmds': []} for s in range(2)]
    with seckit.World(seed=k, on_disk=variant['on_disk']) as w:
        stores = [seckit.Store(w, 's%d' % s, UNI_C, naming=variant['naming'], addressing=variant['addressing'][s], k=k + s) for s in range(2)]
        for st in stores:
            st.project()
        while any(len(recs[s]['ev']) < lens[s] for s in range(2)):
            s = rng.choice([s for s in range(2) if len(recs[s]['ev']) < lens[s]])
            st = stores[s]
            act, args = next_command(rng, st.last)
            robj = {'kind': 'session', 'rec': recs[s]}
            try:
                r = st.do(act, args)
                post = st.project()
            except seckit.Mismatch as e:
                report_crashes(ctx, st, robj)
                ctx.violation('X05/%s/check/%s' % (seckit.COMMANDS[act][0], e.slug),
                              '%s %s: %s' % (seckit.COMMANDS[act][0], json.dumps(args_json(args)), e),
                              dict(robj, failed=[act, args_json(args)]))
                break
            recs[s]['ev'].append(event_of(act, args, r, post))
            recs[s]['cmds'].append(st.log[-1])
            report_crashes(ctx, st, robj)
    return recs


def trace_sig(rec, lno):
    ev = rec['ev']
    if not (1 <= lno <= len(ev)):
        return 'X05/trace/end-of-trace', None
    bad = ev[lno - 1]
    prev = ev[lno - 2]['post'] if lno >= 2 else None
    changed = [f for f in seckit.VIEW if prev is not None and prev[f] != bad['post'][f]]
    return 'X05/trace/%s/%s/%s' % (seckit.COMMANDS[bad['a']][0], bad['r']['cls'].split(':')[0], ','.join(changed) or 'store-unchanged'), bad


def stage_c(ctx):
    recs = []
    for k in range(ctx.pick(35, 400)):
        for rec in random_session(ctx, ctx.rng, ctx.seed % 1000 + k):
            if not rec['ev']:
                continue
            recs.append(rec)
            ctx.traces += 1
            ctx.evaluations += len(rec['ev'])
            acts = [e['a'] for e in rec['ev']]
            if len(acts) >= 20 and len({a for a in acts}) >= 6:
                ctx.nt(['session', [(e['a'], json.dumps(e.get('o') or e.get('f') or e.get('lvl'), sort_keys=True)) for e in rec['ev']]])
    strict = os.path.join(tlc.SPEC, 'SecCliTrace.cfg')
    found = os.path.join(tlc.SPEC, 'SecCliTrace_dev.cfg')
    slim = [{'ev': r['ev']} for r in recs]
    rej = judge.validate(ctx, 'SecCliTrace', strict, slim, 'sec-c')
    # histories in which a command ended in an uncaught exception (each reported above as a violation of its own):
    # judged once more with the specification of the tool as found
    again = [(i, lno) for i, lno in rej if any(e['r']['cls'] == 'crash' for e in recs[i]['ev'])]
    final = [(i, lno) for i, lno in rej if (i, lno) not in again]
    if again:
        rej2 = judge.validate(ctx, 'SecCliTrace', found, [slim[i] for i, _ in again], 'sec-c-found')
        final += [(again[j][0], lno) for j, lno in rej2]
        ctx.note('SecCliTrace: %d of %d histories contain a crashed command and are accepted by the specification of the tool as found' % (
            len(again) - len(rej2), len(recs)))
    for i, lno in final:
        sig, bad = trace_sig(recs[i], lno)
        ctx.violation(sig, 'history of the real tool rejected by SecCliTrace at event %d: %s; command line: %s' % (
            lno, json.dumps(bad)[:600], ' '.join(recs[i]['cmds'][lno - 1])[:200] if bad else ''),
            {'kind': 'trace', 'rec': recs[i], 'rejected_at': lno})
    if recs:
        ctx.sample({'kind': 'session-trace', 'commands': [' '.join(c)[:80] for c in recs[-1]['cmds'][:10]]}, limit=2)
    ctx.note('SecCliTrace: %d histories, %d commands' % (len(recs), sum(len(r['ev']) for r in recs)))


def run(ctx):
    ctx.rule = ('A: TLC exhaustive on SecCli (13 invariants, every action taken, 9 witnesses); B: transition cover of two '
                'SecCli graphs replayed into the real pyndnsec commands (ndn.bin.sec.main with a patched argv), result and '
                'store compared after every command; C: random sessions over two stores and a peer judged by SecCliTrace. '
                'non-trivial = B path of >= 5 commands with two kinds of store-changing commands / C history of >= 20 commands '
                'of >= 6 kinds')
    ctx.assumptions = ['certificate versions come from a strictly increasing clock (security_v2.timestamp is a counter)',
                       '-t r draws 2048-bit RSA keys from a pool instead of generating them',
                       'no failures of the file system / database; one command at a time']
    if 'A' in ctx.stages:
        stage_a(ctx)
    if 'B' in ctx.stages:
        stage_b(ctx)
    if 'C' in ctx.stages:
        stage_c(ctx)


def replay(ctx, path):
    with open(path) as f:
        obj = json.load(f)
    kind = obj.get('kind')
    if kind == 'graph':
        v = obj['variant']
        with seckit.World(seed=obj['seed'], on_disk=v.get('on_disk', False)) as w:
            st = seckit.Store(w, 's', obj['universe'], naming=v['naming'], addressing=v['addressing'], k=v['k'])
            for act, args in obj['steps']:
                try:
                    r = st.do(act, args_unjson(args))
                except seckit.Mismatch as e:
                    print('$ pyndnsec', ' '.join(st.log[-1]) if st.log else act, '\n   check failed:', e)
                    return 1
                print('$ pyndnsec', ' '.join(st.log[-1]), '\n   ->', json.dumps(seckit.result_json(r)))
            p = seckit.state_json(st.project())
            print(json.dumps(p))
            for c in st.crashes:
                print('uncaught exception:', c)
            still = bool(st.crashes)
            for field, exp, got in obj.get('differences', []):
                cur = p.get(field, seckit.result_json(r).get(field))
                if cur != exp:
                    still = True
            print('re-executed on the current tree: %s' % ('still differs' if still else 'agrees with the specification'))
            return 1 if still else 0
    if kind in ('trace', 'session'):
        rec = obj['rec']
        for c in rec.get('cmds', []):
            print('$ pyndnsec', ' '.join(c))
        tf = os.path.join(tlc.BUILD, 'x05-replay.ndjson')
        with open(tf, 'w') as f:
            f.write(json.dumps({'ev': rec['ev']}) + '\n')
        res, rej = tlc.validate_traces('SecCliTrace', os.path.join(tlc.SPEC, 'SecCliTrace.cfg'), tf)
        print('recorded history: %s' % ('rejected at event %s' % rej[0][1] if rej else 'accepted'))
        return 1 if rej or obj.get('failed') else 0
    print(json.dumps(obj, indent=1)[:4000])
    return 0
