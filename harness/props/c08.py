"""C08 - TLV models encode to exact, minimal TLV in declared order with the announced size and decode
back to equal values; unknown non-critical elements ignored wherever inserted, unknown / repeated /
out-of-order critical ones rejected.  Spec: TlvNum, TlvModel, TlvModelScan, TlvModelFamily, TlvModelC08,
TlvModelVec, TlvModelJudge.

A  TLC checks the laws (RoundTrip, SizeLaw, DeclaredOrder, EditLaw, Minimal, IncludeBase collection,
   number laws, one element per step) on the scan machine over the family x boundary assignments x edits.
B  TLC (TlvModelVec) enumerates the same assignments and emits Encode / AnnouncedLength / edit outcomes;
   each class is built through the real metaclass, every assignment encoded, projected by the strict
   reader, parsed back, and every edit applied to the real wire.
C  seeded random classes (random kinds, type numbers up to 2^32, depth <= 3, IncludeBase/override) and all
   shipped model classes with random legal values and random edits; observations judged by TLC
   (TlvModelJudge).
Life of an instance (TlvModelLife): the statement speaks of assignments of values, an application keeps ONE
   object, sizes it, changes it in place (list.append, dict[k] = v, sub.field = x, own field assignment) and
   sizes / encodes it again. A: LifeLaw. B: TLC enumerates a life per edit assignment (LifeOf) with the
   AnnouncedLength / Size / Encode expected after every change; the instance that was sized and encoded for v
   lives through it. C: random changes applied to the judged instance; TLC computes the value after each change
   (Mutate) and judges what the instance announced and encoded then (LifeTags).
"""
import importlib, inspect, json, os, struct

from harness import tlc, tlvkit as kit, strict_tlv as stl

LAWS = ['ValuesLegal', 'SizeLaw', 'RoundTrip', 'DeclaredOrder', 'EditLaw', 'Minimal', 'AgreesWithRunScan', 'PosBound']
PROPS = ['OneElementPerStep', 'FposMonotone']
WITNESSES = ['W_OooReject', 'W_RepNested', 'W_Depth2', 'W_IcSame', 'W_NcInMap', 'W_Big']
ACTIONS_A = ['FieldFound', 'SkippedFound', 'RepeatedStays', 'MapKey', 'MapValue', 'IgnoredNonCritical',
             'IgnoredInMap', 'RejectCritical', 'BadNested', 'Done']
SUBST = 'CONSTANTS SchemaOfCase <- C08Schema IcOfCase <- C08Ic InputOfCase <- C08Input'

SHIPPED = ['ndn.app_support.nfd_mgmt', 'ndn.encoding.ndnlp_v2', 'ndn.app_support.light_versec.binary',
           'ndn.app_support.svs.tlv', 'ndn.app_support.security_v2', 'ndn.encoding.ndn_format_0_3']


# ------------------------------------------------------------------ features (for stable signatures)

def _walk(schema, mv):
    for d, fv in zip(schema, mv):
        yield from _walk_field(d, fv)


def _walk_field(d, fv):
    k = d['kind']
    if k == 'repeated':
        for x in fv['items']:
            yield from _walk_field(d['elem'][0], x)
    elif k == 'map':
        for it in fv['items']:
            yield from _walk_field(d['elem'][0], it['key'])
            yield from _walk_field(d['elem'][1], it['val'])
    elif fv['k'] == 'model':
        yield from _walk(d['sub'], fv['v'])
    elif fv['k'] != 'none':
        yield d, fv


def features(schema, mv):
    """value features that the known findings are keyed on"""
    f = set()
    for d, fv in _walk(schema, mv):
        if fv['k'] == 'text' and any(r['v'] >= 128 for r in fv['runs']):
            f.add('nonascii-text')
        if d['kind'] == 'name' and kit.unlimbs(d['t']) != 7:
            f.add('name-type-not-7')
    return '+'.join(sorted(f)) or 'plain'


def edit_context(schema, tree, e):
    """'map-key-without-value' when, after the edit, some map key element of the edited level is not
    directly followed by an element of the map's value type (the trigger of the MapField finding)"""
    lvl, sch = tree, schema
    for p in e['path']:
        el = lvl[p - 1]
        d = kit.level_table(sch).get(kit.unlimbs(el['t']))
        lvl, sch = el['kids'], d['sub']
    ts = [tuple(el['t']) for el in lvl]
    pos = e['pos']
    if e['op'] == 'ins':
        ts = ts[:pos] + [tuple(e['elem']['t'])] + ts[pos:]
    elif e['op'] == 'dup':
        ts = ts[:pos] + [ts[e['src'] - 1]] + ts[pos:]
    else:
        ts[pos - 1], ts[pos] = ts[pos], ts[pos - 1]
    for d in sch:
        if d['kind'] == 'map':
            kt, vt = tuple(d['elem'][0]['t']), tuple(d['elem'][1]['t'])
            for i, t in enumerate(ts):
                if t == kt and (i + 1 >= len(ts) or ts[i + 1] != vt):
                    return 'map-key-without-value'
    return 'plain'


# ------------------------------------------------------------------ observation of the implementation

def classify_exc(ex):
    return 'reject' if kit.exc_class(ex) == 'documented' else 'error:' + type(ex).__name__


def observe(schema, cls, mv, edits, expect_tree=None, with_views=True):
    """Run the implementation on one (class, value): returns the observation record. Edits are positions in
    the expected tree: they are applied only when the wire projects onto that tree (a wrong base encoding is
    reported on its own)."""
    obs = {'alen': 0, 'wlen': 0, 'tree': [], 'proj': '', 'back': [], 'eq': False, 'edits': [], 'enc': '', 'views': []}
    inst = kit.to_python(schema, cls, mv)
    obs['_inst'] = inst                     # the live instance (sized and encoded below): its life goes on in live_on()
    try:
        obs['alen'] = inst.encoded_length()
    except Exception as ex:  # noqa
        obs['enc'] = 'encoded_length:' + type(ex).__name__
        return obs
    try:
        wire = bytes(inst.encode())
    except Exception as ex:  # noqa
        obs['enc'] = type(ex).__name__
        return obs
    obs['wlen'] = len(wire)
    try:
        obs['tree'] = kit.project(wire, schema)
        conc = kit.concrete(wire, schema)
    except stl.TlvError as ex:
        obs['proj'] = ex.reason
        return obs
    try:
        back = cls.parse(wire)
        obs['back'] = kit.to_abstract(schema, back)
        obs['eq'] = bool(back == inst)
    except Exception as ex:  # noqa
        obs['back'] = []
        obs['dec'] = type(ex).__name__
    if expect_tree is not None and obs['tree'] != expect_tree:
        return obs
    if obs['back'] == mv and obs['eq'] and with_views:
        obs['views'] = views(schema, cls, mv, wire, back)
    for e in edits:
        w2 = stl.write_tlv(kit.apply_edit(conc, e))
        o = dict(e)
        try:
            b2 = cls.parse(w2)
            o['gv'] = kit.to_abstract(schema, b2)
            o['got'] = 'same' if o['gv'] == mv else 'other'
        except Exception as ex:  # noqa
            o['gv'] = []
            o['got'] = classify_exc(ex)
        obs['edits'].append(o)
    return obs


# ------------------------------------------------------------------ the life of one instance (TlvModelLife.tla)

def live_on(schema, inst, steps):
    """Continue the life of the instance that observe() has sized and encoded: apply each change IN PLACE (list /
    dict methods, assignment in a sub-model, assignment of an own field), then ask the size (pure sizing call,
    no markers: what an application filling a packet up to an MTU does) and / or encode, as the step says.
    steps = [(m, sized, encoded)]; returns the life records judged by TlvModelJudge.LifeTags. An exception is
    recorded in the step (enc / proj) and ends the life."""
    out = []
    for m, sized, encoded in steps:
        x = {'m': m, 'sized': sized, 'encoded': encoded, 'alen': 0, 'wlen': 0, 'tree': [], 'enc': '', 'proj': ''}
        out.append(x)
        try:
            kit.mutate_instance(schema, inst, m)
        except Exception as ex:  # noqa
            x.update(enc='change:' + type(ex).__name__, sized=False, encoded=False)
            break
        if sized:
            try:
                x['alen'] = inst.encoded_length()
            except Exception as ex:  # noqa
                x.update(enc='encoded_length:' + type(ex).__name__, sized=False, encoded=False)
                break
        if encoded:
            try:
                wire = bytes(inst.encode())
            except Exception as ex:  # noqa
                x.update(enc=type(ex).__name__, encoded=False)
                break
            x['wlen'] = len(wire)
            try:
                x['tree'] = kit.project(wire, schema)
            except stl.TlvError as ex:
                x['proj'] = ex.reason
                break
    return out


def life_where(m):
    """stable class of a change for signatures: the operation and whether it goes through a descriptor of the
    top-level instance (own) or happens in an object the instance only refers to (in-place / nested)"""
    if m['path']:
        return '%s:nested' % m['op']
    return '%s:%s' % (m['op'], 'own' if m['op'] == 'set' else 'in-place')


# ------------------------------------------------------------------ other representations and views of the same value

def _is_simple(comps):
    return bool(comps) and all(c['t'] == [8] and c['runs'] and all(97 <= r['v'] <= 122 for r in c['runs']) for c in comps)


def alt_field(d, fv, fobj, k):
    """the same abstract value in ANOTHER legal Python representation than kit.field_to_python gives (k varies it):
    bytes -> bytearray / memoryview; text -> utf-8 bytes; name -> URI str (plain lower-case generic components),
    encoded Name (type 7 fields), list of memoryview / bytearray components; uint -> Enum / Flag member."""
    from ndn.encoding import tlv_model as tm
    kind = d['kind']
    if kind == 'repeated':
        return [alt_field(d['elem'][0], x, fobj.element_type, k + i) for i, x in enumerate(fv['items'])]
    if kind == 'map':
        return {kit.field_to_python(d['elem'][0], it['key'], fobj.key_type): alt_field(d['elem'][1], it['val'], fobj.value_type, k + i)
                for i, it in enumerate(fv['items'])}
    if fv['k'] == 'none':
        return None
    if kind == 'bytes':
        b = kit.bytes_of_runs(fv['runs'])
        return bytearray(b) if k % 2 else memoryview(b'..' + b)[2:]
    if kind == 'text':
        t = kit.text_of_runs(fv['runs'])
        return t.encode('utf-8') if k % 2 else t
    if kind == 'name':
        comps = [kit.comp_bytes(c) for c in fv['comps']]
        if kit.unlimbs(d['t']) == 7:
            if _is_simple(fv['comps']) and k % 3 == 0:
                return '/' + '/'.join(kit.bytes_of_runs(c['runs']).decode() for c in fv['comps'])
            if k % 3 == 1:
                return stl.write_tlv([(7, [(kit.unlimbs(c['t']), kit.bytes_of_runs(c['runs'])) for c in fv['comps']])])
        if k % 4 == 2:
            return tuple(comps)                        # a tuple of encoded components is an Iterable of components too
        if k % 4 == 3:
            return tuple(memoryview(c) for c in comps)
        return [memoryview(c) if (k + i) % 2 else bytearray(c) for i, c in enumerate(comps)]
    if kind == 'uint':
        n = kit.unlimbs(fv['n'])
        g = fobj.element_type if isinstance(fobj, tm.RepeatedField) else fobj
        if isinstance(g, tm.UintField) and g.val_base_type is not int:
            try:
                return g.val_base_type(n)
            except ValueError:
                return n
        return n
    if kind == 'model':
        return to_python_alt(d['sub'], fobj.model_type, fv['v'], k + 1)
    return kit.field_to_python(d, fv, fobj)


def to_python_alt(schema, cls, mv, k=0):
    inst = cls()
    for i, (d, fv, f) in enumerate(zip(schema, mv, kit.model_fields(cls))):
        val = alt_field(d, fv, f, k + i)
        if d['kind'] in ('repeated', 'map') or val is not None:
            setattr(inst, f.name, val)
        elif f.default is None:
            f.__set__(inst, None)
    return inst


def asdict_defined(schema, mv):
    """TlvModel.asdict is only usable when no bytes / text / sub-model field it walks through is None (KF: it raises
    otherwise)"""
    for d, fv in zip(schema, mv):
        k = d['kind']
        if k in ('bytes', 'text', 'model') and fv['k'] == 'none':
            return False
        if k == 'model' and not asdict_defined(d['sub'], fv['v']):
            return False
        if k == 'repeated' and d['elem'][0]['kind'] == 'model' and not all(asdict_defined(d['elem'][0]['sub'], x['v']) for x in fv['items']):
            return False
        if k == 'map' and d['elem'][1]['kind'] == 'model' and not all(asdict_defined(d['elem'][1]['sub'], it['val']['v']) for it in fv['items']):
            return False
    return True


def plain_to_abstract(d, val):
    """value as found in asdict() / aslist() / attribute reads -> abstract field value"""
    import enum
    kind = d['kind']
    if kind == 'repeated':
        return {'k': 'list', 'items': [plain_to_abstract(d['elem'][0], x) for x in (val or [])]}
    if kind == 'map':
        return {'k': 'map', 'items': [{'key': plain_to_abstract(d['elem'][0], a), 'val': plain_to_abstract(d['elem'][1], b)}
                                      for a, b in (val or {}).items()]}
    if val is None:
        return kit.NONE
    if kind == 'uint':
        return {'k': 'uint', 'n': kit.limbs(int(val.value if isinstance(val, enum.Enum) else val))}
    if kind == 'bool':
        return {'k': 'bool'} if val else kit.NONE
    if kind == 'bytes':
        return {'k': 'bytes', 'runs': kit.runs_of_bytes(val)}
    if kind == 'text':
        return {'k': 'text', 'runs': kit.runs_of_text(val)} if isinstance(val, str) else {'k': 'bytes', 'runs': kit.runs_of_bytes(val)}
    if kind == 'name':
        return {'k': 'name', 'comps': [kit.comp_abstract(c) for c in val]} if not isinstance(val, str) else {'k': 'text', 'runs': kit.runs_of_text(val)}
    if kind == 'model':
        if isinstance(val, dict):
            return {'k': 'model', 'v': [plain_to_abstract(x, val.get(x['name'])) for x in d['sub']]}
        return {'k': 'model', 'v': kit.to_abstract(d['sub'], val)}
    raise ValueError(kind)


def views(schema, cls, mv, wire, back):
    """Everything else a user does with the same value must agree with the judged encode / parse:
       alt-repr   the value assigned in other legal Python representations encodes to the same wire
       reencode   the PARSED model (memoryview-valued fields) encodes to the same wire
       container  parse of a bytearray / read-only memoryview gives the same value
       attr       reading each field through its descriptor (enum conversion of UintField) gives the stored value
       asdict / repr   do not raise; the dict holds the same values"""
    tags = []

    def attempt(tag, fn):
        try:
            r = fn()
            if r is not True:
                tags.append('%s/differs' % tag)
        except Exception as ex:  # noqa
            tags.append('%s/raises:%s' % (tag, type(ex).__name__))
    for k in (0, 1, 2, 3, 6, 7):
        attempt('alt-repr', lambda: bytes(to_python_alt(schema, cls, mv, k).encode()) == wire)
    attempt('alt-repr-announced', lambda: to_python_alt(schema, cls, mv, 1).encoded_length() == len(wire))
    attempt('reencode', lambda: bytes(back.encode()) == wire)

    def into_dirty(pad, fill):
        # encode(wire, offset) into a caller-supplied buffer that held other data before: every octet of the
        # encoding must be written (seed round 6: a zero Length octet was left to the buffer's initial content)
        buf = bytearray([fill]) * (pad + len(wire) + 3)
        inst = to_python_alt(schema, cls, mv, 0)
        inst.encode(buf, pad)
        return bytes(buf[pad:pad + len(wire)]) == wire and bytes(buf[:pad]) == bytes([fill]) * pad and \
            bytes(buf[pad + len(wire):]) == bytes([fill]) * 3
    attempt('encode-into-dirty-buffer', lambda: into_dirty(0, 0xFF))
    attempt('encode-into-dirty-buffer', lambda: into_dirty(5, 0x5A))
    attempt('container:bytearray', lambda: kit.to_abstract(schema, cls.parse(bytearray(wire))) == mv)
    attempt('container:memoryview', lambda: kit.to_abstract(schema, cls.parse(memoryview(b'\x00' + wire)[1:])) == mv)
    attempt('attr', lambda: [plain_to_abstract(d, getattr(back, f.name)) for d, f in zip(schema, kit.model_fields(cls))] == mv)
    from ndn.encoding import tlv_model as tm
    attempt('attr-enum-type', lambda: all(getattr(back, f.name) is None or isinstance(getattr(back, f.name), f.val_base_type)
                                          for f in kit.model_fields(cls) if isinstance(f, tm.UintField)))
    attempt('repr', lambda: isinstance(repr(back), str))
    if asdict_defined(schema, mv):
        attempt('asdict', lambda: [plain_to_abstract(d, back.asdict().get(d['name'])) for d in schema] == mv)
    else:
        attempt('asdict-with-unset-optional-field', lambda: [plain_to_abstract(d, back.asdict().get(d['name'])) for d in schema] == mv)
    return tags


# ------------------------------------------------------------------ stage B comparison

def compare_vec(ctx, cname, schema, cls, vec, decl=None):
    mv = vec['v']
    edits = sorted(vec['edits'], key=lambda e: (e['path'], e['kind'], e['op'], e['pos'], e['src']))
    obs = observe(schema, cls, mv, edits, vec['tree'])
    feat = features(schema, mv)
    rep = {'kind': 'vec', 'cname': cname, 'decl': decl, 'schema': schema, 'v': mv}
    bad = []
    # checks in causal order; only the first failing one is reported (the later ones are its consequences),
    # and edits are judged only on a correct base encoding
    if obs['alen'] != vec['alen']:
        bad.append(('announced-length', 'encoded_length()=%d, spec AnnouncedLength=%d%s' % (
            obs['alen'], vec['alen'], (' (encode then raised %s)' % obs['enc']) if obs['enc'] else '')))
    elif obs['enc']:
        bad.append(('encode-raises:%s' % obs['enc'], 'encode raised %s' % obs['enc']))
    elif obs['wlen'] != vec['size']:
        bad.append(('wire-length', 'len(encode())=%d, spec Size(Encode)=%d' % (obs['wlen'], vec['size'])))
    elif obs['proj']:
        bad.append(('wire-not-strict-tlv:%s' % obs['proj'], 'encoded wire is not strict TLV: %s' % obs['proj']))
    elif obs['tree'] != vec['tree']:
        bad.append(('tree', 'projected element tree differs from Encode(v)'))
    elif obs.get('dec'):
        bad.append(('parse-raises:%s' % obs['dec'], 'parse(encode(v)) raised %s' % obs['dec']))
    elif obs['back'] != vec['back']:
        bad.append(('roundtrip', 'parse(encode(v)) differs from v'))
    elif not obs['eq']:
        bad.append(('eq', 'parse(encode(v)) == v is False although all fields project equal'))
    else:
        for tag in obs['views']:
            bad.append(('view/' + tag, 'another representation / view of the same value disagrees: %s' % tag))
        for e, o in zip(edits, obs['edits']):
            if o['got'] != e['expect']:
                c = edit_context(schema, vec['tree'], e)
                bad.append(('edit/%s/%s/%s/%s' % (e['kind'], e['expect'], o['got'], c),
                            'edit %s at path %s pos %d: spec %s, implementation %s' % (e['kind'], e['path'], e['pos'], e['expect'], o['got'])))
                rep = dict(rep, edits=[e])
    if not bad and vec.get('lives'):
        bad += compare_life(schema, obs['_inst'], vec['lives'])
        if bad:
            rep = dict(rep, lives=vec['lives'])
    for tag, what in bad:
        sig = 'C08/%s' % tag if tag.startswith(('edit/', 'view/', 'life/')) else 'C08/%s/%s' % (tag, feat)
        ctx.violation(sig, '%s: %s [value features: %s]' % (cname, what, feat), rep)
    return obs, bool(bad)


def compare_life(schema, inst, lives):
    """stage B: the instance that was sized and encoded for v lives on through the changes TLC enumerated
    (TlvModelVec.LifeVec); after each one it is sized (pure sizing call) and encoded, and both are compared with
    AnnouncedLength / Size / Encode of the value TLC computed for that moment. First failing step only."""
    if not all(x['ok'] for x in lives):
        raise tlc.MachineryError('TlvModelVec emitted an inadmissible life: %s' % json.dumps([x['m'] for x in lives])[:400])
    steps = []
    for x in lives:
        if 'name-type-not-7' in features(schema, x['v']):
            break                           # the known NameField(type_number) finding: any such value only hits it again
        steps.append((x['m'], True, True))
    for x, o in zip(lives, live_on(schema, inst, steps)):
        m = x['m']
        chk = ('encode-raises:%s' % o['enc'] if o['enc'] else 'announced-length' if o['alen'] != x['alen'] else
               'wire-length' if o['wlen'] != x['size'] else 'wire-not-strict-tlv:%s' % o['proj'] if o['proj'] else
               'tree' if o['tree'] != x['tree'] else '')
        if chk:
            return [('life/%s/%s' % (life_where(m), chk),
                     'after the in-place change %s (path %s, field %d) of the live instance: %s - encoded_length()=%d, len(encode())=%d, '
                     'spec AnnouncedLength=%d Size=%d' % (m['op'], m['path'], m['i'], chk, o['alen'], o['wlen'], x['alen'], x['size']))]
    return []


# ------------------------------------------------------------------ stage C generators

class Gen:
    def __init__(self, rng):
        self.rng = rng
        self.n = 0

    def tnum(self, used):
        r = self.rng
        while True:
            t = r.choice([r.randint(1, 252), r.randint(1, 252), r.randint(253, 65535), r.randint(65536, 2 ** 32 - 1),
                          r.choice([252, 253, 254, 255, 256, 65535, 65536, 2 ** 32 - 1, 2 ** 32])])
            if t not in used and t != 7:
                used.add(t)
                return t

    def field(self, name, depth, used, kinds=None):
        r = self.rng
        kinds = kinds or ['uint', 'uint', 'ufix', 'bool', 'bytes', 'text', 'name', 'model', 'repeated', 'map']
        k = r.choice(kinds)
        if k in ('model', 'repeated', 'map') and depth >= 3:
            k = 'uint'
        if k == 'name':
            if 7 in used:
                k = 'bytes'
            else:
                used.add(7)
                return kit.descr(name, 7, 'name')
        t = self.tnum(used)
        if k == 'ufix':
            return kit.descr(name, t, 'uint', fixed=r.choice([1, 2, 4, 8]))
        if k == 'model':
            return kit.descr(name, t, 'model', ic=r.random() < 0.25, sub=self.schema(depth + 1))
        if k == 'repeated':
            used.discard(t)
            e = self.field(name, depth + 1, used, ['uint', 'ufix', 'bytes', 'text', 'model', 'name'])
            return kit.descr(name, kit.unlimbs(e['t']), 'repeated', elem=[e])
        if k == 'map':
            used.discard(t)
            kd = self.field(name + 'K', depth + 1, used, ['uint', 'text'])
            vd = self.field(name + 'V', depth + 1, used, ['uint', 'bytes', 'text', 'model'])
            return kit.descr(name, kit.unlimbs(kd['t']), 'map', elem=[kd, vd])
        return kit.descr(name, t, k)

    def schema(self, depth=1, nmin=1, nmax=5, prefix='f'):
        used = set()
        self.n += 1
        return [self.field('%s%d_%d' % (prefix, self.n, i), depth, used) for i in range(self.rng.randint(nmin, nmax))]

    def decl(self):
        """class declaration, 40 %: with IncludeBase of one or two bases and an override"""
        r = self.rng
        self.n += 1
        me = 'R%d' % self.n
        if r.random() < 0.6:
            return {'cname': me, 'entries': [{'k': 'field', 'd': d} for d in self.schema()]}
        used = set()
        base_fields = [self.field('b%d_%d' % (self.n, i), 2, used) for i in range(r.randint(1, 3))]
        base = {'cname': me + 'Base', 'entries': [{'k': 'field', 'd': d} for d in base_fields]}
        entries = []
        own = [self.field('o%d_%d' % (self.n, i), 2, used) for i in range(r.randint(0, 3))]
        if r.random() < 0.5:                      # diamond: two intermediate classes both including base
            m1 = {'cname': me + 'L', 'entries': [{'k': 'include', 'base': base}, {'k': 'field', 'd': self.field('l%d' % self.n, 2, used)}]}
            m2 = {'cname': me + 'Rt', 'entries': [{'k': 'include', 'base': base}, {'k': 'field', 'd': self.field('r%d' % self.n, 2, used)}]}
            entries += [{'k': 'include', 'base': m1}, {'k': 'include', 'base': m2}]
        else:
            k = r.randint(0, len(own))
            entries += [{'k': 'field', 'd': d} for d in own[:k]] + [{'k': 'include', 'base': base}]
            own = own[k:]
        entries += [{'k': 'field', 'd': d} for d in own]
        if r.random() < 0.6:                      # override one base field in place (new kind and type)
            victim = r.choice(base_fields)
            if not (victim['kind'] == 'name'):
                entries.append({'k': 'field', 'd': self.field(victim['name'], 2, used, ['uint', 'bytes', 'text', 'bool'])})
        return {'cname': me, 'entries': entries}

    # ---- values
    def uint(self, fixed):
        r = self.rng
        w = fixed or r.choice([1, 1, 2, 4, 8])
        lo = 0 if fixed or w == 1 else 1 << (4 * w)
        return r.choice([r.randint(lo, (1 << (8 * w)) - 1), (1 << (8 * w)) - 1, lo])

    def blob(self):
        r = self.rng
        x = r.random()
        if x < 0.8:
            return bytes(r.randrange(256) for _ in range(r.choice([0, 1, 2, 3, 5, 8, 20, 40])))
        if x < 0.95:
            return bytes([r.randrange(256)]) * r.choice([252, 253, 254, 300])
        return bytes([r.randrange(256)]) * r.choice([65535, 65536, 70000])

    def text(self):
        r = self.rng
        pools = ['abcXYZ 09', 'éßñÿ\u0080', '€ࠀ￿漢', '\U0001d11e\U00010000\U0010ffff']
        x = r.random()
        if x < 0.85:
            return ''.join(r.choice(r.choice(pools)) for _ in range(r.choice([0, 1, 2, 3, 6, 12, 30])))
        return r.choice(r.choice(pools)) * r.choice([84, 85, 126, 127, 252, 253, 300, 65535, 65536])

    def value(self, d, depth=0, enum=None):
        r = self.rng
        k = d['kind']
        if k == 'repeated':
            return {'k': 'list', 'items': [self.value(d['elem'][0], depth + 1, enum) for _ in range(r.choice([0, 0, 1, 2, 3]))]}
        if k == 'map':
            items, seen = [], []
            for _ in range(r.choice([0, 1, 2, 3])):
                key = self.value(d['elem'][0], depth + 1)
                if key not in seen:
                    seen.append(key)
                    items.append({'key': key, 'val': self.value(d['elem'][1], depth + 1)})
            return {'k': 'map', 'items': items}
        if depth == 0 and r.random() < 0.25:
            return kit.NONE
        if k == 'uint':
            ev = (enum or {}).get(d['name'])
            return {'k': 'uint', 'n': kit.limbs(r.choice(ev) if ev else self.uint(d['fixed']))}
        if k == 'bool':
            return {'k': 'bool'}
        if k == 'bytes':
            return {'k': 'bytes', 'runs': kit.runs_of_bytes(self.blob())}
        if k == 'text':
            return {'k': 'text', 'runs': kit.runs_of_text(self.text())}
        if k == 'name':
            comps = [{'t': kit.limbs(r.choice([8, 8, 8, 1, 2, 32, 50, 54, 253, 65535])),
                      'runs': kit.runs_of_bytes(bytes(r.randrange(256) for _ in range(r.choice([0, 1, 3, 8, 32]))))}
                     for _ in range(r.choice([0, 1, 2, 3, 5]))]
            return {'k': 'name', 'comps': comps}
        if k == 'model':
            return {'k': 'model', 'v': [self.value(x, 0 if r.random() < 0.7 else 1, enum) for x in d['sub']]}
        raise ValueError(k)

    def mutation(self, schema, mv, enum=None):
        """one random change of the current value mv in the vocabulary of TlvModelLife: half of them below the top
        level when there is a sub-model to go to, container fields preferred (their in-place operations are the
        changes no descriptor sees)"""
        r = self.rng
        nodes = []

        def walk(path, s, v):
            nodes.append((path, s, v))
            for i, (d, fv) in enumerate(zip(s, v), 1):
                if d['kind'] == 'model' and fv['k'] == 'model':
                    walk(path + [[i, 0]], d['sub'], fv['v'])
                elif d['kind'] == 'repeated' and d['elem'][0]['kind'] == 'model':
                    for j, x in enumerate(fv['items'], 1):
                        walk(path + [[i, j]], d['elem'][0]['sub'], x['v'])
                elif d['kind'] == 'map' and d['elem'][1]['kind'] == 'model':
                    for j, it in enumerate(fv['items'], 1):
                        walk(path + [[i, j]], d['elem'][1]['sub'], it['val']['v'])
        walk([], schema, mv)
        deep = [n for n in nodes if n[0]]
        path, s, v = r.choice(deep) if deep and r.random() < 0.5 else nodes[0]
        boxes = [i for i, d in enumerate(s) if d['kind'] in ('repeated', 'map')]
        i = r.choice(boxes) if boxes and r.random() < 0.6 else r.randrange(len(s))
        d, fv = s[i], v[i]
        if d['kind'] == 'repeated':
            op = r.choice(['append', 'append', 'append', 'setitem', 'pop', 'clear', 'set'])
            if op in ('setitem', 'pop') and not fv['items']:
                op = 'append'
            if op == 'set':
                return kit.mut(path, i + 1, 'set', fv=self.value(d, 1, enum))
            if op in ('pop', 'clear'):
                return kit.mut(path, i + 1, op)
            return kit.mut(path, i + 1, op, j=r.randint(1, len(fv['items'])) if op == 'setitem' else 0, fv=self.value(d['elem'][0], 1, enum))
        if d['kind'] == 'map':
            op = r.choice(['put', 'put', 'put', 'del', 'clear', 'set'])
            if op == 'del' and not fv['items']:
                op = 'put'
            if op == 'set':
                return kit.mut(path, i + 1, 'set', fv=self.value(d, 1, enum))
            if op == 'clear':
                return kit.mut(path, i + 1, op)
            if op == 'del':
                return kit.mut(path, i + 1, op, j=r.randint(1, len(fv['items'])))
            key = r.choice(fv['items'])['key'] if fv['items'] and r.random() < 0.3 else self.value(d['elem'][0], 1)
            return kit.mut(path, i + 1, 'put', key=key, fv=self.value(d['elem'][1], 1, enum))
        return kit.mut(path, i + 1, 'set', fv=self.value(d, 0 if r.random() < 0.2 else 1, enum))

    def life(self, cls, schema, mv, n, enum=None):
        """n changes, each admissible on the value the previous ones leave (kept inside what sanitize() allows for the
        shipped classes, and away from the known NameField(type_number) finding, which any value with such a name
        would only hit again)"""
        out, cur = [], mv
        for _ in range(4 * n):
            if len(out) == n:
                break
            m = self.mutation(schema, cur, enum)
            nxt = kit.mutate_abstract(schema, cur, m)
            if sanitize(cls, schema, nxt) != nxt or 'name-type-not-7' in features(schema, nxt):
                continue
            x = self.rng.random()
            out.append((m, x < 0.85, x >= 0.85 or self.rng.random() < 0.7))
            cur = nxt
        return out

    def edits(self, schema, tree, n):
        """random edits of the projected tree: insert unknown (non-)critical, duplicate, transpose"""
        r = self.rng
        out = []
        for _ in range(n):
            lvl, sch, path = tree, schema, []
            while True:
                cands = [i for i, el in enumerate(lvl) if not el['leaf'] and
                         (kit.level_table(sch).get(kit.unlimbs(el['t'])) or {}).get('kind') == 'model']
                if not cands or r.random() < 0.5:
                    break
                i = r.choice(cands)
                path.append(i + 1)
                sch = kit.level_table(sch)[kit.unlimbs(lvl[i]['t'])]['sub']
                lvl = lvl[i]['kids']
            types = set(kit.level_table(sch))
            op = r.choice(['nc', 'nc', 'uc', 'uc', 'dup', 'swap'])
            e = {'path': path, 'op': 'ins', 'pos': r.randint(0, len(lvl)), 'src': 0, 'kind': op,
                 'elem': kit.leaf(0, 0, [])}
            if op in ('nc', 'uc'):
                while True:
                    t = r.choice([r.randint(1, 252), r.randint(253, 70000), r.randint(2 ** 31, 2 ** 32)])
                    if t not in types and (t % 2 == 1) == (op == 'uc'):
                        break
                body = bytes(r.randrange(256) for _ in range(r.choice([0, 0, 1, 4])))
                e['elem'] = kit.leaf(t, len(body), kit.runs_of_bytes(body))
            elif op == 'dup':
                if not lvl:
                    continue
                e.update(op='dup', src=r.randint(1, len(lvl)))
            else:
                if len(lvl) < 2:
                    continue
                e.update(op='swap', pos=r.randint(1, len(lvl) - 1))
            out.append(e)
        return out


def shipped_classes():
    from ndn.encoding.tlv_model import TlvModel
    out = []
    for mn in SHIPPED:
        m = importlib.import_module(mn)
        for name, obj in sorted(vars(m).items()):
            if inspect.isclass(obj) and issubclass(obj, TlvModel) and obj is not TlvModel and obj.__module__ == mn:
                sch = kit.introspect(obj)
                if sch:
                    out.append(('%s.%s' % (mn.split('.')[-1], name), obj, sch))
    return out


def enum_values(cls, out=None):
    """field name -> admissible raw values for uint fields whose val_base_type is an Enum / Flag"""
    import enum
    from ndn.encoding import tlv_model as tm
    out = {} if out is None else out
    for f in cls._encoded_fields:
        g = f.element_type if isinstance(f, tm.RepeatedField) else f
        if isinstance(g, tm.UintField) and g.val_base_type is not int:
            out[f.name] = [m.value for m in g.val_base_type]
        if isinstance(g, tm.ModelField):
            enum_values(g.model_type, out)
    return out


def sanitize(cls, schema, mv):
    """Custom Field subclasses are outside C08's quantifier (C01/C02 own them): SignatureValueField stays
    absent, an InterestNameField is present and carries no ParametersSha256Digest component, and an
    InterestPacketValue has no ApplicationParameters / signature (they rewrite the name)."""
    from ndn.encoding import tlv_model as tm
    out = []
    for d, fv, f in zip(schema, mv, kit.model_fields(cls)):
        g = f.element_type if isinstance(f, tm.RepeatedField) else f
        tn = type(g).__name__
        if tn == 'SignatureValueField' or (cls.__name__ == 'InterestPacketValue' and
                                           d['name'] in ('application_parameters', 'signature_info')):
            fv = kit.NONE
        elif isinstance(g, tm.NameField) and g.default is not None and fv['k'] == 'none':
            fv = {'k': 'name', 'comps': []}       # a declared default ("/") would be substituted on decoding
        elif tn == 'InterestNameField':
            fv = {'k': 'name', 'comps': [c for c in (fv.get('comps') or []) if c['t'] != [2]]}
        elif isinstance(g, tm.ModelField):
            if isinstance(f, tm.RepeatedField):
                fv = {'k': 'list', 'items': [{'k': 'model', 'v': sanitize(g.model_type, d['elem'][0]['sub'], x['v'])}
                                             for x in fv['items']]}
            elif fv['k'] == 'model':
                fv = {'k': 'model', 'v': sanitize(g.model_type, d['sub'], fv['v'])}
        out.append(fv)
    return out


def record_for(gen, rid, cname, cls, schema, decl, nedits, enum=None, nlife=0):
    mv = sanitize(cls, schema, [gen.value(d, 0, enum) for d in schema])
    obs0 = observe(schema, cls, mv, [], with_views=False)
    edits = gen.edits(schema, obs0['tree'], nedits) if obs0['tree'] else []
    obs = observe(schema, cls, mv, edits)
    life = live_on(schema, obs['_inst'], gen.life(cls, schema, mv, nlife, enum)) if nlife and not obs['enc'] and not obs['proj'] else []
    rec = {'id': rid, 'cname': cname, 'schema': schema, 'decl': decl or {'cname': '', 'entries': []}, 'v': mv,
           'alen': obs['alen'], 'wlen': obs['wlen'], 'tree': obs['tree'], 'back': obs['back'], 'eq': obs['eq'],
           'enc': obs['enc'], 'proj': obs['proj'], 'dec': obs.get('dec', ''), 'views': obs['views'], 'life': life,
           'edits': [{k: o[k] for k in ('path', 'op', 'pos', 'src', 'elem', 'kind', 'got', 'gv')} for o in obs['edits']]}
    return rec


def judge(ctx, recs, name):
    cfg = kit.write_cfg('TlvEval.cfg', init='Init', next_='Next')
    verdicts, wall = kit.judge('TlvModelJudge', cfg, recs, name, nproc=ctx.pick(4, 12))
    r = tlc.TlcResult()
    r.distinct = r.generated = len(recs)
    r.wall = wall
    ctx.tlc_runs.append({'cfg': 'TlvModelJudge (%d records, evaluated not explored)' % len(recs), 'distinct': 0,
                         'generated': 0, 'depth': 0, 'wall_s': round(wall, 1)})
    return verdicts


BASE_ORDER = ['alen', 'enc', 'wlen', 'proj', 'tree', 'dec', 'back', 'eq', 'collect']


LIFE_CHECK = {'alen': 'announced-length', 'wlen': 'wire-length', 'tree': 'tree'}


def report_life(ctx, rec, ltags):
    """first failing step of the life of the instance: a check failed by TLC (LifeTags) or an exception recorded
    by the driver. Signature C08/life/<operation>:<own|in-place|nested>/<check>."""
    fail = None
    if ltags:
        _, chk, j = ltags[0].split('/')
        fail = (int(j), LIFE_CHECK[chk])
    for j, x in enumerate(rec['life'], 1):
        if (x['enc'] or x['proj']) and (fail is None or j <= fail[0]):
            fail = (j, 'encode-raises:%s' % x['enc'] if x['enc'] else 'wire-not-strict-tlv:%s' % x['proj'])
    if fail is None:
        return
    j, chk = fail
    m = rec['life'][j - 1]['m']
    x = rec['life'][j - 1]
    ctx.violation('C08/life/%s/%s' % (life_where(m), chk),
                  '%s: after %d change(s) of the live instance (last: %s at path %s field %d), %s: announced %d, encoded %d octets' % (
                      rec['cname'], j, m['op'], m['path'], m['i'], chk, x['alen'], x['wlen']),
                  {'kind': 'record', 'rec': dict(rec, edits=[], life=rec['life'][:j])})


def report_c(ctx, recs, verdicts):
    by = {r['id']: r for r in recs}
    for r in recs:                          # an exception in the life of an instance the judge has nothing to say about
        if r['id'] not in verdicts and any(x['enc'] or x['proj'] for x in r['life']):
            verdicts[r['id']] = []
    broken = []
    for rid, tags in verdicts.items():
        rec = by[rid]
        feat = features(rec['schema'], rec['v'])
        if any(tag in ('ILLEGAL-INPUT', 'SPEC-ROUNDTRIP') for tag in tags):
            broken.append('judge: %s on record %s (%s)' % (tags, rid, rec['cname']))
            continue
        vtags = [t for t in tags if t.startswith('view/')]
        ltags = [t for t in tags if t.startswith('life/')]
        tags = [t for t in tags if not t.startswith(('view/', 'life/'))]
        base = [t for t in tags if not t.startswith('edit/')]
        if rec['enc'] and 'alen' not in base:
            base.append('enc')
        if rec['proj']:
            base.append('proj')
        if rec['dec']:
            base.append('dec')
        if base:
            # causal order; report the first failing check only, edits only on a correct base encoding
            first = min(base, key=BASE_ORDER.index)
            name = {'alen': 'announced-length', 'enc': 'encode-raises:%s' % rec['enc'], 'wlen': 'wire-length',
                    'proj': 'wire-not-strict-tlv:%s' % rec['proj'], 'dec': 'parse-raises:%s' % rec['dec'],
                    'back': 'roundtrip'}.get(first, first)
            ctx.violation('C08/%s/%s' % (name, feat), '%s: %s (failed checks: %s) [value features: %s]' % (
                rec['cname'], name, ','.join(base), feat), {'kind': 'record', 'rec': dict(rec, edits=[])})
            continue
        report_life(ctx, rec, ltags)
        for tag in vtags:
            ctx.violation('C08/%s' % tag, '%s: another representation / view of the same value disagrees: %s' % (rec['cname'], tag),
                          {'kind': 'record', 'rec': dict(rec, edits=[])})
        for tag in tags:
            _, kind, want, got, j = tag.split('/')
            e = rec['edits'][int(j) - 1]
            c = edit_context(rec['schema'], rec['tree'], e)
            kk = {'dup': 'rep', 'swap': 'ooo'}.get(kind, kind)
            ctx.violation('C08/edit/%s/%s/%s/%s' % (kk, want, got, c),
                          '%s: edit %s path %s pos %d: reference %s, implementation %s' % (
                              rec['cname'], kind, e['path'], e['pos'], want, got),
                          {'kind': 'record', 'rec': dict(rec, edits=[e])})
    if broken and not ctx.violations:
        raise tlc.MachineryError(broken[0])
    for b in broken[:3]:
        ctx.note('not judged (generated input outside the reference domain): ' + b)


# ------------------------------------------------------------------ run

def selfcheck_strict(numvec):
    """trusted base cross-check: strict_tlv against TLC-generated number vectors"""
    for x in numvec:
        n = kit.unlimbs(x['n'])
        if list(stl.write_var(n)) != x['var'] or stl.var_size(n) != x['size'] or \
                stl.parse_var(bytes(x['var'])) != (n, x['size']) or list(stl.uint_bytes(n)) != x['uint']:
            raise tlc.MachineryError('strict_tlv disagrees with TlvNum on %d' % n)
    for bad in (b'\xfd\x00\xfc', b'\xfe\x00\x00\xff\xff', b'\xfd\x01'):
        try:
            stl.parse_var(bad)
        except stl.TlvError:
            continue
        raise tlc.MachineryError('strict_tlv accepts non-shortest / truncated number %r' % bad)


def run(ctx):
    try:
        _run(ctx)
        kit.cleanup()
    except tlc.MachineryError:
        raise
    except Exception as ex:  # noqa
        # an implementation broken badly enough to derail the driver after violations were already recorded:
        # report those violations rather than a machinery failure
        from harness import core as _core
        known = _core.load_known(ctx.prop)
        if not any(_core.match_known(known, v['sig']) is None for v in ctx.violations):
            raise
        ctx.note('driver stopped by %s after %d violation signature(s)' % (type(ex).__name__, len(ctx.violations)))


def _run(ctx):
    ctx.rule = ('A: TLC states of the scan machine over family x boundary assignments x edits. B: every TLC-enumerated '
                '(class, assignment) executed on the real class (encode, strict projection, parse, each edit, each change of its life). '
                'C: random/shipped (class, value, edits, life) records judged by TLC. non-trivial = distinct (class, value) '
                'with a boundary-size value (number or length >= 253), nesting, repetition, a map, non-ASCII text, '
                'or at least one edit')
    ctx.assumptions = ['strict_tlv reader/writer (cross-checked against TlvNum vectors at every run)',
                       'Python utf-8 codec and the projection of field values in harness/tlvkit.py',
                       'TLC and the CommunityModules Json module']
    K, cap, ek = ctx.pick((1, 400, 1), (3, 6000, 2))
    consts = {'K': K, 'Cap': cap, 'EditK': ek}
    if 'A' in ctx.stages:
        cfg = kit.write_cfg('TlvModelC08_%s.cfg' % ctx.tier, constants=consts, invariants=LAWS, properties=PROPS, raw=SUBST)
        r = tlc.run('TlvModelC08', cfg, workers=ctx.pick(4, 16), coverage=False)
        ctx.add_tlc('TlvModelC08 laws K=%d Cap=%d EditK=%d' % (K, cap, ek), r)
        if r.violated:
            ctx.violation('C08/spec/%s' % r.violated, 'TLC: law %s violated on the reference' % r.violated, {'trace': r.errtrace})
        wc = {'K': 1, 'Cap': 60, 'EditK': 0}
        cfgc = kit.write_cfg('TlvModelC08_cov.cfg', constants=wc, invariants=LAWS, raw=SUBST)
        rc = tlc.run('TlvModelC08', cfgc, workers=2, coverage=True)
        for a in ACTIONS_A:
            if rc.coverage.get(a, (0, 0))[1] == 0:
                raise tlc.MachineryError('vacuous: action %s never taken in TlvModelC08' % a)
        kit.check_witnesses('TlvModelC08', WITNESSES, {'K': 1, 'Cap': 200, 'EditK': 0}, raw=SUBST)
    if 'B' in ctx.stages:
        cfg = kit.write_cfg('TlvModelVec_%s.cfg' % ctx.tier, constants=consts, init='Init', next_='Next')
        NFAM = 15

        def emit(f):
            out = kit.scratch('c08-vec-%s-%d.json' % (ctx.tier, f))
            r = kit.tlc_eval('TlvModelVec', cfg, {'VEC_OUT': out, 'VEC_F': f}, heap='4g')
            if '<<"FAMILY", %d>>' % NFAM not in r.out:
                raise tlc.MachineryError('TlvModelVec: the family does not have %d classes' % NFAM)
            with open(out) as fh:
                return r.wall, json.load(fh)[0], out
        from concurrent.futures import ThreadPoolExecutor
        import time as _t
        t0 = _t.time()
        if ctx.quick:                       # one JVM is cheaper than 14 for the small quick domains
            out = kit.scratch('c08-vec-quick.json')
            r = kit.tlc_eval('TlvModelVec', cfg, {'VEC_OUT': out, 'VEC_F': 0}, heap='4g')
            with open(out) as fh:
                fam = json.load(fh)
            res = [(r.wall, None, out)]
        else:
            with ThreadPoolExecutor(8) as ex:
                res = list(ex.map(emit, range(1, NFAM + 1)))
            fam = [x[1] for x in res]
        if len(fam) != NFAM:
            raise tlc.MachineryError('TlvModelVec emitted %d classes' % len(fam))
        ctx.tlc_runs.append({'cfg': 'TlvModelVec (vector emission, %d classes in parallel)' % NFAM, 'distinct': 0, 'generated': 0,
                             'depth': 0, 'wall_s': round(_t.time() - t0, 1)})
        with open(res[0][2] + '.num') as f:
            selfcheck_strict(json.load(f))
        nv = ne = nl = 0
        for fm in fam:
            decl, schema = fm['decl'], fm['schema']
            cls = kit.build_decl(decl)
            got = kit.introspect(cls)
            if [(d['name'], d['t'], d['kind']) for d in got] != [(d['name'], d['t'], d['kind']) for d in schema]:
                ctx.violation('C08/collect/%s' % decl['cname'], 'metaclass field order %s differs from Collect %s' % (
                    [d['name'] for d in got], [d['name'] for d in schema]), {'kind': 'collect', 'decl': decl})
                continue      # the class does not have the declared fields: its vectors cannot be aligned
            for vec in fm['vecs']:
                obs, bad = compare_vec(ctx, decl['cname'], schema, cls, vec, decl)
                nv += 1
                ne += len(vec['edits'])
                nl += len(vec.get('lives', []))
                ctx.evaluations += 1 + len(vec['edits']) + len(vec.get('lives', []))
                if vec['size'] >= 253 or vec['edits'] or any(d['kind'] in ('model', 'repeated', 'map') for d in schema) \
                        or features(schema, vec['v']) != 'plain':
                    ctx.nt(['B', decl['cname'], vec['v']])
                if nv % 997 == 0:
                    ctx.sample({'kind': 'B-vector', 'class': decl['cname'], 'v': vec['v'], 'alen': vec['alen'],
                                'edits': len(vec['edits'])}, limit=3)
        ctx.traces += nv
        ctx.note('B: %d classes, %d assignments, %d edits, %d in-place changes of live instances executed on the real classes' % (len(fam), nv, ne, nl))
    if 'C' in ctx.stages:
        gen = Gen(ctx.rng)
        recs = []
        nrand, per, nship = ctx.pick((40, 10, 8), (500, 40, 150))
        # the life of the instance (TlvModelLife): quick = every third record lives on for 3 changes, thorough = every
        # second record for 4
        every, nsteps = ctx.pick((3, 3), (2, 4))

        def nlife():
            return nsteps if len(recs) % every == 0 else 0
        for _ in range(nrand):
            decl = gen.decl()
            cls = kit.build_decl(decl)
            schema = kit.introspect(cls)
            if len({d['name'] for d in schema}) != len(schema):
                ctx.violation('C08/collect/duplicate-field', 'metaclass collected two fields of the same name: %s' % [d['name'] for d in schema],
                              {'kind': 'collect', 'decl': decl})
                continue
            for _ in range(per):
                recs.append(record_for(gen, len(recs) + 1, 'random', cls, schema, decl, 3, nlife=nlife()))
        ships = shipped_classes()
        for cname, cls, schema in ships:
            if len({d['name'] for d in schema}) != len(schema):
                ctx.violation('C08/collect/duplicate-field', '%s: metaclass collected two fields of the same name: %s' % (
                    cname, [d['name'] for d in schema]), {'kind': 'collect', 'cname': cname})
                continue
            ev = enum_values(cls)
            for _ in range(nship):
                recs.append(record_for(gen, len(recs) + 1, cname, cls, schema, None, 3, ev, nlife=nlife()))
        ctx.note('C: %d random classes x %d values, %d shipped classes x %d values' % (nrand, per, len(ships), nship))
        lsteps = [x for r in recs for x in r['life']]
        ctx.note('C life: %d instances lived on for %d in-place changes (%s), each followed by sizing and / or encoding' % (
            sum(1 for r in recs if r['life']), len(lsteps),
            ', '.join('%s=%d' % (k, sum(1 for x in lsteps if life_where(x['m']) == k)) for k in sorted({life_where(x['m']) for x in lsteps}))))
        ctx.evaluations += len(lsteps)
        verdicts = judge(ctx, recs, 'c08-judge-%s' % ctx.tier)
        report_c(ctx, recs, verdicts)
        ctx.traces += len(recs)
        ctx.evaluations += len(recs) + sum(len(r['edits']) for r in recs)
        for r in recs:
            ctx.nt(['C', r['cname'], r['v']])
        ctx.sample({'kind': 'C-record', 'class': recs[-1]['cname'], 'v': recs[-1]['v'], 'alen': recs[-1]['alen'],
                    'edits': [(e['kind'], e['got']) for e in recs[-1]['edits']]})
        ctx.extra['shipped_classes'] = [c for c, _, _ in ships]


def replay(ctx, path):
    with open(path) as f:
        obj = json.load(f)
    if obj.get('kind') == 'vec':
        cls = kit.build_decl(obj['decl']) if obj.get('decl') else kit.build_schema_class(obj['schema'])
        obs = observe(obj['schema'], cls, obj['v'], obj.get('edits', []))
        print(json.dumps({k: obs[k] for k in ('alen', 'wlen', 'enc', 'proj', 'eq')}), [(e['kind'], e['expect'], o['got']) for e, o in zip(obj.get('edits', []), obs['edits'])])
        life = live_on(obj['schema'], obs['_inst'], [(x['m'], True, True) for x in obj.get('lives', [])])
        for x in life:
            print('life: %s path %s field %d -> announced %d, encoded %d %s' % (x['m']['op'], x['m']['path'], x['m']['i'], x['alen'], x['wlen'], x['enc'] or x['proj']))
        rec = dict(id=1, cname=obj['cname'], schema=obj['schema'], decl={'cname': '', 'entries': []}, v=obj['v'], alen=obs['alen'], wlen=obs['wlen'],
                   tree=obs['tree'], back=obs['back'], eq=obs['eq'], life=life,
                   edits=[{k: o[k] for k in ('path', 'op', 'pos', 'src', 'elem', 'kind', 'got', 'gv')} for o in obs['edits']])
    elif obj.get('kind') == 'record':
        rec = dict(obj['rec'], id=1)
        ships = {c: (k, s) for c, k, s in shipped_classes()}
        if rec['cname'] in ships:
            cls = ships[rec['cname']][0]
        else:
            cls = kit.build_decl(rec['decl']) if rec['decl']['entries'] else kit.build_schema_class(rec['schema'])
        obs = observe(rec['schema'], cls, rec['v'], rec['edits'])
        rec['life'] = live_on(rec['schema'], obs['_inst'], [(x['m'], x['sized'] or bool(x['enc']), x['encoded'] or bool(x['enc']))
                                                            for x in rec.get('life', [])])
        for x in rec['life']:
            print('life: %s path %s field %d -> announced %d, encoded %d %s' % (x['m']['op'], x['m']['path'], x['m']['i'], x['alen'], x['wlen'], x['enc'] or x['proj']))
        rec.update(alen=obs['alen'], wlen=obs['wlen'], tree=obs['tree'], back=obs['back'], eq=obs['eq'],
                   edits=[{k: o[k] for k in ('path', 'op', 'pos', 'src', 'elem', 'kind', 'got', 'gv')} for o in obs['edits']])
        print(json.dumps({k: obs[k] for k in ('alen', 'wlen', 'enc', 'proj', 'eq')}), [(o['kind'], o['got']) for o in obs['edits']])
    else:
        print(json.dumps(obj, indent=1)[:3000])
        return 0
    rec = {k: v for k, v in rec.items() if k in ('id', 'cname', 'schema', 'decl', 'v', 'alen', 'wlen', 'tree', 'back', 'eq', 'edits', 'views', 'life')}
    rec.setdefault('views', [])
    rec.setdefault('life', [])
    verdicts = judge(ctx, [rec], 'c08-replay')
    print('judge:', verdicts.get(1, 'conforms'))
    return 1 if verdicts else 0
