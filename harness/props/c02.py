"""C02 - signatures and parameter digests cover the specified bytes; tampering is detected.
Spec: NdnPackets.tla (SignedRange, DigestRange, Regions, Edits; laws LawRanges/LawDigestOp/LawRegions/LawEdits).

A  TLC checks on every configuration of NdnPacketsCfg!CfgSpace that the ranges are the NDN-specified
   ones and properly nested, that the implementation's marker arithmetic (pass-one offsets corrected
   by the shrink) yields the declarative digest range, that the regions partition the wire and that a
   change inside a covered range is classified must-reject (regions and TLV-level edits).
B  for every signed / digest-carrying configuration TLC enumerates: a recording signer captures the
   bytes handed to write_signature_value - they must equal the bytes of the spec's SignedRange in the
   final wire; parse_* must report the same bytes (signature_covered_part), the spec's DigestRange
   (digest_covered_part) and the value buffers; the digest component must equal hashlib.sha256 over
   the spec's DigestRange; the matching verifier (verify_*, *Checker, sha256_digest_checker) and
   PyCryptodome called directly on the spec's ranges must accept.  Then, on the small wires, EVERY byte
   offset is substituted (xor 0x01, xor 0x80, thorough: + a random value), EVERY truncation taken and
   every TLV-level edit of TLC's edit table applied; TLC's region / edit table gives the verdict class.
   The edit table includes the value-preserving re-encodings of the signature value (NdnPackets!SvOps: zero octets
   in front, DER long-form lengths / non-minimal INTEGERs, and - on the value classes "first octet zero" / "last
   octet zero", realised by re-signing varied content until the signer returns such a value - the value without
   that octet); each with all lengths and the parameters digest fixed up.
C  random larger configurations: observed ranges (offsets of the parser's memoryviews inside the
   wire) and random substitutions with their outcomes are recorded and judged by TLC (NdnPacketsTrace:
   RegionAt(cfg, pos) decides each); the re-encodings of the signature value are applied to every recorded packet
   (and to packets re-signed into each value class) and judged by TLC against the edit table (SvEditOk).
"""
import hashlib, json, os, re

from harness import tlc, tlaval, pktkit as pk, strict_tlv as st
from harness.tlc import MachineryError
from ndn.encoding import parse_interest, parse_data, SignatureType
from ndn.security.validator.known_key_validator import (verify_ecdsa, verify_rsa, verify_hmac, verify_ed25519,
                                                        EccChecker, RsaChecker, HmacChecker, Ed25519Checker)
from ndn.security.validator.digest_validator import sha256_digest_checker, params_sha256_checker
from Cryptodome.Hash import SHA256, HMAC
from Cryptodome.Signature import DSS, pkcs1_15, eddsa

INTEREST_ORDER = [7, 33, 18, 30, 10, 12, 34, 36, 44, 46]
UNK_NC = b'\xf0\x02\xab\xcd'      # unknown non-critical element (even type >= 32)
UNK_C = b'\xf1\x02\xab\xcd'       # unknown critical element


def signed(cfg):
    return cfg['sg']['kind'] != 'none'


def need_digest(cfg):
    return cfg['kind'] == 'interest' and (cfg['app'] >= 0 or signed(cfg))


def parse(cfg, wire):
    return parse_interest(wire) if cfg['kind'] == 'interest' else parse_data(wire)


run_sync = pk.run_sync
Verifier = pk.Verifier


def digest_recompute(wire):
    """'eq' / 'ne' if the wire is strictly parseable and has ApplicationParameters and exactly one digest
    component (does it equal SHA-256 over ApplicationParameters..end, computed with hashlib on the strict
    reader's offsets), else 'na'."""
    try:
        els = st.read_elements(wire)
        if len(els) != 1 or els[0][0] != 5:
            return 'na'
        kids = st.read_elements(wire, els[0][2], els[0][3])
        names = [k for k in kids if k[0] == 7]
        apps = [k for k in kids if k[0] == 0x24]
        if len(names) != 1 or not apps or kids[0][0] != 7:
            return 'na'
        # Only when every recognised element occurs once and in the order of the packet format: with a
        # recognised element out of order (e.g. a byte changed into the type of InterestSignatureValue in front
        # of ApplicationParameters) a decoder may legitimately ignore the later ones, and then "the bytes from
        # ApplicationParameters to the end" is not defined - the statement is not applied there.
        idx = [INTEREST_ORDER.index(k[0]) for k in kids if k[0] in INTEREST_ORDER]
        if any(a >= b for a, b in zip(idx, idx[1:])):
            return 'na'
        comps = st.read_elements(wire, names[0][2], names[0][3])
        pds = [c for c in comps if c[0] == pk.T_PD]
        if len(pds) != 1 or pds[0][3] - pds[0][2] != 32:
            return 'na'
        return 'eq' if hashlib.sha256(wire[apps[0][1]:els[0][3]]).digest() == wire[pds[0][2]:pds[0][3]] else 'ne'
    except st.TlvError:
        return 'na'


def outcome(cfg, ver, wire, full=False):
    """Feed a (possibly tampered) wire to parse_* and the checks. -> dict(parsed, sigacc[list], digacc, digeq)
    full: ask the *Checker class of the algorithm as well as verify_*."""
    try:
        name, _, _, sp = parse(cfg, wire)
    except Exception:  # noqa: any decoding error = not accepted
        return {'parsed': False, 'sigacc': [], 'digacc': 'na', 'digeq': 'na'}
    if ver is None or not ver.has:
        sigacc = []
    elif full:
        sigacc = [n for n, ok in ver.lib(name, sp) if ok]
    else:
        sigacc = ver.accepted(name, sp)
    digacc = digeq = 'na'
    if cfg['kind'] == 'interest':
        try:
            digacc = 'acc' if run_sync(params_sha256_checker(name, sp)) else 'rej'
        except Exception:  # noqa
            digacc = 'rej'
        digeq = digest_recompute(wire)
    return {'parsed': True, 'sigacc': sigacc, 'digacc': digacc, 'digeq': digeq}


def judge_outcome(ctx, cfg, o, sigv, digv, how, where, rep):
    who = '%s/%s' % (cfg['kind'], cfg['sg']['kind'])
    if sigv == 'reject' and o['sigacc']:
        ctx.violation('C02/%s/%s/%s/accepted-by-%s' % (who, how, where, o['sigacc'][0]),
                      'a packet differing from the signed one in %s (%s) is accepted by %s' % (where, how, o['sigacc']), rep)
    if digv == 'fail' and o['digacc'] == 'acc':
        ctx.violation('C02/%s/params-digest/%s/%s/accepted' % (cfg['kind'], how, where),
                      'params_sha256_checker accepts although %s (%s) changed bytes the digest covers' % (where, how), rep)
    if o['digacc'] != 'na' and o['digeq'] != 'na' and (o['digacc'] == 'acc') != (o['digeq'] == 'eq'):
        ctx.violation('C02/%s/params-digest/iff/%s/%s/checker-%s-recomputed-%s' % (cfg['kind'], how, where, o['digacc'], o['digeq']),
                      'params_sha256_checker says %s but the digest component is %s to SHA-256(ApplicationParameters..end)'
                      % (o['digacc'], o['digeq']), rep)


def check_ranges(ctx, cfg, exp, b, pool, rep):
    """Steps 1-6 of stage B. Returns (Verifier or None, ok)."""
    wire = b.wire
    kind = cfg['kind']
    fn = 'make_interest' if kind == 'interest' else 'make_data'
    pfn = 'parse_interest' if kind == 'interest' else 'parse_data'
    ok = True

    def bad(sig, what):
        nonlocal ok
        ok = False
        ctx.violation(sig, what, rep)
    ba = bytearray(wire)
    try:
        name, _, _, sp = parse(cfg, ba)
    except Exception as e:  # noqa
        bad('C02/%s/exception/%s' % (pfn, type(e).__name__), 'parse of the emitted wire raised %r' % e)
        return None, False
    ver = None
    if signed(cfg):
        want = pk.slices(wire, exp['signed'])
        sv = exp['sv'][0]
        if b.rec.covered != want:
            bad('C02/%s/signed-range/signer-input' % fn,
                'bytes handed to the signer (%d) are not the NDN-specified signed portion of the final wire (%d bytes at %s)'
                % (len(b.rec.covered), len(want), exp['signed']))
        if b.rec.sig != wire[sv['lo']:sv['hi']]:
            bad('C02/%s/signature-value/position' % fn, 'the bytes the signer wrote are not at the SignatureValue of the final wire')
        got = b''.join(bytes(c) for c in (sp.signature_covered_part or []))
        if got != want:
            bad('C02/%s/signed-range/covered-part' % pfn,
                'signature_covered_part after parsing (%d bytes) is not the NDN-specified signed portion (%d bytes at %s)'
                % (len(got), len(want), exp['signed']))
        if sp.signature_value_buf is None or bytes(sp.signature_value_buf) != wire[sv['lo']:sv['hi']]:
            bad('C02/%s/signature-value/value-buf' % pfn, 'signature_value_buf is not the SignatureValue of the wire')
        ver = Verifier(cfg, b, pool)
        if ver.has:
            for n, acc in ver.lib(name, sp):
                if not acc:
                    bad('C02/%s/%s/verify/rejected-by-%s' % (kind, cfg['sg']['kind'], n),
                        'the matching verifier %s rejects the freshly signed packet' % n)
            if not ver.independent(want, wire[sv['lo']:sv['hi']]):
                bad('C02/%s/%s/verify/independent' % (kind, cfg['sg']['kind']),
                    'PyCryptodome on the spec\'s SignedRange and SignatureValue does not verify')
    if need_digest(cfg):
        g, dv = exp['digest'][0], exp['dv'][0]
        got = b''.join(bytes(c) for c in (sp.digest_covered_part or []))
        if got != wire[g['lo']:g['hi']]:
            bad('C02/parse_interest/digest-range/covered-part',
                'digest_covered_part (%d bytes) is not ApplicationParameters..end (%d bytes)' % (len(got), g['hi'] - g['lo']))
        if sp.digest_value_buf is None or bytes(sp.digest_value_buf) != wire[dv['lo']:dv['hi']]:
            bad('C02/parse_interest/digest-value/value-buf', 'digest_value_buf is not the digest component of the wire')
        if hashlib.sha256(wire[g['lo']:g['hi']]).digest() != wire[dv['lo']:dv['hi']]:
            bad('C02/make_interest/params-digest/value',
                'the digest component is not SHA-256 of ApplicationParameters..end of the final wire')
        if not run_sync(params_sha256_checker(name, sp)):
            bad('C02/interest/params-digest/checker-rejects-fresh', 'params_sha256_checker rejects the freshly made Interest')
    return ver, ok


def observed_ranges(cfg, wire):
    """Offsets (inside the wire) of the parser's memoryviews, as merged intervals."""
    ba = bytearray(wire)
    _, _, _, sp = parse(cfg, ba)

    def ivs(parts):
        out = []
        for p in parts or []:
            if len(p) == 0:
                continue
            o = pk.mv_offset(ba, p if isinstance(p, memoryview) else memoryview(p))
            if o is None:
                return None
            out.append((o, o + len(p)))
        return pk.merge_ivs(out)

    def one(p):
        if p is None:
            return None
        if len(p) == 0:
            return 'empty'
        o = pk.mv_offset(ba, p)
        return None if o is None else [{'lo': o, 'hi': o + len(p)}]
    return ivs(sp.signature_covered_part), ivs(sp.digest_covered_part), one(sp.signature_value_buf), one(sp.digest_value_buf)


# ---------------------------------------------------------------- tampering

def region_at(regions, pos):
    for r in regions:
        if r['lo'] <= pos < r['hi']:
            return r
    raise MachineryError('offset %d outside the region table' % pos)


def substitutions(ctx, cfg, exp, b, ver, positions, rep_base):
    wire = b.wire
    n = 0
    for pos in positions:
        r = region_at(exp['regions'], pos)
        subs = [wire[pos] ^ 0x01, wire[pos] ^ 0x80]
        if not ctx.quick:
            x = ctx.rng.randrange(256)
            if x != wire[pos] and x not in subs:
                subs.append(x)
        for v in subs:
            t = wire[:pos] + bytes([v]) + wire[pos + 1:]
            o = outcome(cfg, ver, t)
            n += 1
            judge_outcome(ctx, cfg, o, r['sig'], r['dig'], 'substitute', r['reg'],
                          dict(rep_base, edit={'op': 'substitute', 'pos': pos, 'value': v}, wire=wire.hex() if len(wire) < 3000 else None))
    return n


def truncations(ctx, cfg, b, ver, lengths, rep_base):
    wire = b.wire
    n = 0
    for k in lengths:
        o = outcome(cfg, ver, wire[:k])
        n += 1
        judge_outcome(ctx, cfg, o, 'reject' if signed(cfg) else 'na', 'fail' if need_digest(cfg) else 'na', 'truncate', 'prefix',
                      dict(rep_base, edit={'op': 'truncate', 'len': k}, wire=wire.hex() if len(wire) < 3000 else None))
    return n


def rebuild(t, parts):
    body = b''.join(parts)
    return st.write_var(t) + st.write_var(len(body)) + body


def apply_edit(wire, e):
    """Apply a TLV-level edit of TLC's edit table to the wire (re-encoded with exact outer lengths).
    Returns the new wire or None when the edit is not applicable (e.g. swapping two identical elements)."""
    outer = st.read_elements(wire)[0]
    kids = st.read_elements(wire, outer[2], outer[3])
    parts = [wire[k[1]:k[3]] for k in kids]
    i = e['i'] - 1
    if e['lvl'] == 'name':
        nm = kids[0]
        comps = [wire[c[1]:c[3]] for c in st.read_elements(wire, nm[2], nm[3])]
        if e['op'] == 'del':
            del comps[i]
        elif e['op'] == 'dup':
            comps.insert(i, comps[i])
        elif e['op'] in ('insd', 'insds'):
            # one more component of the ParametersSha256Digest type (a forger's edit: nothing else changes)
            val = hashlib.sha256(b'insd' + bytes([e['i']])).digest() if e['op'] == 'insd' else b'evil'
            comps.insert(i, bytes([pk.T_PD, len(val)]) + val)
        elif e['op'] == 'swap':
            if comps[i] == comps[i + 1]:
                return None
            comps[i], comps[i + 1] = comps[i + 1], comps[i]
        parts[0] = rebuild(7, comps)
        return rebuild(outer[0], parts)
    op = e['op']
    if op == 'del':
        del parts[i]
    elif op == 'dup':
        parts.insert(i, parts[i])
    elif op == 'swap':
        if parts[i] == parts[i + 1]:
            return None
        parts[i], parts[i + 1] = parts[i + 1], parts[i]
    elif op == 'lenp':
        k = kids[i]
        parts[i] = st.write_var(k[0]) + st.write_var(k[3] - k[2] + 1) + wire[k[2]:k[3]]
    elif op == 'ins':
        parts.insert(i, UNK_NC)
    elif op == 'insc':
        parts.insert(i, UNK_C)
    elif op == 'svneg':
        k = kids[i]
        value = ecdsa_twin(wire[k[2]:k[3]])
        if value is None:
            return None
        parts[i] = st.write_var(k[0]) + st.write_var(len(value)) + value
        out = rebuild(outer[0], parts)
        return fix_digest(out) if outer[0] == 5 else out
    elif op in ('svext1', 'svext4', 'svcut1'):
        # the forger's edit: only the signature VALUE changes; every length and the parameters digest are recomputed
        k = kids[i]
        value = wire[k[2]:k[3]]
        value = value[:-1] if op == 'svcut1' else value + (b'\x00' if op == 'svext1' else bytes([0x30, 0x02, 0xAB, 0x00]))
        parts[i] = st.write_var(k[0]) + st.write_var(len(value)) + value
        out = rebuild(outer[0], parts)
        return fix_digest(out) if outer[0] == 5 else out
    elif op in SV_REENC_OPS:
        k = kids[i]
        value = sv_reencode(wire[k[2]:k[3]], op)
        if value is None:
            return None
        parts[i] = st.write_var(k[0]) + st.write_var(len(value)) + value
        out = rebuild(outer[0], parts)
        return fix_digest(out) if outer[0] == 5 else out
    else:
        raise MachineryError('unknown edit %r' % op)
    return rebuild(outer[0], parts)


# ---- value-preserving re-encodings of the signature value (NdnPackets!SvPadOps, SvClassOps, SvDerOps)
SV_DER_OPS = ('svder-seql', 'svder-rl', 'svder-sl', 'svder-rz', 'svder-sz')
SV_REENC_OPS = ('svpad1', 'svpad3', 'svlzcut', 'svtzcut') + SV_DER_OPS
SV_RAW_KINDS = ('rsa', 'hmac', 'ed25519', 'digest', 'digestI')


def sv_classes(sig):
    """The value classes (NdnPackets: need) a genuine signature value belongs to."""
    out = set()
    if sig is not None and len(sig) >= 2:
        if sig[0] == 0:
            out.add('lz')
        if sig[-1] == 0:
            out.add('tz')
    return out


def _der_len(n, longer=False):
    """DER length octets; longer: the next longer (non-minimal) form"""
    if n < 128:
        return bytes([0x81, n]) if longer else bytes([n])
    if n < 256:
        return bytes([0x82, 0, n]) if longer else bytes([0x81, n])
    return bytes([0x83, 0, n >> 8, n & 255]) if longer else bytes([0x82, n >> 8, n & 255])


def _der_read(buf, pos, tag):
    """-> (value, end) of the minimal-DER element with this tag at pos; raises ValueError"""
    if pos + 2 > len(buf) or buf[pos] != tag:
        raise ValueError('tag')
    n = buf[pos + 1]
    pos += 2
    if n >= 128:
        k = n & 127
        if k not in (1, 2) or pos + k > len(buf):
            raise ValueError('length')
        n = int.from_bytes(buf[pos:pos + k], 'big')
        pos += k
        if _der_len(n) != bytes(buf[pos - k - 1:pos]):
            raise ValueError('non-minimal length')
    if pos + n > len(buf):
        raise ValueError('overrun')
    return bytes(buf[pos:pos + n]), pos + n


def der_rs(der):
    """(r, s) octets of a minimal-DER ECDSA signature value, None if it is not one"""
    try:
        body, end = _der_read(der, 0, 0x30)
        if end != len(der):
            return None
        r, p = _der_read(body, 0, 0x02)
        s_, p = _der_read(body, p, 0x02)
        return (r, s_) if p == len(body) and r and s_ else None
    except ValueError:
        return None


def sv_reencode(value, op):
    """The signature value after a value-preserving re-encoding; None when the edit is not defined on this value."""
    if op == 'svpad1':
        return b'\x00' + value
    if op == 'svpad3':
        return b'\x00\x00\x00' + value
    if op == 'svlzcut':
        return value[1:] if 'lz' in sv_classes(value) else None
    if op == 'svtzcut':
        return value[:-1] if 'tz' in sv_classes(value) else None
    rs = der_rs(value)
    if rs is None:
        return None
    r, s_ = rs

    def integer(v, longer=False):
        return b'\x02' + _der_len(len(v), longer) + v

    def seq(body, longer=False):
        return b'\x30' + _der_len(len(body), longer) + body
    if op == 'svder-seql':
        return seq(integer(r) + integer(s_), True)
    if op == 'svder-rl':
        return seq(integer(r, True) + integer(s_))
    if op == 'svder-sl':
        return seq(integer(r) + integer(s_, True))
    if op == 'svder-rz':
        return seq(integer(b'\x00' + r) + integer(s_))
    if op == 'svder-sz':
        return seq(integer(r) + integer(b'\x00' + s_))
    raise MachineryError('unknown signature-value re-encoding %r' % op)


def sv_class_budget(ctx):
    """How many of the exhaustively tampered configurations per (kind, signer) are also re-signed into the value
    classes of the edit table (each search costs about 256 signatures per class)."""
    if ctx.quick:
        # ECDSA (last octet zero AND the configuration's DER length: ~700 signatures of 2 ms) is left to stage C,
        # where any length will do; its DER re-encodings need no class and run on every tampered configuration
        return {'rsa': 1, 'ed25519': 1, 'ecdsa': 0, 'hmac': 2, 'digest': 2, 'digestI': 1}
    return {'rsa': 4, 'ed25519': 4, 'ecdsa': 3, 'hmac': 10, 'digest': 8, 'digestI': 4}


SV_SEARCH_CAP = 1800        # (255/256)^1800 = 0.09 %


def find_sv_classes(ctx, cfg, pool, needs, first=None, same_layout=None, build_kw=None):
    """Re-sign varied content (a fresh pk.build of the same abstract configuration: new name / payload / key locator
    octets, for ECDSA also a new nonce) until the signer has returned a signature value of each wanted class.
    -> {class: Built}; a class that was not met within the cap is missing (counted in the evidence, not an error).
    All packets of one search are signed with one signer object.  The search draws from its own generator, seeded
    from ctx.rng, so that the number of attempts (which depends on the system randomness of ECDSA) does not shift
    the run's random stream."""
    import random
    srng = random.Random(ctx.rng.getrandbits(64))
    needs = set(needs)
    build_kw = dict(build_kw or {})
    own_signer = build_kw.get('live') is None and signed(cfg)
    if own_signer:
        # one signer object for the whole search (constructing an RSA signer costs more than a hundred signatures)
        kl = pk.name_bytes(cfg['sg']['kl'], srng) if cfg['sg']['haskl'] else None
        build_kw['live'] = (pk.make_inner(cfg['sg'], pool, kl), kl)
    found = {}
    if first is not None and first.rec is not None:
        for c in sv_classes(first.rec.sig) & needs:
            found[c] = first
    seen = set()
    stale = n = 0
    rekey = own_signer and cfg['sg']['haskl'] and hasattr(build_kw['live'][0], 'key_locator_name')
    while len(found) < len(needs) and n < SV_SEARCH_CAP and stale < 120:
        if rekey:
            # the key locator name is part of the signed portion: vary it too (the signers' public attribute)
            kl = pk.name_bytes(cfg['sg']['kl'], srng)
            build_kw['live'][0].key_locator_name = kl
            build_kw['live'] = (build_kw['live'][0], kl)
        b = pk.build(cfg, srng, pool, **build_kw)
        n += 1
        sig = None if (b.exc is not None or b.rec is None) else b.rec.sig
        if sig is None or sig in seen:
            stale += 1          # nothing left to vary in this configuration
            continue
        stale = 0
        seen.add(sig)
        for c in (sv_classes(sig) & needs) - set(found):
            try:
                if same_layout is not None and pk.layout(b.wire) != same_layout:
                    continue
            except st.TlvError:
                continue
            found[c] = b
    x = ctx.extra
    x['sv_class_searches'] = x.get('sv_class_searches', 0) + len(needs)
    x['sv_class_found'] = x.get('sv_class_found', 0) + len(found)
    x['sv_class_signatures_made'] = x.get('sv_class_signatures_made', 0) + n
    return found


P256_N = 0xFFFFFFFF00000000FFFFFFFFFFFFFFFFBCE6FAADA7179E84F3B9CAC2FC632551


def ecdsa_twin(der):
    """(r, s) -> (r, n - s) for a P-256 DER signature (None if it is not one)"""
    from Cryptodome.Util.asn1 import DerSequence
    try:
        r, s_ = DerSequence().decode(der)[:]
    except Exception:  # noqa
        return None
    if not (0 < s_ < P256_N) or len(der) > 72:
        return None
    return DerSequence([r, P256_N - s_]).encode()


def fix_digest(wire):
    """Recompute the ParametersSha256Digest component of a well-formed Interest (hashlib over
    ApplicationParameters..end) and write it in place."""
    outer = st.read_elements(wire)[0]
    kids = st.read_elements(wire, outer[2], outer[3])
    apps = [k for k in kids if k[0] == 0x24]
    pds = [c for c in st.read_elements(wire, kids[0][2], kids[0][3]) if c[0] == pk.T_PD]
    if not apps or len(pds) != 1:
        return wire
    d = hashlib.sha256(wire[apps[0][1]:outer[3]]).digest()
    return wire[:pds[0][2]] + d + wire[pds[0][3]:]


def edits(ctx, cfg, exp, b, ver, rep_base, classes=None):
    """classes: {value class: (Built, Verifier)} - genuine packets of the same configuration whose signature value is
    of that class; an edit of the table that needs a class is applied to that packet (skipped when there is none)."""
    n = 0
    for e in sorted(exp['edits'], key=lambda x: (x['lvl'], x['op'], x['i'])):
        src, v = b, ver
        if e.get('need', 'any') != 'any':
            if not classes or e['need'] not in classes:
                continue
            src, v = classes[e['need']]
        t = apply_edit(src.wire, e)
        if t is None:
            if e['op'] in SV_REENC_OPS and v is not None and v.has and cfg['sg']['kind'] != 'syn':
                raise MachineryError('the re-encoding %s is not defined on the signature value of %s' % (e['op'], cfg['sg']))
            continue
        o = outcome(cfg, v, t, full=e['op'] in SV_REENC_OPS)
        n += 1
        if e['op'] in SV_REENC_OPS:
            ctx.nt(['B', cfg, 'edit', e['lvl'], e['op'], e['i']])
        if e['op'] == 'svneg':
            ctx.extra['ecdsa_twin_signatures'] = ctx.extra.get('ecdsa_twin_signatures', 0) + 1
            ctx.extra['ecdsa_twin_accepted'] = ctx.extra.get('ecdsa_twin_accepted', 0) + bool(o['sigacc'])
        judge_outcome(ctx, cfg, o, e['sig'], e['dig'], 'edit-%s-%s' % (e['lvl'], e['op']),
                      'signature-value' if e['op'].startswith('sv') else
                      'covered' if e['sig'] == 'reject' else ('digest-covered' if e['dig'] == 'fail' else 'uncovered'),
                      dict(rep_base, edit=e, wire=src.wire.hex()))
    return n


def tamper_budget(ctx):
    """How many small configurations per (kind, signer) get the exhaustive byte-level treatment."""
    if ctx.quick:
        return {'ecdsa': 2, 'ed25519': 2, 'rsa': 2, 'hmac': 6, 'digest': 4, 'digestI': 2, 'syn': 2, 'none': 4, 'null': 1}
    return {'ecdsa': 20, 'ed25519': 15, 'rsa': 10, 'hmac': 80, 'digest': 40, 'digestI': 10, 'syn': 15, 'none': 40, 'null': 3}


def run(ctx):
    ctx.rule = ('A: range/region/edit laws on every enumerated configuration; B: ranges, verifiers and exhaustive '
                'substitution/truncation/TLV edits on real wires with TLC\'s verdict table; C: random configurations, '
                'observed ranges and random substitutions judged by TLC. non-trivial = distinct (configuration, edit) '
                'pairs where the edit is a substitution in a named region, a truncation or a TLV-level edit, counted '
                'once per (configuration, region or edit)')
    ctx.assumptions = ['unforgeability of SHA-256 / HMAC / RSA / ECDSA / Ed25519 (PyCryptodome) is assumed, not explored',
                       'sha256_digest_checker is judged on packets whose SignatureType is DigestSha256 (it passes other types by design)',
                       'a verifier that raises has not accepted',
                       'ECDSA twin signatures (r, n-s) are outside the clause (no low-s rule in NDN); enumerated with verdict either, counted in evidence']
    scale = ctx.pick(1, 2)
    pool = pk.Pool(ctx.rng)
    if 'A' in ctx.stages:
        cfgp = os.path.join(tlc.BUILD, 'NdnPacketsMC_c02_%s.cfg' % ctx.tier)
        tlc.write_cfg(cfgp, constants={'Scale': scale}, invariants=['TypeOK', 'InvC02', 'InvRefused'])
        r = tlc.run('NdnPacketsMC', cfgp, workers=ctx.pick(4, int(os.environ.get('VERIF_WORKERS', '16'))))
        ctx.add_tlc('NdnPacketsMC (C02 laws) Scale=%d' % scale, r)
        if r.violated:
            ctx.violation('C02/spec/%s' % r.violated, 'TLC: %s violated in NdnPacketsMC' % r.violated, {'trace': r.errtrace})
        wp = os.path.join(tlc.BUILD, 'NdnPacketsWit_c02_%s.cfg' % ctx.tier)
        tlc.write_cfg(wp, spec=None, constants={'Scale': scale})
        rw = tlc.run('NdnPacketsWit', wp, workers=1, heavy=False)
        m = re.search(r'<<\s*"WITNESSES",\s*(\[.*?\])\s*>>', rw.out, re.S)
        wit = tlaval.parse(m.group(1)) if m else {}
        missing = [k for k in ('EitherRegion', 'EditEither', 'PdNotLast', 'EmptySig', 'OuterNarrows3to1', 'SvClassAll', 'SvDerAll') if wit.get(k) is not True]
        if missing:
            raise MachineryError('vacuous: situations not in the configuration space: %s' % missing)
        sign_hist_stage_a(ctx)
        check_hist_stage_a(ctx)
    if 'B' in ctx.stages:
        lines, r = pk.gen(ctx, scale, 'c02')
        budget = tamper_budget(ctx)
        cbudget = sv_class_budget(ctx)
        used = {}
        cused, ctried = {}, {}
        n_cfg = n_t = 0
        # small wires first so that the byte-level budget goes to them; deterministic order
        todo = [ln for ln in lines if not ln['exp']['refuse'] and (signed(ln['cfg']) or need_digest(ln['cfg']))]
        todo.sort(key=lambda ln: (ln['exp']['lay'][0]['len'] > 330, json.dumps(ln['cfg'], sort_keys=True)))
        ctx.rng.shuffle(todo)
        for ln in todo:
            cfg, exp = ln['cfg'], ln['exp']
            b = pk.build(cfg, ctx.rng, pool)
            rep = {'kind': 'cfg', 'cfg': cfg, 'seed': ctx.seed}
            try:
                same = b.exc is None and pk.layout(b.wire) == pk.exp_layout(exp)
            except st.TlvError:
                same = False
            if not same:
                if not getattr(ctx, '_c02_skip_noted', False):
                    ctx._c02_skip_noted = True
                    ctx.note('B: skipping configurations whose wire does not have the reference layout (C01 reports them)')
                continue
            ver, ok = check_ranges(ctx, cfg, exp, b, pool, rep)
            n_cfg += 1
            ctx.traces += 1
            ctx.evaluations += 1
            if not ok:
                continue
            size = len(b.wire)
            key = (cfg['kind'], cfg['sg']['kind'])
            if size <= 400 and used.get(key, 0) < budget.get(cfg['sg']['kind'], 0):
                used[key] = used.get(key, 0) + 1
                k = substitutions(ctx, cfg, exp, b, ver, range(size), rep)
                k += truncations(ctx, cfg, b, ver, range(size), rep)
                needs = {e['need'] for e in exp['edits'] if e.get('need', 'any') != 'any'}
                classes = {}
                cb = cbudget.get(cfg['sg']['kind'], 0)
                if needs and ver is not None and ver.has and cused.get(key, 0) < cb and ctried.get(key, 0) < 3 * cb:
                    # the budget counts configurations in which every class was met (one with little to vary -
                    # an empty payload, a one-octet name - may not have a signature of the class at all)
                    got = find_sv_classes(ctx, cfg, pool, needs, first=b, same_layout=pk.exp_layout(exp))
                    ctried[key] = ctried.get(key, 0) + 1
                    cused[key] = cused.get(key, 0) + (len(got) == len(needs))
                    for c, b2 in sorted(got.items()):
                        # the re-signed packet is a signed packet like any other: ranges, matching verifier accepts
                        v2, ok2 = (ver, True) if b2 is b else check_ranges(ctx, cfg, exp, b2, pool, rep)
                        if ok2:
                            classes[c] = (b2, v2)
                k += edits(ctx, cfg, exp, b, ver, rep, classes)
                n_t += k
                for rg in exp['regions']:
                    if rg['hi'] > rg['lo']:
                        ctx.nt(['B', cfg, 'substitute', rg['reg'], rg['lo']])
                for e in exp['edits']:
                    if e['op'] not in SV_REENC_OPS:
                        ctx.nt(['B', cfg, 'edit', e['lvl'], e['op'], e['i']])
                ctx.nt(['B', cfg, 'truncate'])
                ctx.sample({'kind': 'B-tampered-config', 'cfg': cfg, 'regions': exp['regions'], 'tampered_wires': k}, limit=2)
            elif size > 400 and (ctx.rng.random() < ctx.pick(0.1, 0.4)):
                # large wires: every TL byte region boundary, 24 random offsets, a few truncations
                pos = set()
                for rg in exp['regions']:
                    for p in (rg['lo'], rg['lo'] + 1, rg['hi'] - 1):
                        if rg['lo'] <= p < rg['hi']:
                            pos.add(p)
                pos |= {ctx.rng.randrange(size) for _ in range(24)}
                k = substitutions(ctx, cfg, exp, b, ver, sorted(pos), rep)
                k += truncations(ctx, cfg, b, ver, sorted({0, 1, 2, 3, size // 2, size - 1} | {ctx.rng.randrange(size) for _ in range(8)}), rep)
                n_t += k
                ctx.nt(['B', cfg, 'sampled-substitutions'])
        ctx.evaluations += n_t
        ctx.extra['tampered_wires_B'] = n_t
        ctx.note('B: %d signed/digest configurations range-checked, %d tampered wires judged (exhaustive on %s)' % (
            n_cfg, n_t, dict(('%s/%s' % k, v) for k, v in sorted(used.items()))))
        ctx.note('B: signature-value classes (first / last octet zero): every class met in %s configurations; %d of %d class searches '
                 'met a value of the class (%d signatures made, cap %d per search)' % (
                     dict(('%s/%s' % k, v) for k, v in sorted(cused.items())), ctx.extra.get('sv_class_found', 0),
                     ctx.extra.get('sv_class_searches', 0), ctx.extra.get('sv_class_signatures_made', 0), SV_SEARCH_CAP))
        for kd in sorted(k_ for k_, v_ in cbudget.items() if v_ > 0 and not any(k[1] == k_ for k in ctried)):
            raise MachineryError('no %s configuration was re-signed into the signature-value classes' % kd)
        sign_hist_stage_b(ctx, pool)
        check_hist_stage_b(ctx, pool)
    if 'C' in ctx.stages:
        recs = []
        n = ctx.pick(250, 4000)
        tries = 0
        while len(recs) < n and tries < n * 4:
            tries += 1
            cfg = pk.rand_cfg(ctx.rng, big=ctx.rng.random() < 0.15)
            if not (signed(cfg) or need_digest(cfg)):
                continue
            rec = record(ctx, cfg, pool)
            if rec is not None:
                recs.append(rec)
        ctx.sample({'kind': 'C-record', 'cfg': recs[0]['cfg'], 'signed': recs[0]['signed'], 'tampers': recs[0]['tampers'][:4]})
        recs += sv_class_stage_c(ctx, pool)
        rejected = pk.judge(ctx, 'NdnPacketsTrace', 'NdnPacketsTrace.cfg', recs, 'c02-traces')
        ctx.traces += len(recs)
        nt = sum(len(r['tampers']) + len(r.get('svedits', [])) for r in recs)
        ctx.evaluations += len(recs) + nt
        ctx.extra['tampered_wires_C'] = nt
        ctx.note('C: %d recorded packets (%d tampered wires) judged by TLC, %d rejected' % (len(recs), nt, len(rejected)))
        report_trace_rejections(ctx, recs, rejected)
        sign_hist_stage_c(ctx, pool)
        check_hist_stage_c(ctx, pool)


def report_trace_rejections(ctx, recs, rejected):
    names = {'5': 'signed-range', '6': 'signature-value-range', '7': 'digest-range', '8': 'digest-value-range',
             '9': 'tamper-verdict', '3': 'layout', '4': 'layout', '2': 'exception', '10': 'signature-value-reencoding-verdict'}
    for i, code in rejected:
        rec = recs[i]
        what = names.get(str(code).strip(), 'clause-%s' % code)
        if str(code).strip() == '10':
            acc = sorted(e['op'] for e in rec.get('svedits', []) if e['sigacc'])
            what += '/' + ('accepted-' + acc[0] if acc else 'params-digest')
        ctx.violation('C02/%s/%s/trace/%s' % (rec['cfg']['kind'], rec['cfg']['sg']['kind'], what),
                      'recorded packet rejected by NdnPacketsTrace (clause %s = %s): cfg %s' % (
                          code, names.get(str(code).strip()), json.dumps(rec['cfg'])[:500]),
                      {'kind': 'trace', 'rec': rec, 'code': code})


# ---------------------------------------------------------------- several verifier objects (NdnPacketsCheckHist)

CHECK_CLASSES = ['rsa', 'ecdsa', 'hmac', 'ed25519']


class CheckWorld:
    """Keys, names, genuine packets and verifier objects of one class for a history."""

    def __init__(self, cls, pool, rng, nkey, nname):
        from ndn.security import Sha256WithRsaSigner, Sha256WithEcdsaSigner, HmacSha256Signer, Ed25519Signer
        from ndn.encoding import make_data, make_interest, MetaInfo, InterestParam
        self.cls = cls
        keys = pool.more[cls]
        if nkey > len(keys):
            raise MachineryError('key pool has only %d %s keys' % (len(keys), cls))
        self.keys = keys[:nkey]
        # unrelated key names (no one is a prefix of another)
        self.names = [[b'\x08\x02k' + bytes([48 + i]), b'\x08\x03KEY', b'\x08\x04' + rng.randbytes(4)] for i in range(nname)]
        self.mk = {'rsa': lambda n, k: Sha256WithRsaSigner(n, k[0]), 'ecdsa': lambda n, k: Sha256WithEcdsaSigner(n, k[0]),
                   'hmac': lambda n, k: HmacSha256Signer(n, k), 'ed25519': lambda n, k: Ed25519Signer(n, k[0])}[cls]
        self.enc = (make_data, make_interest, MetaInfo, InterestParam)
        self.pkts = {}
        self.rng = rng

    def packet(self, pn, pk_, tam=False):
        """A packet signed with key pk_ whose KeyLocator lies under key name pn - the key name itself or the name of
        a certificate of that key (proper prefix). Names are fresh per history, so packets are made on demand and
        kept for the history: the tampered variant (one bit of the signed payload flipped, for an Interest the
        parameters digest recomputed) has the SAME signature value as the genuine one."""
        kind = self.rng.choice(['data', 'interest'])
        if (pn, pk_, kind) not in self.pkts:
            make_data, make_interest, MetaInfo, InterestParam = self.enc
            loc = self.names[pn - 1] + (self.rng.choice([[], [b'\x08\x04self', b'\x36\x01\x07']]))
            sg = self.mk(loc, self.keys[pk_ - 1])
            if kind == 'data':
                w = make_data([b'\x08\x01d', b'\x08\x02' + self.rng.randbytes(2)], MetaInfo(), b'PAYLOAD-' + self.rng.randbytes(5), signer=sg)
            else:
                w = make_interest([b'\x08\x01i'], InterestParam(), b'PAYLOAD-' + self.rng.randbytes(3), signer=sg)
            w = bytes(w)
            j = w.index(b'PAYLOAD-')
            t = w[:j] + bytes([w[j] ^ 0x01]) + w[j + 1:]
            self.pkts[(pn, pk_, kind)] = (w, fix_digest(t) if kind == 'interest' else t)
        g, t = self.pkts[(pn, pk_, kind)]
        return kind, (t if tam else g)

    def pub_bits(self, ki):
        k = self.keys[ki - 1]
        return k if self.cls == 'hmac' else bytes(k[1].export_key(format='DER'))

    def make(self, inst):
        """inst = {n, k, named} -> callable(name, sig_ptrs) -> bool"""
        if inst['named']:
            C = {'rsa': RsaChecker, 'ecdsa': EccChecker, 'hmac': HmacChecker, 'ed25519': Ed25519Checker}[self.cls]
            v = C.from_key(self.names[inst['n'] - 1], self.pub_bits(inst['k']))
            return lambda name, sp: bool(run_sync(v(name, sp)))
        f = {'rsa': verify_rsa, 'ecdsa': verify_ecdsa, 'hmac': verify_hmac, 'ed25519': verify_ed25519}[self.cls]
        key = self.keys[inst['k'] - 1]
        key = key if self.cls == 'hmac' else key[1]
        return lambda name, sp: bool(f(key, sp))

    def ask(self, v, pn, pk, tam=False):
        kind, wire = self.packet(pn, pk, tam)
        name, _, _, sp = parse_interest(wire) if kind == 'interest' else parse_data(wire)
        try:
            return v(name, sp)
        except Exception:  # noqa: a verifier that raises has not accepted
            return False


def run_check_history(ctx, cls, insts, checks, pool, nkey, nname):
    w = CheckWorld(cls, pool, ctx.rng, nkey, nname)
    vs = [w.make(i) for i in insts]
    ev = [{'a': 'Check', 'i': i, 'pn': pn, 'pk': pk, 'tam': bool(tam), 'acc': w.ask(vs[i - 1], pn, pk, bool(tam))} for (i, pn, pk, tam) in checks]
    return {'cls': cls, 'insts': insts, 'ev': ev}


def judge_check_histories(ctx, hists, stage):
    rej = pk.judge(ctx, 'NdnPacketsCheckHistTrace', 'NdnPacketsCheckHistTrace.cfg',
                   [{'insts': h['insts'], 'ev': h['ev']} for h in hists], 'c02-checkhist-' + stage)
    for i, at in rej:
        h = hists[i]
        k = int(str(at).strip() or 0)
        e = h['ev'][k - 1] if 0 < k <= len(h['ev']) else None
        inst = h['insts'][e['i'] - 1] if e else None
        right = e is not None and not e['tam'] and inst['k'] == e['pk'] and (not inst['named'] or inst['n'] == e['pn'])
        ctx.violation('C02/verifier-objects/%s/%s/%s' % (h['cls'], 'checker' if inst and inst['named'] else 'verify-function',
                                                        'rejects-packet-of-its-own-key' if right else
                                                        'accepts-tampered-packet' if e and e['tam'] else 'accepts-packet-of-another-key-or-name'),
                      'several %s verifier objects %s: check #%d %s answered %s; a verdict may depend only on that verifier\'s key/name and the packet; events %s'
                      % (h['cls'], h['insts'], k, e, e and e['acc'], h['ev']),
                      {'kind': 'check-history', 'cls': h['cls'], 'insts': h['insts'], 'checks': [[e_['i'], e_['pn'], e_['pk'], e_['tam']] for e_ in h['ev']],
                       'rejected_at': k})
    return rej


def check_hist_stage_a(ctx):
    cp = os.path.join(tlc.BUILD, 'NdnPacketsCheckHist.cfg')
    c = {'NKey': 2, 'NName': 2, 'NInst': 2, 'MaxChecks': ctx.pick(3, 4), 'DevNameCache': 'FALSE', 'DevVerdictCache': 'FALSE', 'Plain': 'TRUE'}
    tlc.write_cfg(cp, constants=c, invariants=['OwnKeyOnly'])
    r = tlc.run('NdnPacketsCheckHist', cp, workers=2, heavy=False)
    ctx.add_tlc('NdnPacketsCheckHist %s' % c, r)
    if r.violated:
        ctx.violation('C02/spec/NdnPacketsCheckHist/%s' % r.violated, 'TLC: %s violated' % r.violated, {'trace': r.errtrace[:2000]})
    for dev in ('DevNameCache', 'DevVerdictCache'):
        tlc.write_cfg(cp, constants=dict(c, MaxChecks=2, Plain='FALSE', **{dev: 'TRUE'}), invariants=['OwnKeyOnly'])
        if tlc.run('NdnPacketsCheckHist', cp, workers=1, heavy=False).violated != 'OwnKeyOnly':
            raise MachineryError('OwnKeyOnly does not refute the deviation %s' % dev)
    # vacuity: the exhaustive run must have visited every (verifier pair, check sequence)
    if r.ok and r.distinct < 16 * sum(8 ** j for j in range(c['MaxChecks'] + 1)):
        raise MachineryError('NdnPacketsCheckHist visited only %d states' % r.distinct)


def check_hist_stage_b(ctx, pool):
    from harness import graph
    cp = os.path.join(tlc.BUILD, 'NdnPacketsCheckHist_g.cfg')
    m = ctx.pick(2, 3)
    tlc.write_cfg(cp, constants={'NKey': 2, 'NName': 2, 'NInst': 2, 'MaxChecks': m, 'DevNameCache': 'FALSE', 'DevVerdictCache': 'FALSE',
                                 'Plain': ctx.pick('FALSE', 'TRUE')}, invariants=['OwnKeyOnly'])
    g = graph.dump('NdnPacketsCheckHist', cp, workers=2)
    ctx.add_tlc('NdnPacketsCheckHist graph MaxChecks=%d (%d edges)' % (m, g.n_edges), g.tlc)
    paths = graph.edge_cover_paths(g, max_len=m)
    hists = []
    for k, (init, path) in enumerate(paths):
        insts = [dict(n=i['n'], k=i['k'], named=bool(i['named'])) for i in tlaval_seq(g.state[init]['insts'])]
        checks = [tuple(args) for a, args, _ in path]
        want = [bool(e['acc']) for e in tlaval_seq(g.state[path[-1][2]]['log'])]
        # one verifier class per path (round robin); every class sees every pattern many times
        for cls in [CHECK_CLASSES[k % 4]]:
            h = run_check_history(ctx, cls, insts, checks, pool, 2, 2)
            got = [e['acc'] for e in h['ev']]
            if got != want:
                j = next(x for x in range(len(got)) if got[x] != want[x])
                e = h['ev'][j]
                ctx.violation('C02/verifier-objects/%s/replay/%s' % (cls, 'rejects-packet-of-its-own-key' if want[j] else
                                                                     'accepts-tampered-packet' if e['tam'] else 'accepts-packet-of-another-key-or-name'),
                              'verifier objects %s asked %s answered %s, TLC state says %s' % (insts, checks, got, want),
                              {'kind': 'check-history', 'cls': cls, 'insts': insts, 'checks': [list(c) for c in checks]})
            hists.append(h)
            ctx.traces += 1
            ctx.evaluations += len(checks)
            if len(checks) >= 2:
                ctx.nt(['B-verifiers', cls, insts, checks])
    rej = judge_check_histories(ctx, hists, 'B')
    ctx.note('B: %d cover paths of the verifier-object graph (%d states, %d edges): %d histories on real checkers, %d rejected' % (
        len(paths), len(g.state), g.n_edges, len(hists), len(rej)))


def tlaval_seq(v):
    from harness.tlaval import seq
    return list(seq(v))


def check_hist_stage_c(ctx, pool):
    hists = []
    for k in range(ctx.pick(40, 1200)):
        cls = CHECK_CLASSES[k % 4]
        nkey = min(ctx.rng.randint(2, 3), len(pool.more[cls]))
        nname = ctx.rng.randint(1, 3)
        insts = [{'n': ctx.rng.randint(1, nname), 'k': ctx.rng.randint(1, nkey), 'named': ctx.rng.random() < 0.75}
                 for _ in range(ctx.rng.randint(2, 4))]
        checks = []
        for _ in range(ctx.rng.randint(4, ctx.pick(8, 14))):
            i = ctx.rng.randint(1, len(insts))
            if ctx.rng.random() < 0.35:     # the verifier's own packet: genuine or tampered (several times)
                checks.append((i, insts[i - 1]['n'], insts[i - 1]['k'], ctx.rng.random() < 0.5))
            else:
                checks.append((i, ctx.rng.randint(1, nname), ctx.rng.randint(1, nkey), False))
        hists.append(run_check_history(ctx, cls, insts, checks, pool, nkey, nname))
        ctx.traces += 1
        ctx.evaluations += len(checks)
        ctx.nt(['C-verifiers', cls, insts, checks])
    rej = judge_check_histories(ctx, hists, 'C')
    ctx.note('C: %d random histories over several verifier objects judged by TLC, %d rejected' % (len(hists), len(rej)))


# ---------------------------------------------------------------- signer-reuse histories (NdnPacketsSignHist)

REUSE_KINDS = ['digest', 'hmac', 'ecdsa', 'rsa', 'ed25519', 'digestI']


def reuse_sg(kind, rng):
    sg = dict(pk.NO_SG, kind=kind, st=True)
    sg['r'] = sg['a'] = {'digest': 32, 'digestI': 32, 'hmac': 32, 'rsa': 256, 'ed25519': 64, 'ecdsa': 72}[kind]
    if kind == 'ecdsa':
        sg['a'] = -1
    if kind in ('hmac', 'rsa', 'ed25519', 'ecdsa'):
        sg['haskl'] = True
        sg['kl'] = [{'t': 8, 'l': 2}, {'t': 8, 'l': 3}, {'t': 8, 'l': 4}]
    if kind == 'digestI':
        sg['time'] = 8
        sg['nonce'] = 8
    return sg


def run_sign_history(ctx, kind, kinds, pool, big=False):
    """Sign the packets `kinds` (a sequence of 'data' / 'interest') with ONE signer object of class `kind`.
    Every packet gets the full stage-C treatment. Returns (history record, packet records)."""
    sg0 = reuse_sg(kind, ctx.rng)
    kl = pk.name_bytes(sg0['kl'], ctx.rng) if sg0['haskl'] else None
    inner = pk.make_inner(sg0, pool, kl)
    ev, recs, hold = [], [], []
    for k in kinds:
        if kind == 'digestI' and k != 'interest':
            k = 'interest'
        cfg = pk.rand_cfg(ctx.rng, k, maxc=4, big=big)
        cfg['sg'] = json.loads(json.dumps(sg0))
        cfg['name'] = [c for c in cfg['name'] if not (c['t'] == pk.T_PD and c['l'] != 32)]   # wrong-length placeholders are C01's
        if k == 'interest':
            cfg['name'] = [c for c in cfg['name'] if c['t'] != pk.T_PD] if ctx.rng.random() < 0.7 else cfg['name']
        rec = record(ctx, cfg, pool, live=(inner, kl), ntamper=4, hold=hold)
        own = bool(rec and not rec['refused'] and rec.get('own'))
        ev.append({'a': 'Sign', 'kind': k, 'own': own})
        if rec and not rec['refused']:
            recs.append(rec)
    same = []
    for h in hold:
        ok = True
        if h is not None:
            sp = h['sp']
            ok = bytes(h['raw']) == h['wire'] and b''.join(bytes(c) for c in (sp.signature_covered_part or [])) == h['cov'] \
                and (None if sp.signature_value_buf is None else bytes(sp.signature_value_buf)) == h['sv']
            if ok and h['ver'] is not None and h['ver'].has:
                ok = bool(h['ver'].accepted(h['name'], sp))
            if not ok:
                ctx.violation('C02/signer-reuse/%s/%s/held-packet-changed' % (kind, h['cfg']['kind']),
                              'a packet made earlier with this signer (returned buffer and SignaturePtrs kept by the caller) no longer '
                              'reads or verifies as it did after later packets were made', {'kind': 'sign-history', 'signer': kind, 'kinds': list(kinds)})
        same.append(ok)
    ev.append({'a': 'Recheck', 'same': same})
    return {'signer': kind, 'ev': ev}, recs


def judge_sign_histories(ctx, hists, recs, stage):
    rej = pk.judge(ctx, 'NdnPacketsSignHistTrace', 'NdnPacketsSignHistTrace.cfg', [{'ev': h['ev']} for h in hists], 'c02-signhist-' + stage)
    for i, at in rej:
        h = hists[i]
        k = int(str(at).strip() or 0)
        e = h['ev'][k - 1] if 0 < k <= len(h['ev']) else {'kind': 'end'}
        if e.get('a') == 'Recheck':
            continue        # reported by run_sign_history as held-packet-changed
        ctx.violation('C02/signer-reuse/%s/%s/packet-%s/signature-not-over-own-signed-portion' % (
            h['signer'], e['kind'], 'first' if k == 1 else 'later'),
            'packet #%d signed with one %s signer object is not verifiable over its own signed portion; events %s' % (k, h['signer'], h['ev']),
            {'kind': 'sign-history', 'signer': h['signer'], 'kinds': [e_['kind'] for e_ in h['ev'] if e_['a'] == 'Sign'], 'rejected_at': k})
    rejected = pk.judge(ctx, 'NdnPacketsTrace', 'NdnPacketsTrace.cfg', recs, 'c02-signhist-pk-' + stage)
    report_trace_rejections(ctx, recs, rejected)
    return rej


def sign_hist_stage_a(ctx):
    cp = os.path.join(tlc.BUILD, 'NdnPacketsSignHist.cfg')
    tlc.write_cfg(cp, constants={'MaxPk': ctx.pick(4, 6), 'DevAccum': 'FALSE'}, invariants=['OwnPortionOnly'])
    r = tlc.run('NdnPacketsSignHist', cp, workers=1, heavy=False)
    ctx.add_tlc('NdnPacketsSignHist', r)
    if r.violated:
        ctx.violation('C02/spec/NdnPacketsSignHist/%s' % r.violated, 'TLC: %s violated' % r.violated, {'trace': r.errtrace[:2000]})
    tlc.write_cfg(cp, constants={'MaxPk': 3, 'DevAccum': 'TRUE'}, invariants=['OwnPortionOnly'])
    if tlc.run('NdnPacketsSignHist', cp, workers=1, heavy=False).violated != 'OwnPortionOnly':
        raise MachineryError('OwnPortionOnly does not refute the accumulating-context deviation')
    if r.ok and r.distinct != 2 ** (ctx.pick(4, 6) + 1) - 1:
        raise MachineryError('NdnPacketsSignHist visited %d states' % r.distinct)


def sign_hist_stage_b(ctx, pool):
    from harness import graph
    cp = os.path.join(tlc.BUILD, 'NdnPacketsSignHist_g.cfg')
    m = ctx.pick(3, 4)
    tlc.write_cfg(cp, constants={'MaxPk': m, 'DevAccum': 'FALSE'}, invariants=['OwnPortionOnly'])
    g = graph.dump('NdnPacketsSignHist', cp, workers=1)
    ctx.add_tlc('NdnPacketsSignHist graph MaxPk=%d (%d edges)' % (m, g.n_edges), g.tlc)
    paths = graph.edge_cover_paths(g, max_len=m)
    hists, recs = [], []
    for init, path in paths:
        kinds = [args[0] for a, args, _ in path]
        for kind in REUSE_KINDS:
            h, rs = run_sign_history(ctx, kind, kinds, pool)
            hists.append(h)
            recs += rs
            ctx.traces += 1
            ctx.evaluations += len(rs)
            if len(kinds) >= 2:
                ctx.nt(['B-reuse', kind, kinds])
    rej = judge_sign_histories(ctx, hists, recs, 'B')
    ctx.note('B: %d cover paths of the signer-reuse graph x %d signer classes: %d histories, %d packets, %d rejected' % (
        len(paths), len(REUSE_KINDS), len(hists), len(recs), len(rej)))


def sign_hist_stage_c(ctx, pool):
    hists, recs = [], []
    for k in range(ctx.pick(18, 300)):
        kinds = [ctx.rng.choice(['data', 'interest']) for _ in range(ctx.rng.randint(3, ctx.pick(6, 12)))]
        h, rs = run_sign_history(ctx, REUSE_KINDS[k % len(REUSE_KINDS)], kinds, pool, big=ctx.rng.random() < 0.1)
        hists.append(h)
        recs += rs
        ctx.traces += 1
        ctx.evaluations += len(rs)
        ctx.nt(['C-reuse', h['signer'], kinds])
    rej = judge_sign_histories(ctx, hists, recs, 'C')
    ctx.note('C: %d random signer-reuse histories (%d packets) judged by TLC, %d rejected' % (len(hists), len(recs), len(rej)))


def sv_driver_ops(cfg, sig):
    """The re-encodings the stage-C driver applies to a packet with this genuine signature value: (op, need).
    (Which of them the table offers, and the verdict, is TLC's: NdnPacketsTrace!SvEditOk.)"""
    k = cfg['sg']['kind']
    ops = [('svpad1', 'any'), ('svpad3', 'any')]
    cl = sv_classes(sig)
    if k == 'ecdsa' and len(sig) >= 8:
        ops += [(op, 'any') for op in SV_DER_OPS]
        if 'tz' in cl:
            ops.append(('svtzcut', 'tz'))
    if k in SV_RAW_KINDS and len(sig) >= 2:
        ops += [(op, need) for op, need in (('svlzcut', 'lz'), ('svtzcut', 'tz')) if need in cl]
    return ops


def record(ctx, cfg, pool, live=None, ntamper=14, hold=None, want=None):
    """Stage C: build, observe the parser's ranges as offsets, tamper at random offsets, record outcomes.
    live: (signer object, key locator) of a signer that is being reused. The record gets rec['own'] = the fresh
    packet verifies (library verifier and PyCryptodome directly) over exactly its own signed portion.
    want: a value class ('lz' / 'tz'): the packet is re-signed (varied content) until its signature value is of that
    class; None is returned when the cap was reached."""
    if cfg['kind'] == 'interest' and any(c['t'] == pk.T_PD and c['l'] != 32 for c in cfg['name']):
        return None                      # a digest placeholder of a wrong length: C01's finding
    if want is not None:
        b = find_sv_classes(ctx, cfg, pool, {want}, build_kw={'target': False, 'live': live}).get(want)
        if b is None:
            return None
    else:
        b = pk.build(cfg, ctx.rng, pool, target=False, live=live)
    if b.rec is not None and b.rec.actual is not None and cfg['sg']['kind'] == 'ecdsa':
        cfg['sg']['a'] = b.rec.actual
    if cfg['sg']['a'] < 0:
        cfg['sg']['a'] = cfg['sg']['r']
    if b.exc is not None:
        return {'cfg': cfg, 'chk': [], 'refused': True, 'lay': [], 'signed': [], 'digest': [], 'sv': [], 'dv': [], 'tampers': []}
    try:
        lay = pk.layout(b.wire)
    except st.TlvError:
        return None                      # malformed output is C01's finding
    wire = b.wire
    try:
        sg, dg, sv, dv = observed_ranges(cfg, wire)
    except Exception:  # noqa
        return None
    if None in (sg, dg) or (signed(cfg) and sv is None) or (need_digest(cfg) and dv is None):
        raise MachineryError('could not locate the parser\'s views inside the wire')
    rep = {'kind': 'cfg', 'cfg': cfg, 'seed': ctx.seed}
    if signed(cfg) and b.rec.covered != pk.slices(wire, sg):
        ctx.violation('C02/%s/signed-range/signer-input-vs-parser' % ('make_interest' if cfg['kind'] == 'interest' else 'make_data'),
                      'bytes handed to the signer differ from the bytes the parser reports as covered', rep)
    if sv == 'empty' or not signed(cfg):
        end = len(wire)
        sv = [{'lo': end, 'hi': end}] if signed(cfg) else []
    rec = {'cfg': cfg, 'chk': ['lay', 'ranges', 'tampers'], 'refused': False, 'lay': pk.lay_json(lay),
           'signed': sg if signed(cfg) else [], 'digest': dg if need_digest(cfg) else [], 'sv': sv,
           'dv': dv if need_digest(cfg) else [], 'tampers': []}
    ver = Verifier(cfg, b, pool) if signed(cfg) else None
    if hold is not None:
        # the application keeps the returned buffer and the SignaturePtrs of its parse (views into that buffer)
        try:
            hname, _, _, hsp = parse(cfg, b.raw)
            hold.append({'cfg': cfg, 'raw': b.raw, 'wire': wire, 'name': hname, 'sp': hsp, 'ver': ver,
                         'cov': b''.join(bytes(c) for c in (hsp.signature_covered_part or [])),
                         'sv': None if hsp.signature_value_buf is None else bytes(hsp.signature_value_buf)})
        except Exception:  # noqa
            hold.append(None)
    rec['own'] = True
    if ver is not None and ver.has:
        who = '%s/%s' % (cfg['kind'], cfg['sg']['kind'])
        reuse = 'reused-signer' if live is not None else 'fresh-signer'
        fresh = outcome(cfg, ver, wire)
        own_ok = ver.independent(pk.slices(wire, sg), wire[sv[0]['lo']:sv[0]['hi']])
        if not own_ok:
            ctx.violation('C02/%s/verify/%s/signature-not-over-own-signed-portion' % (who, reuse),
                          'PyCryptodome does not verify the SignatureValue over the signed portion of this packet', rep)
        if not fresh['sigacc']:
            ctx.violation('C02/%s/verify/%s/rejected-by-matching-verifier' % (who, reuse),
                          'the matching verifier rejects the packet the signer has just produced', rep)
        rec['own'] = bool(own_ok and fresh['sigacc'] and b.rec.covered == pk.slices(wire, sg))
    size = len(wire)
    pos = {ctx.rng.randrange(size) for _ in range(6)} | {ctx.rng.randrange(min(size, 120)) for _ in range(5)} \
        | {size - 1 - ctx.rng.randrange(min(size, 80)) for _ in range(3)}
    pos = sorted(pos)[:ntamper] if ntamper < len(pos) else pos
    for p in sorted(pos):
        v = ctx.rng.choice([wire[p] ^ 0x01, wire[p] ^ 0x80, (wire[p] + ctx.rng.randrange(1, 256)) % 256])
        o = outcome(cfg, ver, wire[:p] + bytes([v]) + wire[p + 1:])
        rec['tampers'].append({'pos': p, 'sigacc': bool(o['sigacc']), 'digacc': o['digacc'], 'digeq': o['digeq']})
    if ver is not None and ver.has and b.rec is not None and b.rec.sig is not None and rec['own']:
        nk = len(pk.top_elements(wire))
        sve = []
        for op, need in sv_driver_ops(cfg, b.rec.sig):
            t = apply_edit(wire, {'lvl': 'top', 'op': op, 'i': nk})
            if t is None:
                raise MachineryError('the re-encoding %s is not defined on the signature value of %s' % (op, cfg['sg']))
            o = outcome(cfg, ver, t, full=True)
            sve.append({'op': op, 'need': need, 'sigacc': bool(o['sigacc']), 'digacc': o['digacc'], 'digeq': o['digeq']})
            if o['sigacc'] and len(wire) < 3000:
                rec['svwire'] = wire.hex()          # for the reader of a replay object; not judged
            ctx.nt(['C', cfg, op])
        if sve:
            rec['svedits'] = sve
            rec['chk'] = rec['chk'] + ['svedits']
    ctx.nt(['C', cfg])
    return rec


SV_CLASS_KINDS = ['rsa', 'hmac', 'ed25519', 'digest', 'digestI', 'ecdsa']


def sv_class_stage_c(ctx, pool):
    """Packets of random (small) configurations re-signed into each value class of the signature value, recorded
    like every stage-C packet (ranges, substitutions, re-encodings) and judged by TLC."""
    recs = []
    asked = 0
    for rep_ in range(ctx.pick(1, 6)):
        for kind in SV_CLASS_KINDS:
            k = 'interest' if kind == 'digestI' else ctx.rng.choice(['data', 'interest'])
            cfg = pk.rand_cfg(ctx.rng, k, maxc=4, big=False)
            cfg['sg'] = json.loads(json.dumps(reuse_sg(kind, ctx.rng)))
            cfg['name'] = [c for c in cfg['name'] if c['t'] != pk.T_PD]
            if k == 'interest':
                cfg['app'] = min(max(cfg['app'], 8), 300)      # something to vary
            else:
                cfg['content'] = min(max(cfg['content'], 8), 300)
            for want in (('tz',) if kind == 'ecdsa' else ('lz', 'tz')):
                asked += 1
                rec = record(ctx, json.loads(json.dumps(cfg)), pool, ntamper=4, want=want)
                if rec is not None and not rec['refused']:
                    if not any(e['need'] == want for e in rec.get('svedits', [])):
                        raise MachineryError('the %s packet re-signed into class %s carries no edit of that class' % (kind, want))
                    recs.append(rec)
    ctx.note('C: %d of %d packets re-signed into a signature-value class (first / last octet zero) recorded; judged by TLC '
             'with the other recorded packets' % (len(recs), asked))
    if not any(r['cfg']['sg']['kind'] == 'rsa' for r in recs):
        ctx.note('C: no RSA signature value of a class was met within the cap in this run')
    return recs


def replay(ctx, path):
    """Reproduce with the real code only: the stored wire (signatures are randomised, so the original bytes are
    kept), the stored edit, the run's key pool rebuilt from the stored seed."""
    import random
    with open(path) as f:
        obj = json.load(f)
    if obj.get('kind') == 'check-history':
        pool = pk.Pool(ctx.rng)
        obj['checks'] = [list(c) + [False] * (4 - len(c)) for c in obj['checks']]
        nk = max([i['k'] for i in obj['insts']] + [c[2] for c in obj['checks']])
        nn = max([i['n'] for i in obj['insts']] + [c[1] for c in obj['checks']])
        h = run_check_history(ctx, obj['cls'], obj['insts'], [tuple(c) for c in obj['checks']], pool, nk, nn)
        print('%s verifier objects %s ->' % (obj['cls'], obj['insts']))
        for e in h['ev']:
            print('  ', e)
        rej = judge_check_histories(ctx, [h], 'replay')
        for v in ctx.violations:
            print('reproduced:', v['sig'], '-', v['what'][:200])
        return 1 if ctx.violations else 0
    if obj.get('kind') == 'sign-history':
        pool = pk.Pool(ctx.rng)
        h, recs = run_sign_history(ctx, obj['signer'], obj['kinds'], pool)
        print('one %s signer object signs %s ->' % (obj['signer'], obj['kinds']), h['ev'])
        rej = judge_sign_histories(ctx, [h], recs, 'replay')
        for v in ctx.violations:
            print('reproduced:', v['sig'], '-', v['what'][:200])
        return 1 if ctx.violations else 0
    if obj.get('kind') == 'trace':
        rej = pk.judge(ctx, 'NdnPacketsTrace', 'NdnPacketsTrace.cfg', [obj['rec']], 'c02-replay')
        print('recorded packet:', 'rejected by TLC %s' % rej if rej else 'accepted by TLC')
        return 1 if rej else 0
    cfg = obj['cfg']
    print('cfg:', json.dumps(cfg))
    rng = random.Random(obj.get('seed', ctx.seed))
    pool = pk.Pool(rng)
    if obj.get('wire'):
        wire = bytes.fromhex(obj['wire'])
        b = pk.Built()
        b.wire = wire
        try:
            si = parse(cfg, wire)[3].signature_info
            b.kl = [bytes(c) for c in si.key_locator.name] if si is not None and si.key_locator is not None else None
        except Exception as e:  # noqa
            print('the stored wire does not parse:', repr(e))
            b.kl = None
    else:
        b = pk.build(cfg, rng, pool)
        if b.exc is not None:
            print('raised:', repr(b.exc))
            return 0
    print('wire:', b.wire[:300].hex())
    ver = Verifier(cfg, b, pool) if signed(cfg) else None
    print('untouched wire ->', outcome(cfg, ver, b.wire))
    e = obj.get('edit')
    if not e:
        return 0
    if e['op'] == 'substitute':
        t = b.wire[:e['pos']] + bytes([e['value']]) + b.wire[e['pos'] + 1:]
    elif e['op'] == 'truncate':
        t = b.wire[:e['len']]
    else:
        t = apply_edit(b.wire, e)
    o = outcome(cfg, ver, t)
    print('edit:', e, '\nedited wire:', t[:300].hex(), '\n->', o)
    return 1 if (o['sigacc'] or o['digacc'] == 'acc') else 0
