"""C19 - segmented fetch. Spec: SegFetch.tla / SegFetchTrace.tla.

A  TLC exhaustive on SegFetch (all objects <= MaxN segments, every discovery answer, every
   final marker, retry 1..MaxRetry, every loss/Nack/validation-failure pattern).
B  transition cover of that state graph replayed on the real segment_fetcher over the legacy
   NDNApp on the virtual loop; projection compared after every step.
C  random larger scenarios (more segments, more retries) recorded and judged by TLC (SegFetchTrace).
"""
import json, os

from harness import tlc, graph, core
from harness.appkit import Session, new_app, deliver, enc, ndn_types
from harness.tlaval import seq

PREFIX = '/obj/v1'
LIFETIME = 100


def variant(cfg):
    """Dimensions SegFetch abstracts from (the model's behaviour does not depend on them), varied deterministically
    with the configuration: which Data packets carry the FinalBlockId (the fetcher must read the marker of the segment it
    just received: a real producer usually marks only the last segment), one empty segment, arguments left to their
    defaults, the representation of the name argument."""
    h = cfg['n'] * 7 + cfg['disc'] * 3 + cfg['retry'] + (cfg['fin'] + 1) * 5 + (1 if cfg.get('deep') else 0)
    return {'mark': cfg.get('mark') or ('all', 'last', 'tail')[h % 3],                    # FinalBlockId on every Data / only on the final one / on the last two
            # the segment n-1 (or the whole object) has empty content: an empty Content element / no Content element at all
            'empty': ((h // 3) % 4 == 1) and ('empty', 'absent')[(h // 12) % 2],
            'default_retry': cfg['retry'] == 3 and (h // 2) % 2 == 0,     # retry_times omitted (default 3)
            'default_timeout': (h // 5) % 5 == 2,                        # timeout omitted (default 4000 ms)
            'name_repr': ('str', 'list', 'wire', 'iter', 'tuple', 'wirebuf')[(h // 7 + h) % 6]}


class Scenario:
    def __init__(self, cfg):
        self.cfg = cfg
        self.var = variant(cfg)
        self.lifetime = 4000 if self.var['default_timeout'] else LIFETIME
        self.sess = Session()
        self.sess.__enter__()
        self.app, self.face = new_app('legacy')
        self.yielded = []
        self.err = 'none'
        self.fin = False
        self.vfail_next = False
        self.seen = 0
        self.prefix = enc.Name.from_str(PREFIX)
        from ndn.app_support.segment_fetcher import segment_fetcher

        async def validator(name, sig):
            if self.vfail_next:
                self.vfail_next = False
                return False
            return True

        async def consume():
            try:
                async for c in segment_fetcher(self.app, self.name_arg(), validator=validator, **self.fetch_kw()):
                    self.yielded.append(self.decode_content(c))
            except ndn_types.InterestTimeout:
                self.err = 'timeout'
            except ndn_types.InterestNack:
                self.err = 'nack'
            except ndn_types.ValidationFailure:
                self.err = 'vfail'
            except BaseException as e:  # noqa
                self.err = 'error:' + type(e).__name__
            self.fin = True
        self.task = self.sess.spawn(consume())
        self.sess.loop.settle()

    def close(self):
        self.sess.__exit__(None, None, None)

    def fetch_kw(self):
        kw = {}
        if not self.var['default_timeout']:
            kw['timeout'] = LIFETIME
        if not self.var['default_retry']:
            kw['retry_times'] = self.cfg['retry']
        return kw

    def name_arg(self):
        r = self.var['name_repr']
        if r == 'list':
            return enc.Name.from_str(PREFIX)
        if r == 'wire':
            return enc.Name.to_bytes(PREFIX)
        if r == 'iter':
            return (c for c in enc.Name.from_str(PREFIX))          # a one-shot iterator: the fetcher needs the name for every request
        if r == 'tuple':
            return tuple(enc.Name.from_str(PREFIX))
        if r == 'wirebuf':
            return bytearray(enc.Name.to_bytes(PREFIX))
        return PREFIX

    def content_of(self, s):
        """content of segment s (-2: the unsegmented object)"""
        if self.var['empty'] and (s == -2 or s == self.cfg['n'] - 1):
            return b'' if self.var['empty'] == 'empty' else None
        return b'W' if s == -2 else b'S%d' % s

    def decode_content(self, c):
        b = bytes(c) if c is not None else b''
        if b == b'':
            return -2 if not self.cfg['seg'] else self.cfg['n'] - 1
        return -2 if b == b'W' else int(b[1:])

    # -- observation
    def new_interests(self):
        out = []
        while self.seen < len(self.face.out):
            w = self.face.out[self.seen]
            self.seen += 1
            name, param, _, _ = enc.parse_interest(w)
            if enc.Name.to_str(name) == enc.Name.to_str(self.prefix):
                t = -1
            elif enc.Name.to_str(name[:-1]) == enc.Name.to_str(self.base()) and \
                    enc.Component.get_type(name[-1]) == enc.Component.TYPE_SEGMENT:
                t = enc.Component.to_number(name[-1])
            else:
                t = -99        # an Interest for a name the object is not published under
            out.append({'t': t, 'cbp': bool(param.can_be_prefix), 'wire': w, 'life': param.lifetime})
        return out

    def base(self):
        """name under which the segments are published"""
        if self.cfg.get('deep'):
            return self.prefix + [enc.Component.from_version(7)]
        return self.prefix

    def post(self):
        return {'yielded': list(self.yielded), 'nsent': self.seen, 'err': self.err if self.err in
                ('none', 'timeout', 'nack', 'vfail') else self.err, 'fin': self.fin}

    # -- stimuli
    def data_for(self, target):
        cfg = self.cfg
        if target == -1:
            if not cfg['seg']:
                return enc.make_data(PREFIX, enc.MetaInfo(), self.content_of(-2))
            s = cfg['disc']
        else:
            s = target
        mi = enc.MetaInfo(freshness_period=1000)
        mark = self.var['mark']
        if cfg['fin'] >= 0 and (mark == 'all' or s == cfg['fin'] or (mark == 'tail' and s == cfg['fin'] - 1)):
            mi.final_block_id = enc.Component.from_segment(cfg['fin'])
        return enc.make_data(self.base() + [enc.Component.from_segment(s)], mi, self.content_of(s))

    def respond(self, act, last):
        if act == 'RespData':
            deliver(self.sess, self.face, self.data_for(last['t']))
        elif act == 'RespVFail':
            self.vfail_next = True
            deliver(self.sess, self.face, self.data_for(last['t']))
        elif act == 'RespNack':
            self.nacks = getattr(self, 'nacks', 0) + 1
            deliver(self.sess, self.face, enc.make_network_nack(last['wire'], (0, 50, 100, 150)[(self.nacks + last['t']) % 4]))
        elif act == 'RespLost':
            self.sess.loop.advance_to(self.sess.loop.time() + self.lifetime / 1000.0)
        elif act == 'RespDataLate':
            # the Data is handed over in the instant the lifetime runs out, before the loop has served the timer
            # - alternately in the same loop iteration as the timer handle (the packet's callback first) and an iteration earlier
            self.sess.loop.set_time(self.sess.loop.time() + self.lifetime / 1000.0)
            self.lates = getattr(self, 'lates', 0) + 1
            deliver(self.sess, self.face, self.data_for(last['t']), timers_now=(self.lates % 2 == 1))
            self.sess.loop.settle()
        else:
            raise ValueError(act)


class PairScenario(Scenario):
    """Two fetches of the same object running concurrently on ONE NDNApp (their Interests share PIT nodes and one
    Data answers both). Each fetch, looked at on its own, must still be a behaviour of SegFetch."""
    def __init__(self, cfg, k=2):
        self.k = k
        self.ys = [[] for _ in range(k)]
        self.errs = ['none'] * k
        self.fins = [False] * k
        super().__init__(cfg)
        from ndn.app_support.segment_fetcher import segment_fetcher

        async def validator(name, sig):
            return not self.vfail_all

        async def consume(i):
            try:
                async for c in segment_fetcher(self.app, self.name_arg(), validator=validator, **self.fetch_kw()):
                    self.ys[i].append(self.decode_content(c))
            except ndn_types.InterestTimeout:
                self.errs[i] = 'timeout'
            except ndn_types.InterestNack:
                self.errs[i] = 'nack'
            except ndn_types.ValidationFailure:
                self.errs[i] = 'vfail'
            except BaseException as e:  # noqa
                self.errs[i] = 'error:' + type(e).__name__
            self.fins[i] = True
        self.vfail_all = False
        self.task.cancel()                 # the single consumer started by the base class is not used
        self.sess.loop.settle()
        self.face.out.clear()
        self.seen = 0
        self.tasks = [self.sess.spawn(consume(i)) for i in range(k)]
        self.sess.loop.settle()

    def respond(self, act, last):
        self.vfail_all = (act == 'RespVFail')
        super().respond('RespData' if act == 'RespVFail' else act, last)
        self.vfail_all = False


def record_pair(cfg, chooser, max_rounds=200):
    """Returns (list of per-fetch event lists, problem or None)."""
    sc = PairScenario(cfg)
    evs = [[] for _ in range(sc.k)]
    nsent = [0] * sc.k
    problem = None
    try:
        def post(i):
            return {'yielded': list(sc.ys[i]), 'nsent': nsent[i], 'err': sc.errs[i], 'fin': sc.fins[i]}
        for _ in range(max_rounds):
            new = sc.new_interests()
            active = [i for i in range(sc.k) if not sc.fins[i]]
            if not active:
                break
            if len(new) != len(active) or len({(x['t'], x['cbp']) for x in new}) > 1:
                problem = 'concurrent fetches out of step: %d Interests %s for %d active fetches' % (
                    len(new), sorted({x['t'] for x in new}), len(active))
                break
            last = new[0]
            if last['t'] == -99:
                problem = 'Interest for a name the object is not published under'
                break
            for i in active:
                nsent[i] += 1
                evs[i].append({'a': 'Send', 't': last['t'], 'cbp': last['cbp'], 'post': post(i)})
            exists = (cfg['n'] > 0) if last['t'] == -1 else (last['t'] < cfg['n'])
            act = chooser(exists)
            sc.respond(act, last)
            for i in active:
                evs[i].append({'a': act, 'post': post(i)})
        if sc.sess.loop.errors and not problem:
            problem = 'background error %r' % (sc.sess.loop.errors[0].get('exception'),)
    finally:
        for t in getattr(sc, 'tasks', []):
            t.cancel()
        sc.close()
    return evs, problem


def record(cfg, chooser, max_events=400):
    """Run the real fetcher; chooser(target_exists, nth) -> response action. Returns event list."""
    sc = Scenario(cfg)
    ev = []
    try:
        last = None
        while len(ev) < max_events:
            new = sc.new_interests()
            for i in new:
                last = i
                ev.append({'a': 'Send', 't': i['t'], 'cbp': i['cbp'], 'post': sc.post()})
            if sc.fin:
                break
            if last is not None and last['t'] == -99:
                break      # an Interest for a name the object is not published under: the trace ends here (and is rejected)
            if last is None:
                break
            exists = (cfg['n'] > 0) if last['t'] == -1 else (last['t'] < cfg['n'])
            act = chooser(exists)
            sc.respond(act, last)
            ev.append({'a': act, 'post': sc.post()})
        bg = [str(c.get('exception') or c.get('message')) for c in sc.sess.loop.errors]
    finally:
        sc.close()
    return ev, bg


def replay_path(cfg, path):
    """path: [(act,args,dst_state)] from the TLC graph. Returns None or mismatch description."""
    sc = Scenario(cfg)
    try:
        last = None
        for k, (act, args, st) in enumerate(path):
            if act == 'Send':
                new = sc.new_interests()
                if len(new) != 1:
                    return 'step %d Send: %d new Interests on the face, expected 1' % (k, len(new))
                last = new[0]
                want = seq(st['sent'])[-1]
                if last['t'] != want['t'] or last['cbp'] != want['cbp']:
                    return 'step %d Send: Interest (t=%s,cbp=%s) but spec sent %s' % (k, last['t'], last['cbp'], dict(want))
                if last['life'] != sc.lifetime:
                    return 'step %d Send: lifetime %s' % (k, last['life'])
            else:
                sc.respond(act, last)
            p = sc.post()
            if p['yielded'] != list(seq(st['yielded'])):
                return 'step %d %s: yielded %s, spec %s' % (k, act, p['yielded'], list(seq(st['yielded'])))
            fin_spec = st['pc'] in ('done', 'fail')
            if p['fin'] != fin_spec:
                return 'step %d %s: finished=%s, spec pc=%s' % (k, act, p['fin'], st['pc'])
            if p['err'] != st['err']:
                return 'step %d %s: error %s, spec %s' % (k, act, p['err'], st['err'])
            if st['pc'] == 'req' and len(sc.face.out) != len(seq(st['sent'])) + 1:
                return 'step %d %s: %d Interests sent, spec expects the next request now' % (k, act, len(sc.face.out))
            if fin_spec and len(sc.face.out) != len(seq(st['sent'])):
                return 'step %d %s: %d Interests sent after termination, spec %d' % (k, act, len(sc.face.out), len(seq(st['sent'])))
        if sc.sess.loop.errors:
            return 'background error: %r' % sc.sess.loop.errors[0]
    finally:
        sc.close()
    return None


def unbounded(ctx):
    """Unbounded part: Apalache proves an inductive invariant of the integer abstraction SegFetchInd for every object
    size, final marker, discovery answer and retry limit (Init => IndInv, IndInv /\\ Next => IndInv', IndInv => the
    C19 clauses); TLC checks that SegFetch (the specification bound to the code) refines SegFetchInd."""
    import subprocess, shutil
    rp = os.path.join(tlc.BUILD, 'SegFetchRef.cfg')
    tlc.write_cfg(rp, constants={'MaxN': 3, 'MaxRetry': 3}, invariants=['YieldedIsCount', 'IndInvHolds'], properties=['RefinesInd'])
    r = tlc.run('SegFetchRef', rp, workers=4, heavy=False)
    ctx.add_tlc('SegFetch refines SegFetchInd', r)
    if r.violated:
        ctx.violation('C19/spec/SegFetchRef/%s' % r.violated, 'TLC: %s violated (SegFetch does not refine SegFetchInd)' % r.violated,
                      {'trace': r.errtrace})
    if shutil.which('apalache-mc') is None:
        ctx.note('apalache-mc not found: the unbounded inductive argument was not re-checked in this run')
        return
    out = os.path.join(tlc.BUILD, 'apalache')
    obligations = [('InitA', 'IndInv', 0, 'Init => IndInv'), ('IndInit', 'IndInv', 1, "IndInv /\\ Next => IndInv'"),
                   ('IndInit', 'Safety', 0, 'IndInv => InOrderOnce /\\ DoneComplete /\\ RetryBound /\\ FailsIffExhausted')]
    done = 0
    for init, inv, length, what in obligations:
        try:
            p = subprocess.run(['apalache-mc', 'check', '--init=' + init, '--inv=' + inv, '--length=%d' % length, '--out-dir=' + out,
                                'SegFetchInd.tla'], cwd=tlc.SPEC, stdout=subprocess.PIPE, stderr=subprocess.STDOUT, text=True, timeout=600)
            stdout = p.stdout
        except subprocess.TimeoutExpired:
            stdout = 'timeout'
        if 'The outcome is: NoError' in stdout:
            done += 1
        elif 'The outcome is: Error' in stdout:
            ctx.violation('C19/spec/SegFetchInd/' + inv, 'Apalache: obligation "%s" fails' % what, {'out': stdout[-3000:]})
        else:
            # the unbounded argument is an addition to the bounded TLC check that decides the property: when the prover cannot
            # be run here (missing solver, out of memory, time) the run says so instead of failing
            ctx.note('Apalache did not finish obligation "%s" in this run (%s): not re-checked' % (what, stdout[-160:].replace('\n', ' ')))
    shutil.rmtree(out, ignore_errors=True)
    ctx.extra['apalache_obligations'] = len(obligations)
    ctx.extra['apalache_discharged'] = done
    ctx.note('Apalache: %d/%d inductive-invariant obligations of SegFetchInd discharged (unbounded sizes)' % (done, len(obligations)))


INVS = ['TypeOK', 'InOrderOnce', 'DoneComplete', 'RetryBound', 'FailsIffExhausted', 'NoSkip', 'DiscoveryShape']


def run(ctx):
    ctx.rule = ('A: TLC exhaustive over all objects/discovery answers/final markers/retry limits and response '
                'patterns; B: greedy transition cover of that graph replayed on segment_fetcher; C: random larger '
                'scenarios judged by TLC. non-trivial = distinct (cfg, response-sequence) with at least one loss, '
                'Nack, validation failure or discovery answered by a segment > 0')
    ctx.assumptions = ['legacy NDNApp pipeline (C03) delivers Data/Nack/timeout correctly',
                       'virtual-time loop is faithful to asyncio timer semantics']
    maxn, maxr = ctx.pick((3, 2), (4, 3))
    cfgp = os.path.join(tlc.BUILD, 'SegFetch_%s.cfg' % ctx.tier)
    tlc.write_cfg(cfgp, constants={'MaxN': maxn, 'MaxRetry': maxr}, invariants=INVS, properties=['Terminates'])
    if 'A' in ctx.stages:
        r = tlc.run('SegFetch', cfgp, coverage=True, workers=ctx.pick(4, 16))
        ctx.add_tlc('SegFetch exhaustive MaxN=%d MaxRetry=%d' % (maxn, maxr), r)
        if r.violated:
            ctx.violation('C19/spec/%s' % r.violated, 'TLC: %s violated in SegFetch' % r.violated, {'trace': r.errtrace})
        for a in ('Send', 'RespData', 'RespLost', 'RespNack', 'RespVFail'):
            if r.ok and r.coverage.get(a, (0, 0))[1] == 0:
                raise tlc.MachineryError('vacuous: action %s never taken' % a)
        # vacuity witnesses: each must be reachable (i.e. violated as an invariant)
        for w in ('W_DoneMulti', 'W_TimeoutAfterYield', 'W_LateDisc'):
            wp = os.path.join(tlc.BUILD, 'SegFetch_w.cfg')
            tlc.write_cfg(wp, constants={'MaxN': 3, 'MaxRetry': 2}, invariants=[w])
            rw = tlc.run('SegFetch', wp, workers=2, heavy=False)
            if rw.violated != w:
                raise tlc.MachineryError('witness %s not reachable' % w)
    if 'A' in ctx.stages:
        unbounded(ctx)
    if 'B' in ctx.stages:
        gcfg = os.path.join(tlc.BUILD, 'SegFetch_g.cfg')
        gn, gr = ctx.pick((3, 2), (3, 3))
        tlc.write_cfg(gcfg, constants={'MaxN': gn, 'MaxRetry': gr}, invariants=INVS)
        g = graph.dump('SegFetch', gcfg, workers=4)
        ctx.add_tlc('SegFetch graph MaxN=%d MaxRetry=%d (%d edges)' % (gn, gr, g.n_edges), g.tlc)
        paths = graph.edge_cover_paths(g, max_len=60)
        ctx.note('B: %d states, %d edges, %d cover paths' % (len(g.state), g.n_edges, len(paths)))
        for init, path in paths:
            cfg = dict(g.state[init]['cfg'])
            steps = [(a, ar, g.state[d]) for (a, ar, d) in path]
            mis = replay_path(cfg, steps)
            ctx.traces += 1
            ctx.evaluations += 1
            acts = [a for a, _, _ in path]
            if any(a in ('RespLost', 'RespNack', 'RespVFail') for a in acts) or (cfg['seg'] and cfg['disc'] > 0):
                ctx.nt(['B', cfg, acts])
            ctx.sample({'kind': 'B-path', 'cfg': cfg, 'actions': acts}, limit=3)
            if mis:
                ctx.violation('C19/segment_fetcher/replay/' + mis.split(':')[0].split(' ', 2)[-1],
                              mis, {'kind': 'path', 'cfg': cfg, 'actions': acts})
    if 'C' in ctx.stages:
        n = ctx.pick(300, 6000)
        recs = []
        for i in range(n):
            rng = ctx.rng
            seg = rng.random() < 0.9
            nseg = rng.randint(0, 12) if seg else 1
            cfg = {'n': nseg, 'seg': seg if nseg > 0 else True,
                   'fin': (rng.choice([-1, nseg - 1, nseg - 1, rng.randrange(nseg)]) if seg and nseg > 0 else -1),
                   'disc': (rng.randrange(nseg) if seg and nseg > 0 else 0), 'retry': rng.randint(1, 5),
                   'deep': bool(nseg > 0 and rng.random() < 0.4)}
            ploss, pn, pv = rng.choice([(0, 0, 0), (0.3, 0, 0), (0.5, 0.02, 0.02), (0.15, 0.05, 0.05)])

            def chooser(exists, rng=rng, ploss=ploss, pn=pn, pv=pv):
                x = rng.random()
                if not exists:
                    return 'RespNack' if x < pn else 'RespLost'
                if x < ploss:
                    return 'RespLost'
                if x < ploss + pn:
                    return 'RespNack'
                if x < ploss + pn + pv:
                    return 'RespVFail'
                if x < ploss + pn + pv + 0.12:
                    return 'RespDataLate'
                return 'RespData'
            ev, bg = record(cfg, chooser)
            if bg:
                ctx.violation('C19/segment_fetcher/background-error', 'background error %s' % bg[0], {'cfg': cfg, 'ev': ev})
            recs.append({'cfg': cfg, 'ev': ev})
            acts = [e['a'] for e in ev]
            if any(a in ('RespLost', 'RespNack', 'RespVFail') for a in acts) or cfg['disc'] > 0:
                ctx.nt(['C', cfg, acts])
        # beyond the small scope: objects of several hundred segments (segment numbers and FinalBlockId values that take two
        # octets, marker on every Data / only on the last), a few losses on the way - seed C19-b1
        for nseg, mark, disc in ctx.pick([(300, 'all', 5), (257, 'last', 0)],
                                         [(300, 'all', 5), (257, 'last', 0), (256, 'all', 255), (600, 'tail', 0), (1100, 'all', 700)]):
            rng = ctx.rng
            cfg = {'n': nseg, 'seg': True, 'fin': nseg - 1, 'disc': disc, 'retry': 3, 'deep': False, 'mark': mark}

            def chooser3(exists, rng=rng):
                return 'RespLost' if (not exists or rng.random() < 0.01) else 'RespData'
            ev, bg = record(cfg, chooser3, max_events=3 * nseg + 50)
            if bg:
                ctx.violation('C19/segment_fetcher/background-error', 'background error %s' % bg[0], {'cfg': cfg, 'ev': ev[-5:]})
            recs.append({'cfg': cfg, 'ev': ev})
            ctx.nt(['C-big', cfg])
        ctx.sample({'kind': 'C-trace', 'cfg': recs[0]['cfg'], 'events': [e['a'] for e in recs[0]['ev']][:20]})
        # two concurrent fetches of one object on one application: each must be a SegFetch behaviour on its own
        npairs = 0
        for i in range(ctx.pick(80, 1500)):
            rng = ctx.rng
            nseg = rng.randint(1, 6)
            cfg = {'n': nseg, 'seg': True, 'fin': rng.choice([nseg - 1, nseg - 1, -1]), 'disc': rng.randrange(nseg),
                   'retry': rng.randint(1, 3), 'deep': rng.random() < 0.3}
            ploss = rng.choice([0, 0.2, 0.4])

            def chooser2(exists, rng=rng, ploss=ploss):
                if not exists:
                    return 'RespLost'
                x = rng.random()
                return 'RespLost' if x < ploss else 'RespNack' if x < ploss + 0.03 else 'RespVFail' if x < ploss + 0.06 else \
                    'RespDataLate' if x < ploss + 0.16 else 'RespData'
            evs2, problem = record_pair(cfg, chooser2)
            npairs += 1
            if problem:
                ctx.violation('C19/segment_fetcher/concurrent/' + problem.split(':')[0].replace(' ', '-')[:60], problem,
                              {'kind': 'pair', 'cfg': cfg})
            for ev in evs2:
                recs.append({'cfg': cfg, 'ev': ev, 'pair': True})
            ctx.nt(['P', cfg, [e['a'] for e in evs2[0]]])
        ctx.note('C: %d concurrent pairs of fetches on one NDNApp' % npairs)
        rejected = judge(ctx, recs)
        ctx.traces += len(recs)
        ctx.evaluations += len(recs)
        for i, l in rejected:
            rec = recs[i - 1]
            lno = int(l) if l else 0
            bad = rec['ev'][lno - 1] if 0 < lno <= len(rec['ev']) else None
            ctx.violation('C19/segment_fetcher/%strace/%s' % ('concurrent-' if rec.get('pair') else '', bad['a'] if bad else 'end'),
                          'trace rejected by SegFetchTrace at event %s: %s' % (lno, json.dumps(bad)),
                          {'kind': 'trace', 'rec': rec, 'rejected_at': lno})


def judge(ctx, recs, name='c19'):
    tf = os.path.join(tlc.BUILD, '%s-traces-%s.ndjson' % (name, ctx.tier))
    with open(tf, 'w') as f:
        for r in recs:
            f.write(json.dumps(r) + '\n')
    r, rejected = tlc.validate_traces('SegFetchTrace', 'SegFetchTrace.cfg', tf)
    ctx.add_tlc('SegFetchTrace (%d traces)' % len(recs), r)
    if r.violated:
        ctx.violation('C19/segment_fetcher/trace-invariant/%s' % r.violated,
                      'invariant %s violated on a recorded trace' % r.violated, {'errtrace': r.errtrace})
    return rejected


def replay(ctx, path):
    with open(path) as f:
        obj = json.load(f)
    if obj.get('kind') == 'trace':
        rej = judge(ctx, [obj['rec']], name='c19-replay')
        print('rejected' if rej else 'accepted', rej)
        return 1 if rej else 0
    print(json.dumps(obj, indent=1)[:4000])
    return 0
