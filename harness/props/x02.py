"""X02 (extra check, not one of the listed properties, not in MANIFEST.json): the ndn.schema package - static tree,
match / finer_match, policies, prefix registration, the pipelines of MatchedNode, MemoryCache, SegmentedNode and
LocalResource.  Spec: SchemaTree.tla (+ SchemaTreeMC.tla bounded configurations, SchemaTreeTrace.tla trace judge);
executor: harness/schemakit.py.   `bin/check X02 --tier quick|thorough`.

A  TLC exhaustive: (T) every tree within the bounds built through __getitem__/__setitem__/set_policy, invariants over all
   names up to a length; (R) Register / Cache placements and attach() with every refusal point; (P) every pipeline
   operation sequence on prepared trees that carry every policy type; (S) SegmentedNode / LocalResource.
   Coverage of every action and reachability of the witnesses.
B  the state graphs of smaller configurations are replayed into the real classes (virtual loop, fake face): every
   state of the graph is visited (a state carries the action that led to it, so this is a transition cover), the
   projection of the real objects is compared with the TLC state after every action.  Query calls (match, finer_match,
   exist, get_policy) are sprinkled over the replayed paths and judged by TLC (trace module).
C  seeded random histories larger than the exhaustive bounds (deeper trees, longer names, more operations, all policy
   types at once) recorded from the real classes and judged by SchemaTreeTrace (every event, every projected variable).
"""
import collections
import json
import os
import time

from harness import tlc, graph, tlaval
from harness import schemakit as K

# deviations modelled as coded (see SchemaTree.tla); X02_DEV="" checks a tree in which they are repaired
DEVS = [d for d in os.environ.get('X02_DEV', 'AttachNoPrefix,EmptySearch,SegNoParent').split(',') if d]
DEV = '{%s}' % ', '.join('"%s"' % d for d in DEVS)
BASE = {'Keys': '<- None', 'MaxKeyLen': 2, 'MaxDepth': 3, 'MaxNodes': 3, 'Kinds': '{"node"}', 'PolChoices': '<- None',
        'MaxPol': 0, 'RootPrefixes': '<- None', 'AttachPrefixes': '<- None', 'QNames': '<- None', 'QFiner': '<- None',
        'QueryOn': 'TRUE', 'Contents': '<- None', 'SegContents': '<- None', 'AppParams': '<- None',
        'NetContents': '<- None', 'ExtComps': '<- None', 'MaxOps': 0, 'SegRetry': 2, 'MaxSegs': 3, 'InitTrees': '<- Empty0', 'Dev': DEV}
INV_TREE = ['TypeOK', 'TreeWF', 'MatchGreedy', 'MatchPolNearest', 'MatchEnv', 'GetPolicyNearest', 'FinerIsMatch',
            'NotAttachedNoRoutes']
INV_RUN = ['TypeOK', 'NotAttachedNoRoutes', 'RegExact', 'CacheWF', 'NoSendOnHit', 'InterestHit', 'InterestMiss',
           'LocalOnlyNeverSends', 'RoundTrip']
ACTIONS = ['GetItem', 'SetItem', 'SetPolicy', 'SetPolicyWrong', 'SetPrefix', 'QMatch', 'QFinerMatch', 'QExist', 'QGetPolicy',
           'Attach', 'Provide', 'ProvideSeg', 'Need', 'Deliver', 'Fail', 'Interest']
W_TREE = ['W_PatternTaken', 'W_ExactOverPattern', 'W_GreedyNotLongest', 'W_MatchStopsEarly', 'W_RootPrefixError',
          'W_NodeExists', 'W_VarRenamed', 'W_PolicyShadowed', 'W_FinerPartial']
W_REG = ['W_RegStopsAtRefusal', 'W_RegCachePattern', 'W_RegNothing', 'W_AttachPrefixLost']
W_PIPE = ['W_NeedHit', 'W_NeedHitLonger', 'W_LocalOnlyRaise', 'W_EmptySearchRaise', 'W_Decrypted', 'W_WrongKey',
          'W_ValidationFailure', 'W_PolicyValidatorAcceptsBad', 'W_InterestHit', 'W_InterestDropped', 'W_InterestDecrypted',
          'W_SignedInterestSent', 'W_TwoCaches', 'W_LocalOnlyCached']
W_PIPE_BY_TREE = [['W_NeedHit', 'W_NeedHitLonger', 'W_LocalOnlyRaise', 'W_Decrypted', 'W_WrongKey', 'W_ValidationFailure',
                   'W_PolicyValidatorAcceptsBad', 'W_InterestHit', 'W_TwoCaches'],
                  ['W_InterestDropped', 'W_InterestDecrypted', 'W_SignedInterestSent', 'W_LocalOnlyCached', 'W_ValidationFailure',
                   'W_LocalOnlyNotSaved'],
                  ['W_EmptySearchRaise', 'W_NeedHit', 'W_Decrypted']]
W_SEG = ['W_SegReassembled', 'W_SegFromCache', 'W_SegRetry', 'W_SegTimeout', 'W_SegInterestZero', 'W_LocalNeed']
CLS = {'QFinerMatch': 'MatchedNode', 'Provide': 'MatchedNode', 'ProvideSeg': 'SegmentedNode', 'Need': 'MatchedNode',
       'Deliver': 'MatchedNode', 'Fail': 'MatchedNode', 'Interest': 'MatchedNode'}


def cls_of(act):
    return CLS.get(act, 'Node')


def cfg(name, consts, invs=(), props=(), view=None):
    c = dict(BASE)
    c.update(consts)
    p = os.path.join(tlc.BUILD, name + '.cfg')
    tlc.write_cfg(p, constants=c, invariants=invs, properties=props, view=view)
    return p


def pipe_consts(trees, qnames, maxops, net='P_NetSmall', contents='{"x", ""}', seg='None', max_nodes=8, **kw):
    c = dict(InitTrees='<- ' + trees, AttachPrefixes='<- P_Prefixes', QNames='<- ' + qnames, MaxOps=maxops,
             Contents=contents, AppParams='{"q"}', NetContents='<- ' + net, ExtComps='<- P_Ext', MaxNodes=max_nodes,
             SegContents='<- ' + seg)
    c.update(kw)
    return c


# ------------------------------------------------------------------ stage A

def tlc_jobs_start(ctx, jobs, par):
    """jobs: [(label, consts, x)]: x['invs'] / x['props'] / x['view'] are checked; if x['names'] is there the run also
    collects the witnesses and the actions taken (WCollect / WPost of SchemaTree.tla, one worker) and `names` must be
    reachable.  The TLC runs are independent processes (and independent of the library under test): `par` at a time, in
    the background while stages B and C drive the library; tlc_jobs_finish handles the results in order."""
    from concurrent.futures import ThreadPoolExecutor

    def one(i, job):
        label, consts, x = job
        c = dict(BASE)
        c.update(consts)
        cfgp = os.path.join(tlc.BUILD, 'x02-A-%d.cfg' % i)
        wit = 'names' in x
        tlc.write_cfg(cfgp, constants=c, invariants=list(x.get('invs', ())) + (['WCollect'] if wit else []),
                      properties=x.get('props', ()), view=x.get('view'), postcondition='WPost' if wit else None)
        t0 = time.monotonic()      # (time.time is the virtual clock while a schemakit.Run is open in the main thread)
        r = tlc.run('SchemaTreeMC', cfgp, workers=1 if wit else x.get('workers', 4), heavy=not wit, timeout=2400, tag='x02a%d' % i)
        r.wall = time.monotonic() - t0
        return r
    ex = ThreadPoolExecutor(max_workers=par)
    return ex, [ex.submit(one, i, j) for i, j in enumerate(jobs)]


def tlc_jobs_finish(ctx, jobs, started):
    import re
    ex, futs = started
    try:
        results = [f.result() for f in futs]
    finally:
        ex.shutdown(wait=True)
    cov = collections.Counter()
    for (label, consts, x), r in zip(jobs, results):
        ctx.add_tlc('SchemaTree ' + label, r)
        if os.environ.get('X02_TIMING'):
            print('   %-80s %8d states %6.1fs' % (label, r.distinct, r.wall), flush=True)
        if r.violated and r.violated != 'postcondition':
            ctx.violation('X02/spec/SchemaTree/%s' % r.violated, 'TLC: %s violated in SchemaTree (%s)' % (r.violated, label),
                          {'kind': 'errtrace', 'errtrace': r.errtrace})
            continue
        if 'names' not in x:
            continue
        unreached = set(re.findall(r'<<"UNREACHED", "(\w+)">>', r.out))
        only_with = {'W_AttachPrefixLost': 'AttachNoPrefix', 'W_EmptySearchRaise': 'EmptySearch'}    # situations of a deviation
        missing = [w for w in x['names'] if w in unreached and (w not in only_with or only_with[w] in DEVS)]
        if missing:
            raise tlc.MachineryError('vacuous: SchemaTree witnesses not reachable (%s): %s' % (label, ', '.join(missing)))
        untaken = set(re.findall(r'<<"UNTAKEN", "(\w+)">>', r.out))
        for a in ACTIONS:
            if a not in untaken:
                cov[a] += 1
        ctx.note('A %s: %d witnesses reachable' % (label, len(x['names'])))
    for a in ACTIONS:
        if cov[a] == 0:
            raise tlc.MachineryError('vacuous: SchemaTree action %s never taken in the witness configurations' % a)
    ctx.note('A: every action taken (number of witness configurations in which it is: %s)' %
             ', '.join('%s %d' % (a, cov[a]) for a in ACTIONS))


def stage_a_jobs(ctx):
    q = ctx.quick
    w = ctx.pick(4, 8)
    jobs = []
    # T: the tree as a data structure (VIEW Lasting: what the last call returned does not distinguish states)
    tree = dict(Keys='<- T_Keys', PolChoices='<- T_Pol', RootPrefixes='<- T_RootPrefixes', QueryOn='FALSE')
    tinv = {'invs': INV_TREE, 'view': 'Lasting', 'workers': w}
    if q:
        jobs.append(('T: trees <= 2 nodes, 1 policy, names <= 3', dict(tree, MaxPol=1, MaxNodes=2, INames='<- T_INames'), tinv))
    else:
        jobs.append(('T: trees <= 3 nodes, 1 policy, names <= 3', dict(tree, MaxPol=1, MaxNodes=3, INames='<- T_INames'), tinv))
        jobs.append(('T: trees <= 2 nodes, 2 policies, names <= 4', dict(tree, MaxPol=2, MaxNodes=2, INames='<- T_INames4'), tinv))
    jobs.append(('T: trees <= %d nodes with SegmentedNode / LocalResource, 1 policy' % ctx.pick(2, 3),
                 dict(tree, MaxPol=1, MaxNodes=ctx.pick(2, 3), INames='<- S_INames', Keys='<- S_Keys', Kinds='{"node", "seg", "local"}',
                      RootPrefixes='<- None'), tinv))
    jobs.append(('T: build + queries on the witness tree',
                 dict(InitTrees='<- W_Trees', Keys='<- T_KeysW', PolChoices='<- T_PolW', MaxPol=2, MaxNodes=4, MaxKeyLen=1,
                      RootPrefixes='<- T_RootPrefixes', QNames='<- W_QNames', QFiner='<- W_QFiner'), {'invs': ['TypeOK', 'TreeWF'], 'names': W_TREE}))
    # R: registration
    reg = dict(Keys='<- R_Keys', PolChoices='<- R_Pol', AttachPrefixes='<- R_Prefixes', QueryOn='FALSE')
    mp, mn = ctx.pick((2, 3), (3, 4))
    jobs.append(('R: trees <= %d nodes, %d Register / Cache policies, every refusal point' % (mn, mp),
                 dict(reg, MaxPol=mp, MaxNodes=mn, INames='<- R_INames'),
                 {'invs': ['TypeOK', 'TreeWF', 'RegExact', 'NotAttachedNoRoutes'], 'view': 'Lasting', 'workers': w}))
    jobs.append(('R: trees <= 2 nodes, attach, one Interest',
                 dict(reg, MaxPol=2, MaxNodes=2, MaxKeyLen=1, QNames='<- R_QNamesB', MaxOps=1), {'invs': INV_RUN, 'names': W_REG}))
    # P: pipelines on the prepared trees
    for i, (trees, names) in enumerate((('P_Trees1', 'P_QNames1'), ('P_Trees2', 'P_QNames2'), ('P_Trees3', 'P_QNames3'))):
        jobs.append(('P: tree %d, 2 operations' % (i + 1), pipe_consts(trees, names, 2, QueryOn='FALSE', net=ctx.pick('P_NetSmall', 'P_Net')),
                     {'invs': INV_RUN, 'props': ['CacheMonotone'], 'names': W_PIPE_BY_TREE[i]}))
        if not q:
            jobs.append(('P: tree %d, 3 operations' % (i + 1), pipe_consts(trees, names, 3, QueryOn='FALSE', net='P_NetSmall'),
                         {'invs': INV_RUN, 'props': ['CacheMonotone'], 'workers': w}))
    if not q:
        jobs.append(('P: 2 of 10 policy choices placed by TLC on 4 nodes, 2 operations',
                     pipe_consts('E_Trees', 'E_QNames', 2, QueryOn='FALSE', PolChoices='<- E_Pol', MaxPol=2),
                     {'invs': INV_RUN, 'props': ['CacheMonotone'], 'workers': w}))
    # S: SegmentedNode and LocalResource
    segc = pipe_consts('S_Trees', 'S_QNames', 2, QueryOn='FALSE', seg='S_Contents', contents='{"x"}', net='S_Net', ExtComps='<- None',
                       AppParams='<- None')
    jobs.append(('S: SegmentedNode / LocalResource, 2 operations', segc, {'invs': INV_RUN, 'props': ['CacheMonotone'], 'names': W_SEG}))
    if not q:
        jobs.append(('S: SegmentedNode / LocalResource, 3 operations', dict(segc, MaxOps=3),
                     {'invs': INV_RUN, 'props': ['CacheMonotone'], 'workers': w}))
    return jobs


# ------------------------------------------------------------------ stage B

def dump(cfgp, workers=4, tag='x02'):
    """state graph; the label of a transition is the `call` of its target state"""
    g = graph.dump('SchemaTreeMC', cfgp, workers=workers, tag=tag)
    return g


def state_cover_paths(g, max_len, rng, max_paths=None):
    """paths [(init, [state ids])] from an initial state that together visit every state of the graph"""
    parent = {}
    dq = collections.deque()
    for i in sorted(g.init, key=int):
        parent[i] = None
        dq.append(i)
    while dq:
        s = dq.popleft()
        for k, (a, ar, d) in enumerate(g.edges.get(s, ())):
            if d not in parent:
                parent[d] = (s, k)
                dq.append(d)
    unv = set(parent) - set(g.init)
    order = sorted(unv, key=int)
    rng.shuffle(order)
    paths = []

    def prefix_to(s):
        p = []
        while parent[s] is not None:
            ps, k = parent[s]
            p.append((ps, k))
            s = ps
        p.reverse()
        return s, p
    for s0 in order:
        if s0 not in unv:
            continue
        if max_paths and len(paths) >= max_paths:
            break
        init, pre = prefix_to(s0)
        path = list(pre)
        for (s, k) in pre:
            unv.discard(g.edges[s][k][2])
        cur = s0
        while len(path) < max_len:
            es = g.edges.get(cur, ())
            cand = [k for k, e in enumerate(es) if e[2] in unv]
            if cand:
                k = rng.choice(cand)
            else:
                k = None
                for k1, e in enumerate(es):
                    if any(e2[2] in unv for e2 in g.edges.get(e[2], ())):
                        k = k1
                        break
                if k is None:
                    break
            path.append((cur, k))
            cur = es[k][2]
            unv.discard(cur)
        paths.append((init, [g.edges[s][k][2] for (s, k) in path]))
    return paths, len(unv)


def init_of(state):
    return {'tree': state['tree'], 'rprefix': state['rprefix']}


def cfg_of_projection(p):
    return {'tree': p['tree'], 'rprefix': p['rprefix']}


def init_from_cfg(c):
    """trace cfg (projection of a tree) -> the argument of schemakit.Run"""
    tree = {}
    for n in c['tree']:
        path = tuple(tuple(e) for e in n['path'])
        tree[path] = {'lits': tuple(tuple(x) for x in n['lits']), 'pats': frozenset(tuple(x) for x in n['pats']),
                      'pol': {k: v for k, v in n['pol'].items()}, 'kind': n['kind']}
    return {'tree': tree, 'rprefix': [tuple(x) for x in c['rprefix']]}


class Queries:
    """random query calls on the current real tree (their results are judged by the trace module)"""
    VALS = {8: ['a', 'b', 'c', 'd', 'p'], 32: ['a', 'k']}

    def __init__(self, rng):
        self.rng = rng

    def comp(self):
        ty = 8 if self.rng.random() < 0.8 else 32
        return [ty, self.rng.choice(self.VALS[ty])]

    def name(self, run, maxlen=6):
        rng = self.rng
        n = [list(c) for c in K.name_model(run.root.prefix)] if rng.random() < 0.9 else []
        node = run.root
        if rng.random() < 0.8:
            while len(n) < maxlen and rng.random() < 0.8:
                opts = [('l', cb) for cb in node.children] + [('p', k) for k in node.matches]
                if not opts:
                    break
                kind, k = opts[rng.randrange(len(opts))]
                if kind == 'l' and rng.random() < 0.85:
                    n.append(K.comp_model(k))
                    node = node.children[k]
                elif kind == 'p':
                    ty = k[1]
                    n.append([ty, str(rng.randrange(3)) if ty == 50 else rng.choice(self.VALS.get(ty, ['a']))])
                    node = node.matches[k][1]
                else:
                    break
        while len(n) < maxlen and rng.random() < 0.35:
            n.append(self.comp())
        return n

    def node_path(self, run):
        ws = run.walk()
        return [list(e) for e in ws[self.rng.randrange(len(ws))][0]]

    def key(self):
        rng = self.rng
        ty = 8 if rng.random() < 0.8 else 32
        if rng.random() < 0.6:
            return ['l', ty, rng.choice(self.VALS[ty])]
        return ['p', ty, rng.choice(['x', 'y', 'z'])]

    def one(self, run):
        rng = self.rng
        x = rng.random()
        if x < 0.45:
            return ['QMatch', [] if rng.random() < 0.85 else self.node_path(run), self.name(run)]
        if x < 0.65:
            n = self.name(run)
            if not K_is_prefix(K.name_model(run.root.prefix), n):
                return ['QMatch', [], n]
            new = list(n)
            for _ in range(rng.randint(1, 2)):
                new.append(self.comp())
            return ['QFinerMatch', n, new]
        if x < 0.8:
            return ['QExist', self.node_path(run), self.key()]
        # get_policy: mostly for a policy type that is somewhere on the node's own path
        ws = run.walk()
        path, node, _ = ws[rng.randrange(len(ws))]
        types = set()
        cur = run.root
        for e in (None,) + tuple(path):
            if e is not None:
                cur = cur.children[K.comp_real((e[1], e[2]))] if e[0] == 'l' else cur.matches[(0, e[1])][1]
            types |= {t for t, cls in K.PT.items() if cls in cur.policies}
        ty = rng.choice(sorted(types)) if types and rng.random() < 0.8 else rng.choice(K.PTYPES)
        return ['QGetPolicy', [list(e) for e in path], ty]


def K_is_prefix(a, b):
    return len(a) <= len(b) and [list(x) for x in b[:len(a)]] == [list(x) for x in a]


def to_json_call(call):
    return K.jsonable(list(call))


def replay_path(ctx, g, init, dsts, recs, q, pq):
    """-> (steps executed, None | (index, call, differences)); the path is also recorded as a trace with queries"""
    st0 = g.state[init]
    run = K.Run(init=init_of(st0))
    ev = []
    try:
        p0 = run.project()
        rec = {'cfg': cfg_of_projection(p0), 'ev': ev, 'src': 'B'}
        d = [x for x in K.diff(K.expected(st0, DEVS), p0) if x[0] != 'res']
        if d:
            return 0, (0, ('Init',), d)
        for i, dst in enumerate(dsts):
            st = g.state[dst]
            call = st['call']
            try:
                run.apply(call)
            except Exception as e:  # noqa - the library failed where the model has a transition
                return i, (i + 1, call, [('exception', 'none', '%s: %s' % (type(e).__name__, e))])
            got = run.project()
            ev.append({'call': to_json_call(call), 'post': got})
            d = K.diff(K.expected(st, DEVS), got)
            if d:
                return i + 1, (i + 1, call, d)
            while q is not None and q.rng.random() < pq:
                qc = q.one(run)
                try:
                    run.apply(qc)
                except Exception as e:  # noqa
                    return i + 1, (i + 1, qc, [('exception', 'none', '%s: %s' % (type(e).__name__, e))])
                ev.append({'call': qc, 'post': run.project()})
        recs.append(rec)
        return len(dsts), None
    finally:
        run.close()


def report(ctx, stage, init_cfg, calls, bad):
    i, call, d = bad
    field = d[0][0]
    act = call[0]
    sig = 'X02/%s/%s/%s' % (cls_of(act), act, field)
    if field == 'exception':
        sig += '/' + d[0][2].split(':')[0]
    elif field == 'res' and isinstance(d[0][2], dict) and isinstance(d[0][1], dict):
        ks = sorted(k for k in set(d[0][1]) | set(d[0][2]) if d[0][1].get(k) != d[0][2].get(k))
        sig += '/' + (ks[0] if ks else '')
    ctx.violation(sig, '%s: after %s (step %d) %s is %s, the specification says %s' %
                  (stage, json.dumps(to_json_call(call))[:300], i, field, json.dumps(d[0][2], default=str)[:600],
                   json.dumps(d[0][1], default=str)[:600]),
                  {'kind': 'path', 'cfg': init_cfg, 'calls': [to_json_call(c) for c in calls[:i]],
                   'differences': [[f, K.jsonable(e), K.jsonable(gg)] for f, e, gg in d]})


def nontrivial(calls):
    names = [c[0] for c in calls]
    return len(calls) >= 4 and any(n in ('Attach', 'Need', 'Interest', 'Deliver', 'SetItem', 'SetPolicy') for n in names)


def stage_b(ctx, recs):
    from concurrent.futures import ThreadPoolExecutor
    q = Queries(ctx.rng)
    graphs = []
    tb = dict(Keys='<- T_KeysSmall', PolChoices='<- T_Pol', MaxPol=1, RootPrefixes='<- T_RootPrefixes', QueryOn='FALSE')
    graphs.append(('T tree building', dict(tb, MaxNodes=2, MaxKeyLen=ctx.pick(1, 2)), 0.3))
    if not ctx.quick:
        graphs.append(('T tree building with SegmentedNode / LocalResource',
                       dict(tb, Keys='<- S_Keys', Kinds='{"node", "seg", "local"}', RootPrefixes='<- None', MaxNodes=2, MaxKeyLen=2), 0.3))
    reg = dict(Keys='<- R_Keys', PolChoices='<- R_Pol', AttachPrefixes='<- R_Prefixes', QNames='<- R_QNamesB', QueryOn='FALSE')
    if ctx.quick:
        graphs.append(('R registration', dict(reg, MaxPol=1, MaxNodes=2, MaxKeyLen=1, MaxOps=0), 0.1))
    else:
        graphs.append(('R registration, trees <= 3 nodes', dict(reg, MaxPol=2, MaxNodes=3, MaxKeyLen=1, MaxOps=0), 0.1))
        graphs.append(('R registration and one Interest, trees <= 2 nodes', dict(reg, MaxPol=2, MaxNodes=2, MaxKeyLen=1, MaxOps=1), 0.1))
    for i, (trees, names) in enumerate((('P_Trees1', 'P_QNames1'), ('P_Trees2', 'P_QNames2'), ('P_Trees3', 'P_QNames3'))):
        graphs.append(('P pipelines, tree %d' % (i + 1), pipe_consts(trees, names, ctx.pick(1, 2), QueryOn='FALSE'), 0.1))
    graphs.append(('S segmented / local', pipe_consts('S_Trees', 'S_QNames', ctx.pick(1, 2), QueryOn='FALSE', seg='S_Contents',
                                                      contents='{"x"}', net='S_Net', ExtComps='<- None', AppParams='<- None'), 0.1))
    t0 = time.monotonic()
    with ThreadPoolExecutor(max_workers=ctx.pick(6, 4)) as ex:
        futs = [ex.submit(dump, cfg('x02-B-%d' % n, consts, ['TypeOK']), ctx.pick(2, 4), 'x02b%d' % n) for n, (label, consts, pq) in enumerate(graphs)]
        dumped = [f.result() for f in futs]
    if os.environ.get('X02_TIMING'):
        print('   B: %d graphs dumped in %.1fs' % (len(graphs), time.monotonic() - t0), flush=True)
    brecs = []
    for (label, consts, pq), g in zip(graphs, dumped):
        t1 = time.monotonic()
        ctx.add_tlc('SchemaTree graph %s (%d states, %d edges)' % (label, len(g.state), g.n_edges), g.tlc)
        paths, left = state_cover_paths(g, 40, ctx.rng, max_paths=ctx.pick(None, 12000))
        if left:
            ctx.note('B %s: path budget reached, %d of %d states not visited' % (label, left, len(g.state)))
        steps = 0
        for init, dsts in paths:
            calls = [g.state[d]['call'] for d in dsts]
            n_done, bad = replay_path(ctx, g, init, dsts, brecs, q, pq)
            ctx.traces += 1
            ctx.evaluations += n_done
            steps += n_done
            if nontrivial(calls):
                ctx.nt(['B', label, [to_json_call(c) for c in calls]])
            if bad:
                report(ctx, 'B ' + label, cfg_of_projection_of_state(g.state[init]), calls, bad)
        ctx.sample({'kind': 'B-path', 'graph': label, 'calls': [to_json_call(g.state[d]['call']) for d in paths[-1][1][:8]]}, limit=3)
        ctx.note('B %s: %d states, %d edges, %d paths, %d actions replayed' % (label, len(g.state), g.n_edges, len(paths), steps))
        if os.environ.get('X02_TIMING'):
            print('   B %s: TLC %.1fs replay %.1fs' % (label, g.tlc.wall, time.monotonic() - t1), flush=True)
    # the paths were compared with the TLC states directly; the trace judge is needed for the query calls sprinkled over them
    withq = [r for r in brecs if any(e['call'][0].startswith('Q') for e in r['ev'])]
    ctx.rng.shuffle(withq)
    keep = withq[:ctx.pick(250, 3000)]
    recs += keep
    ctx.note('B: %d replayed paths carry query calls (%d calls); %d of them go to the trace judge' %
             (len(withq), sum(1 for r in withq for e in r['ev'] if e['call'][0].startswith('Q')), len(keep)))


def cfg_of_projection_of_state(st):
    e = K.expected(st, DEVS)
    return {'tree': e['tree'], 'rprefix': e['rprefix']}


# ------------------------------------------------------------------ stage C

POLV = {'Cache': ['m1', 'm2'], 'Register': ['on'], 'LocalOnly': ['on'], 'DataEnc': ['k1', 'k2'], 'IntEnc': ['k1', 'k2'],
        'DataSign': ['s1', 's2'], 'IntSign': ['s1', 's2'], 'DataVal': ['acc', 'rej'], 'IntVal': ['acc', 'rej']}
PLAIN = lambda v: {'k': 'c', 'e': '', 'v': v}   # noqa: E731


class Driver:
    """one random history on the real classes; returns the trace record and the first library exception, if any"""

    def __init__(self, rng, big):
        self.rng = rng
        self.q = Queries(rng)
        self.big = big
        self.provided = []
        self.last = None

    def keys(self, n):
        rng = self.rng
        out = []
        for _ in range(n):
            x = rng.random()
            if x < 0.02:
                out.append(['l', 50, str(rng.randrange(2))])
            elif x < 0.6:
                out.append(self.q.key() if rng.random() < 0.3 else ['l', 8, rng.choice('abcd')])
            else:
                out.append(self.q.key())
        return out

    def step(self, run, ev, call):
        run.apply(call)
        ev.append({'call': call, 'post': run.project()})

    def content(self):
        rng = self.rng
        return dict(K.NOCONTENT) if rng.random() < 0.1 else PLAIN(rng.choice(['x', 'y', 'zz']))

    def run(self):
        rng = self.rng
        run = K.Run()
        ev = []
        rec = {'cfg': cfg_of_projection(run.project()), 'ev': ev, 'src': 'C'}
        err = None
        try:
            try:
                self.history(run, ev)
            except Exception as e:  # noqa - a library exception where the harness expected an ordinary return
                err = (self.last, '%s: %s' % (type(e).__name__, e))
        finally:
            run.close()
        return rec, err

    def history(self, run, ev):
        rng = self.rng
        maxdepth = 6
        prefix = [[8, 'p']] if rng.random() < 0.25 else []
        # ---- build
        for _ in range(rng.randint(3, 10 if self.big else 6)):
            ws = run.walk()
            base = [list(e) for e in ws[rng.randrange(len(ws))][0]] if rng.random() < 0.4 else []
            ks = self.keys(rng.randint(1, 3))
            if len(base) + len(ks) > maxdepth or len(ws) > 30:
                continue
            x = rng.random()
            if x < 0.55:
                self.do(run, ev, ['GetItem', base, ks])
            else:
                kind = 'node' if x < 0.8 else 'seg' if x < 0.93 else 'local'
                if kind == 'seg' and len(base) + len(ks) >= maxdepth:
                    kind = 'node'
                self.do(run, ev, ['SetItem', base, ks, kind])
            self.queries(run, ev, 0.4)
        for _ in range(rng.randint(0, 7 if self.big else 4)):
            used = sorted({t for _, nd, _ in run.walk() for t, cls in K.PT.items() if cls in nd.policies})
            if used and rng.random() < 0.4:
                ty = rng.choice(used)        # the same type again somewhere else: nesting / shadowing
            else:
                ty = rng.choice(K.PTYPES) if rng.random() < 0.6 else rng.choice(['Cache', 'Cache', 'Register', 'LocalOnly', 'DataEnc'])
            p = [] if rng.random() < 0.3 else self.q.node_path(run)
            if rng.random() < 0.06:
                self.do(run, ev, ['SetPolicyWrong', p])
            else:
                self.do(run, ev, ['SetPolicy', p, ty, rng.choice(POLV[ty])])
            self.queries(run, ev, 0.3)
        if prefix and rng.random() < 0.5:
            self.do(run, ev, ['SetPrefix', prefix])
            self.queries(run, ev, 0.8)
        elif rng.random() < 0.05:
            self.do(run, ev, ['SetPrefix', [[8, 'p']]])
            self.queries(run, ev, 0.9)
            if not prefix:
                self.do(run, ev, ['SetPrefix', []])
        if rng.random() < 0.1:
            return
        # ---- attach
        fail_at = 0 if rng.random() < 0.8 else rng.randint(1, 3)
        self.last = ['Attach', prefix, fail_at]
        run.apply(self.last)
        refused = fail_at and len(run.reg) >= fail_at
        ev.append({'call': ['Attach', prefix, fail_at if refused else 0], 'post': run.project()})
        # ---- pipelines
        for _ in range(rng.randint(3, 16 if self.big else 8)):
            pending = run.task is not None and not run.task.done()
            x = rng.random()
            if pending and x < 0.65:
                name, param, _, _ = K.enc.parse_interest(run.last_int)
                ext = []
                if param.can_be_prefix and rng.random() < 0.5:
                    ext = [self.q.comp()]
                    try:        # mostly a component that leads further down the tree
                        m = run.root.match([bytes(c) for c in name])
                        opts = [K.comp_model(cb) for cb in m.node.children] + \
                               [[k[1], rng.choice(self.q.VALS.get(k[1], ['0']))] for k in m.node.matches]
                        if m.pos == len(name) and opts and rng.random() < 0.8:
                            ext = [opts[rng.randrange(len(opts))]]
                    except ValueError:
                        pass
                if len(name) == 0 and not ext:
                    self.do(run, ev, ['Fail', 'nack'])
                    continue
                c = rng.choice([PLAIN('n'), PLAIN('n'), {'k': 'c', 'e': 'k1', 'v': 'n'}, {'k': 'c', 'e': 'k2', 'v': 'n'}, dict(K.NOCONTENT)])
                self.do(run, ev, ['Deliver', ext, c, rng.random() < 0.8, rng.random() < 0.5])
            elif pending and x < 0.8:
                self.do(run, ev, ['Fail', rng.choice(['nack', 'timeout'])])
            elif x < 0.3 or (pending and x < 0.9):
                name = self.pick_name(run)
                try:
                    m = run.root.match(K.name_real(name))
                except ValueError:
                    continue
                if isinstance(m.node, K.SegmentedNode):
                    if m.pos != len(name):
                        continue
                    s = ''.join(rng.choice('uvw') for _ in range(rng.randint(1, 5)))
                    chunks = [s[i:i + K.SEG_SIZE] for i in range(0, len(s), K.SEG_SIZE)]
                    self.do(run, ev, ['ProvideSeg', name, chunks, rng.random() < 0.3])
                else:
                    self.do(run, ev, ['Provide', name, self.content(), rng.random() < 0.3])
                self.provided.append(name)
            elif x < 0.6 and not pending:
                ap = PLAIN('q') if rng.random() < 0.25 else dict(K.NOCONTENT)
                self.do(run, ev, ['Need', self.pick_name(run), ap, rng.random() < 0.4])
            elif x < 0.85:
                name = self.pick_name(run, routed=True)
                if not name:
                    continue
                ap = rng.choice([PLAIN('q'), {'k': 'c', 'e': 'k1', 'v': 'q'}, {'k': 'c', 'e': 'k2', 'v': 'q'}]) if rng.random() < 0.4 \
                    else dict(K.NOCONTENT)
                sg = 'none' if ap['k'] == 'none' else rng.choice(['none', 'good', 'bad'])
                self.do(run, ev, ['Interest', name, ap, sg])
            else:
                self.queries(run, ev, 1.0)

    def do(self, run, ev, call):
        self.last = call
        self.step(run, ev, call)

    def pick_name(self, run, routed=False):
        """a name for a pipeline operation: something provided before (or a prefix / extension of it), an object of a
        SegmentedNode, a name under a registered prefix, or any name"""
        rng = self.rng
        x = rng.random()
        if rng.random() < 0.04:
            return []
        if self.provided and x < 0.4:
            n = [list(c) for c in rng.choice(self.provided)]
            y = rng.random()
            if y < 0.25 and len(n) > 1:
                n = n[:rng.randint(1, len(n) - 1)]
            elif y < 0.35:
                n.append(self.q.comp())
            return n
        segs = [p for p, nd, _ in run.walk() if isinstance(nd, K.SegmentedNode)]
        if segs and x < 0.65:
            p = segs[rng.randrange(len(segs))]
            n = [list(c) for c in K.name_model(run.root.prefix)]
            for e in p:
                n.append([e[1], e[2]] if e[0] == 'l' else [e[1], rng.choice(self.q.VALS.get(e[1], ['0']))])
            if rng.random() < 0.2:
                n.append([50, str(rng.randrange(3))])
            return n
        if routed and run.reg and x < 0.9:
            n = [list(c) for c in run.reg[rng.randrange(len(run.reg))]]
            for _ in range(rng.randint(0, 3)):
                n.append(self.q.comp())
            return n
        n = self.q.name(run)
        if not n and rng.random() < 0.8:
            n = [self.q.comp()]
        return n

    def queries(self, run, ev, p):
        while self.rng.random() < p:
            self.do(run, ev, self.q.one(run))
            p *= 0.6


def stage_c(ctx, recs):
    n = ctx.pick(150, 2500)
    for i in range(n):
        d = Driver(ctx.rng, big=(i % 3 != 0))
        rec, err = d.run()
        calls = [e['call'] for e in rec['ev']]
        if err:
            call, what = err
            ctx.violation('X02/%s/%s/exception/%s' % (cls_of(call[0]), call[0], what.split(':')[0]),
                          'C: %s raised %s' % (json.dumps(call)[:300], what),
                          {'kind': 'path', 'cfg': rec['cfg'], 'calls': calls + [call], 'differences': [['exception', 'none', what]]})
        recs.append(rec)
        if nontrivial(calls):
            ctx.nt(['C', calls])
        ctx.traces += 1
        ctx.evaluations += len(calls)
    ctx.sample({'kind': 'C-history', 'calls': [c for c in calls[:10]]})
    ctx.note('C: %d random histories, %d events' % (n, sum(len(r['ev']) for r in recs if r.get('src') == 'C')))


# ------------------------------------------------------------------ trace judge

TRACE_CONSTS = {'Keys': '<- TrNone', 'MaxKeyLen': 1, 'MaxDepth': 9, 'MaxNodes': 80, 'Kinds': '<- TrNone', 'PolChoices': '<- TrNone',
                'MaxPol': 1000, 'RootPrefixes': '<- TrNone', 'AttachPrefixes': '<- TrNone', 'QNames': '<- TrNone', 'QFiner': '<- TrNone',
                'QueryOn': 'TRUE', 'Contents': '<- TrNone', 'SegContents': '<- TrNone', 'AppParams': '<- TrNone',
                'NetContents': '<- TrNone', 'ExtComps': '<- TrNone', 'MaxOps': 1000, 'SegRetry': 2, 'MaxSegs': 1000, 'InitTrees': '<- TrNone',
                'Dev': DEV, 'INames': '<- TrNames'}
TRACE_INVS = ['TypeOK', 'TreeWF', 'MatchGreedy', 'MatchPolNearest', 'MatchEnv', 'GetPolicyNearest', 'FinerIsMatch',
              'NotAttachedNoRoutes', 'RegExact', 'CacheWF', 'NoSendOnHit', 'InterestHit', 'InterestMiss', 'LocalOnlyNeverSends']


def judge(ctx, recs, name='x02', batch=None):
    """-> [(index into recs, event number at which the trace was rejected)]"""
    from concurrent.futures import ThreadPoolExecutor
    batch = batch or ctx.pick(150, 1000)
    cfgp = os.path.join(tlc.BUILD, 'SchemaTreeTrace.cfg')
    tlc.write_cfg(cfgp, spec='TSpec', constants=TRACE_CONSTS, invariants=TRACE_INVS, constraints=['Mark'], postcondition='Post')

    def one(b):
        part = recs[b:b + batch]
        tf = os.path.join(tlc.BUILD, '%s-traces-%s-%d.ndjson' % (name, ctx.tier, b))
        with open(tf, 'w') as f:
            for r in part:
                f.write(json.dumps({'cfg': r['cfg'], 'ev': r['ev']}) + '\n')
        return tlc.validate_traces('SchemaTreeTrace', cfgp, tf, timeout=3000, tag='x02t%d' % b)
    starts = list(range(0, len(recs), batch))
    with ThreadPoolExecutor(max_workers=ctx.pick(3, 4)) as ex:
        results = list(ex.map(one, starts))
    rejected = []
    for b, (r, rej) in zip(starts, results):
        part = recs[b:b + batch]
        ctx.add_tlc('SchemaTreeTrace (%d traces, %d events)' % (len(part), sum(len(x['ev']) for x in part)), r)
        if os.environ.get('X02_TIMING'):
            print('   judge: %d traces, %d events, %.1fs' % (len(part), sum(len(x['ev']) for x in part), r.wall), flush=True)
        if r.violated:
            ctx.violation('X02/trace-invariant/%s' % r.violated, 'invariant %s violated on a recorded history' % r.violated,
                          {'kind': 'errtrace', 'errtrace': r.errtrace})
        rejected += [(b + i - 1, int(l) if l else 0) for i, l in rej]
    return rejected


def judge_and_report(ctx, recs):
    if not recs:
        return
    for idx, l in judge(ctx, recs):
        rec = recs[idx]
        ev = rec['ev'][l - 1] if 0 < l <= len(rec['ev']) else None
        call = ev['call'] if ev else ['end']
        ctx.violation('X02/%s/%s/trace' % (cls_of(call[0]), call[0]),
                      '%s history rejected by SchemaTreeTrace at event %d: %s -> %s' %
                      (rec.get('src'), l, json.dumps(call)[:300], json.dumps(ev['post']['res'] if ev else None)[:400]),
                      {'kind': 'trace', 'rec': rec, 'rejected_at': l})


def run(ctx):
    ctx.rule = ('A: TLC exhaustive on SchemaTree (trees built through the API within bounds; registration with every refusal '
                'point; every pipeline operation sequence on prepared trees; SegmentedNode/LocalResource), coverage and witnesses; '
                'B: every state (= transition) of smaller graphs replayed into the real classes with full state comparison; '
                'C: random larger histories judged by SchemaTreeTrace.  non-trivial = distinct call sequence of >= 4 calls with at '
                'least one Attach / Need / Interest / Deliver / SetItem / SetPolicy')
    ctx.assumptions = ['virtual-time loop faithful to asyncio', 'legacy NDNApp pipelines (C03-C05) deliver Interests / Data / Nack / '
                       'timeouts correctly', 'process_int / process_data observed through per-instance wrappers that call the class '
                       "method", 'the digest component of an Interest is identified by (parameters, signer)',
                       'deviations modelled as coded: AttachNoPrefix, EmptySearch, SegNoParent (see SchemaTree.tla)']
    recs = []
    jobs = started = None
    if 'A' in ctx.stages:
        jobs = stage_a_jobs(ctx)
        started = tlc_jobs_start(ctx, jobs, ctx.pick(5, 3))
    try:
        if 'B' in ctx.stages:
            stage_b(ctx, recs)
        if 'C' in ctx.stages:
            stage_c(ctx, recs)
        judge_and_report(ctx, recs)
    finally:
        if started:
            tlc_jobs_finish(ctx, jobs, started)


def replay(ctx, path):
    with open(path) as f:
        obj = json.load(f)
    if obj.get('kind') == 'errtrace':
        print(obj['errtrace'])
        return 0
    rec = obj['rec'] if obj.get('kind') == 'trace' else {'cfg': obj['cfg'], 'ev': [{'call': c} for c in obj['calls']]}
    run_ = K.Run(init=init_from_cfg(rec['cfg']))
    new = {'cfg': rec['cfg'], 'ev': [], 'src': 'replay'}
    rc = 0
    try:
        for i, e in enumerate(rec['ev']):
            print(i + 1, json.dumps(e['call']))
            try:
                run_.apply(e['call'])
            except Exception as ex:  # noqa
                print('   raised %s: %s' % (type(ex).__name__, ex))
                rc = 1
                break
            p = run_.project()
            new['ev'].append({'call': e['call'], 'post': p})
            print('   res  %s' % json.dumps(p['res'], default=str)[:600])
            if p['sent'] or p['ints']:
                print('   sent %s ints %s' % (json.dumps(p['sent'])[:600], json.dumps(p['ints'])[:300]))
    finally:
        run_.close()
    if obj.get('differences'):
        print('recorded differences (field, specification, implementation):', json.dumps(obj['differences'], default=str)[:3000])
    rej = judge(ctx, [new], name='x02-replay')
    print('re-executed on the current tree: %s' % ('rejected by the specification at event %s' % rej[0][1] if rej else
                                                   'accepted by the specification'))
    return 1 if (rej or rc) else 0
