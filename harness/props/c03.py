"""C03 - every expressed Interest completes exactly once with the right outcome.
Spec: NdnPit.tla (NdnPitMC configurations, NdnPitTrace). See harness/pitcheck.py."""
import json
from harness import pitcheck as pc, tlc, judge

DEVS = {'v2': (), 'legacy': ('legacySlowValidator',)}


def run(ctx):
    ctx.rule = ('A: TLC exhaustive on NdnPit focused configurations (timing / match / digest) for both front-ends; '
                'B: transition cover of the small NdnPit graph driven as schedules into the real front-end on the '
                'virtual loop; C: random schedules (up to 6 Interests, 6 names, 40 events); B and C executions are '
                'judged by TLC (NdnPitTrace). non-trivial = distinct schedule with >=1 Express and >=1 of '
                'Fire/Cancel/Shutdown/RecvNack/ValFinish/RecvJunk and >=3 events')
    ctx.assumptions = ['virtual-time loop faithful to asyncio timer/ready-queue order',
                       'harness validators resolve only when the schedule says so',
                       'PIT residue is read from the private tries (_pit / _int_tree) by counting pending_list entries']
    if 'A' in ctx.stages:
        cfgs = [('v2 timing 3 entries', pc.mc_cfg('pit-A-timing-v2', 'v2', 3, ctx.pick(3, 4), 'timing', 'v2two')),
                ('v2 match', pc.mc_cfg('pit-A-match-v2', 'v2', ctx.pick(2, 3), 2, 'match', 'v2one')),
                ('legacy small + liveness', pc.mc_cfg('pit-A-live-legacy', 'legacy', 2, 2, 'small', 'legacy', live=True)),
                ('v2 deferred await', pc.mc_cfg('pit-A-defer-v2', 'v2', 2, ctx.pick(2, 3), 'timing', 'v2two', defer='Def_both')),
                ('legacy deferred await', pc.mc_cfg('pit-A-defer-legacy', 'legacy', 2, ctx.pick(2, 3), 'timing', 'legacy', defer='Def_both')),
                ('v2 cancellation in flight', pc.mc_cfg('pit-A-race-v2', 'v2', 2, 2, 'small', 'v2two', races='Race_one')),
                ('v2 reconnect', pc.mc_cfg('pit-A-reconn-v2', 'v2', ctx.pick(2, 3), 2, 'small', 'v2two', reconn=True)),
                ('legacy reconnect', pc.mc_cfg('pit-A-reconn-legacy', 'legacy', ctx.pick(2, 3), 2, 'small', 'legacy', reconn=True)),
                ('legacy lifetime 0', pc.mc_cfg('pit-A-life0-legacy', 'legacy', 2, 2, 'small0', 'legacy'))]
        if not ctx.quick:
            cfgs += [('legacy timing 3 entries', pc.mc_cfg('pit-A-timing-legacy', 'legacy', 3, 3, 'timing', 'legacy')),
                     ('v2 digest', pc.mc_cfg('pit-A-dig-v2', 'v2', 3, 2, 'dig', 'v2two')),
                     ('v2 small + liveness', pc.mc_cfg('pit-A-live-v2', 'v2', 2, 3, 'small', 'v2two', live=True))]
        pc.stage_a(ctx, cfgs)
        impl_refinement(ctx)
    if 'B' in ctx.stages:
        cfgp = pc.mc_cfg('pit-B', 'v2', 2, 2, 'small', 'v2two', invs=[], props=[])
        for front, vmap in (('v2', None), ('legacy', {'PASS': 'T', 'FAIL': 'F'})):
            pc.stage_b(ctx, front, cfgp, 'small 2 entries MaxT=2', devs=DEVS[front], report_devs=False, vmap=vmap, graph_key='small22',
                       max_paths=ctx.pick(900, 20000))
        for front, V in (('v2', 'v2two'), ('legacy', 'legacy')):
            cfgp = pc.mc_cfg('pit-B-defer-' + front, front, 2, ctx.pick(1, 2), 'timing', V, defer='Def_both', invs=[], props=[])
            pc.stage_b(ctx, front, cfgp, 'deferred await 2 entries', devs=DEVS[front], report_devs=False, max_paths=ctx.pick(500, 12000))
        # a packet processed while a cancellation is in flight (requested, clean-up not yet run)
        for front, V in (('v2', 'v2two'), ('legacy', 'legacy')):
            cfgp = pc.mc_cfg('pit-B-race-' + front, front, 2, 1, 'timing', V, races='Race_one', invs=[], props=[])
            pc.stage_b(ctx, front, cfgp, 'cancellation in flight 2 entries', devs=DEVS[front], report_devs=False,
                       max_paths=ctx.pick(400, 8000))
        # main_loop again on the same application object: Interests of the previous connection, new Interests
        for front, V in (('v2', 'v2two'), ('legacy', 'legacy')):
            cfgp = pc.mc_cfg('pit-B-reconn-' + front, front, 2, 1, 'small', V, reconn=True, invs=[], props=[])
            pc.stage_b(ctx, front, cfgp, 'reconnect 2 entries', devs=DEVS[front], report_devs=False, max_paths=ctx.pick(400, 8000))
        # InterestLifetime 0 (legacy): the Interest times out in the instant it is expressed and leaves nothing behind
        cfgp = pc.mc_cfg('pit-B-life0-legacy', 'legacy', 2, 1, 'small0', 'legacy', invs=[], props=[])
        pc.stage_b(ctx, 'legacy', cfgp, 'lifetime 0, 2 entries', devs=DEVS['legacy'], report_devs=False, max_paths=ctx.pick(300, 6000))
        # behaviours sampled from a 3-entry configuration with every dimension open (too large for a cover)
        for front, V, vmap in (('v2', 'v2two', None), ('legacy', 'legacy', None)):
            cfgp = pc.mc_cfg('pit-S-' + front, front, 3, 3, 'match', V, R='R_two', E='E_all', defer='Def_both', races='Race_one', invs=[], props=[])
            pc.stage_b_sim(ctx, front, cfgp, '3 entries match/envelopes/defer', ctx.pick(300, 6000), 16, devs=DEVS[front], report_devs=False)
        # connection life cycle (AppLife.tla; TLC on it runs in C17's stage A): Interests pending when the connection ends
        # - by shutdown(), by the peer, by cancelling main_loop, by a failing after_start - finish as cancelled, Interests
        # expressed without a connection are refused; only the pending / outcome variables are compared here
        from harness import lifecheck
        lifecheck.stage_b(ctx, 'C03', ctx.quick)
    if 'C' in ctx.stages:
        for front in ('v2', 'legacy'):
            # the legacy slow-validator deviation is C05's finding (C03's own text calls Data that arrived in time the
            # right outcome); here it only explains traces and is counted in evidence (explained_by_legacySlowValidator)
            pc.stage_c(ctx, front, ctx.pick(300, 5000), 40, devs=DEVS[front], report_devs=False)
            pc.stage_c_long(ctx, front, ctx.pick(3, 30), devs=DEVS[front], report_devs=False)


IMPL_INVS = ['PendingReachable', 'NoResidueImpl', 'OneNode', 'NoEmptyNode', 'NoInternalError']


def impl_cfg(name, ent, maxt, T, V, bug):
    import os
    p = os.path.join(tlc.BUILD, name + '.cfg')
    tlc.write_cfg(p, spec='ISpec', constants={'MaxEntries': ent, 'MaxT': maxt, 'Templates': '<- T_' + T, 'DataSet': '<- D_' + T,
                                              'Verdicts': '<- V_' + V, 'Reasons': '<- R_one', 'MaxNodes': ent, 'Bug': '<- ' + bug},
                  invariants=IMPL_INVS, properties=['Refines'])
    return p


def impl_refinement(ctx):
    """NdnPitImpl (trie of node objects, node references held by waiters, validator tasks with done-guard) refines
    NdnPit and keeps its structural invariants; the two defects found in the original code, re-enabled as switches,
    must give TLC counterexamples (otherwise the design-level check would be blind to them)."""
    cfgs = [('impl small 2 entries', impl_cfg('impl-small', 2, 2, 'small', 'two', 'NoBug'))]
    if not ctx.quick:
        cfgs += [('impl timing 3 entries', impl_cfg('impl-timing', 3, 3, 'timing', 'two', 'NoBug')),
                 ('impl digest 3 entries all verdicts', impl_cfg('impl-dig', 3, 2, 'dig', 'all', 'NoBug'))]
    for label, cfgp in cfgs:
        r = tlc.run('NdnPitImplMC', cfgp, coverage=True, workers=ctx.pick(8, 16), timeout=3000)
        ctx.add_tlc('NdnPitImpl refines NdnPit: ' + label, r)
        if r.violated:
            ctx.violation('C03/spec/NdnPitImpl/%s' % r.violated, 'TLC: %s violated in NdnPitImpl (%s)' % (r.violated, label),
                          {'trace': r.errtrace})
        for a in ('IExpress', 'IRecvData', 'IValFinish', 'IFire', 'ICancel', 'IRecvNack', 'IShutdown'):
            if r.coverage.get(a, (0, 0))[1] == 0:
                raise tlc.MachineryError('vacuous: NdnPitImpl action %s never taken' % a)
    for bug, expect in (('BugStale', 'PendingReachable'), ('BugCancel', 'NoResidueImpl')):
        r = tlc.run('NdnPitImplMC', impl_cfg('impl-' + bug, 2, 2, 'small', 'two', bug), workers=4, heavy=False)
        if not r.violated:
            raise tlc.MachineryError('NdnPitImpl with %s should violate %s but TLC found nothing' % (bug, expect))
        ctx.note('NdnPitImpl with %s: TLC counterexample for %s (expected)' % (bug, r.violated))
    legacy_impl_refinement(ctx)


LEGACY_IMPL_INVS = ['TypeOKImpl', 'PendingReachable', 'NoResidueImpl', 'IdleClean', 'OneNode', 'NoEmptyNode', 'NoInternalError']
LEGACY_IMPL_ACTIONS = ['LExpress', 'LRecvData', 'LRecvNack', 'LAwait', 'LCancelReq', 'LWakeData', 'LWakeNack', 'LWakeTimeout',
                       'LWakeCancel', 'LWake0', 'LWakeValCancel', 'LValFinish', 'LFire', 'LTick', 'LShutdown', 'LConnect']
LEGACY_IMPL_WITNESSES = ['W_DataThenTimer', 'W_StaleNode', 'W_CancelledMeetsData', 'W_LateValidator']
# (switch, what TLC's counterexample must violate, invariants checked in that run, properties checked in that run)
_R = ('Refines',)
LEGACY_IMPL_BUGS = [('BugStale', 'NoInternalError', LEGACY_IMPL_INVS, _R),          # KeyError raised into the caller
                    ('BugStale', 'PendingReachable', ['PendingReachable'], ()),     # ... and a newer Interest loses its node
                    ('BugCancel', 'NoResidueImpl', LEGACY_IMPL_INVS, _R),
                    ('BugCancelOrig', 'NoInternalError', ['NoInternalError'], ()),  # InvalidStateError out of _receive
                    ('BugGuard', 'NoInternalError', LEGACY_IMPL_INVS, _R),
                    ('BugInPlace', 'Refines', LEGACY_IMPL_INVS, _R),                # a matching Interest is not answered
                    ('WinLateTimer', 'Refines', LEGACY_IMPL_INVS, _R),
                    ('WinStrictAbs', 'Refines', LEGACY_IMPL_INVS, _R)]


def legacy_impl_cfg(name, ent, maxt, T, defer, reconn, bug, invs=LEGACY_IMPL_INVS, props=('Refines',)):
    import os
    p = os.path.join(tlc.BUILD, name + '.cfg')
    tlc.write_cfg(p, spec='LSpec',
                  constants={'MaxEntries': ent, 'MaxT': maxt, 'Templates': '<- T_' + T, 'DataSet': '<- D_' + T, 'Verdicts': '<- V_legacy',
                             'Reasons': '<- R_one', 'MaxNodes': ent, 'Defer': '<- ' + defer, 'Reconn': 'TRUE' if reconn else 'FALSE',
                             'Bug': '<- ' + bug},
                  invariants=invs, properties=props)
    return p


class _PositionalPropertyPattern:
    """This TLC reports a violated action property by position ("Action property line .. of module M is violated"), which
    harness.tlc does not recognise as a violation (tlc.run would raise MachineryError).  Inside this context the pattern of
    harness.tlc is widened (a superset of the original one); legacy_impl_run names the property."""
    def __enter__(self):
        import re
        self.old = tlc._RE_PROP
        tlc._RE_PROP = re.compile(r'(?:Action property|Temporal propert(?:y|ies)) '
                                  r'(?:line \d+, col \d+ to line \d+, col \d+ of module )?(\S*) ?(?:is|was|were) violated')

    def __exit__(self, *a):
        tlc._RE_PROP = self.old


def legacy_impl_run(cfgp, **kw):
    """tlc.run on NdnPitLegacyImplMC (call inside _PositionalPropertyPattern); Refines is the only PROPERTY of its configurations"""
    r = tlc.run('NdnPitLegacyImplMC', cfgp, **kw)
    if r.violated in ('NdnPitLegacyImpl', 'NdnPitLegacyImplMC', 'temporal'):
        r.violated = 'Refines'
    return r


def legacy_impl_refinement(ctx):
    with _PositionalPropertyPattern():
        _legacy_impl_refinement(ctx)


def _legacy_impl_refinement(ctx):
    """NdnPitLegacyImpl - the legacy front-end's Interest trie of node objects, the futures, and the awaiting coroutines of
    ndn.app.NDNApp step by step (asyncio 3.12 wait_for) - refines NdnPit (Front = legacy, deviation legacySlowValidator
    enabled) and keeps its structural invariants; every action and every witness situation is reached; each switch that
    re-creates a defect of the original code (or opens a window NdnPit's macro-steps do not have) must give a counterexample.
    All TLC runs of this part go through one small thread pool (most are short: TLC stops at the first violation)."""
    from concurrent.futures import ThreadPoolExecutor
    #        label, entries, MaxT, templates, Defer, Reconn
    cfgs = [('small 2 entries (same + nested names, CanBePrefix, implicit digest)', 2, 2, 'small', 'Def_no', False),
            ('deferred await + reconnect 2 entries', 2, 2, 'defer', 'Def_both', True),
            ('lifetime 0, 2 entries', 2, ctx.pick(1, 2), 'life0', 'Def_no', False)]
    if not ctx.quick:
        cfgs += [('mid 2 entries, 4 templates, deferred await + reconnect', 2, 2, 'mid', 'Def_both', True),
                 ('timing 3 entries', 3, 2, 'timing', 'Def_no', False)]

    def one(job):
        kind, name, expect, invs, props = job
        if kind == 'm':
            label, ent, maxt, T, defer, reconn = expect
            cfgp = legacy_impl_cfg('limpl-' + name, ent, maxt, T, defer, reconn, 'NoBug')
            return job, legacy_impl_run(cfgp, coverage=True, workers=ctx.pick(4, 8), timeout=3000, tag='limpl-' + name)
        if kind == 'w':
            cfgp = legacy_impl_cfg('limpl-' + name, 2, 2, 'small', 'Def_no', False, 'NoBug', invs=[name], props=[])
        else:
            cfgp = legacy_impl_cfg('limpl-%s-%s' % (name, expect), 2, 2, 'small', 'Def_no', False, name, invs=invs, props=props)
        return job, legacy_impl_run(cfgp, workers=2, heavy=False, timeout=900, tag='limpl-' + name)
    jobs = [('m', '%d-%s' % (i, c[3]), c, None, None) for i, c in enumerate(cfgs)] + \
           [('w', w, w, None, None) for w in LEGACY_IMPL_WITNESSES] + [('b',) + b for b in LEGACY_IMPL_BUGS]
    with ThreadPoolExecutor(6) as ex:
        results = list(ex.map(one, jobs))
    cov_total = {}
    for (kind, name, expect, _, _), r in results:
        if kind == 'm':
            ctx.add_tlc('NdnPitLegacyImpl refines NdnPit: ' + expect[0], r)
            if r.violated:
                ctx.violation('C03/spec/NdnPitLegacyImpl/%s' % r.violated,
                              'TLC: %s violated in NdnPitLegacyImpl (%s)' % (r.violated, expect[0]), {'trace': r.errtrace})
            for a, (d, t) in r.coverage.items():
                cov_total[a] = cov_total.get(a, 0) + t
        elif kind == 'w':
            if r.violated != name:
                raise tlc.MachineryError('vacuous: NdnPitLegacyImpl witness %s not reachable (TLC reported %r)' % (name, r.violated))
        else:
            if r.violated != expect:
                raise tlc.MachineryError('NdnPitLegacyImpl with %s should violate %s but TLC reported %r' % (name, expect, r.violated))
            ctx.note('NdnPitLegacyImpl with %s: TLC counterexample for %s (expected)' % (name, r.violated))
    if any(kind == 'm' and r.violated for (kind, _, _, _, _), r in results):
        return          # TLC stopped at the counterexample: the coverage figures are partial
    for a in LEGACY_IMPL_ACTIONS:
        if cov_total.get(a, 0) == 0:
            raise tlc.MachineryError('vacuous: NdnPitLegacyImpl action %s never taken' % a)
    ctx.extra.setdefault('action_coverage', {}).update({a: cov_total[a] for a in LEGACY_IMPL_ACTIONS})


def replay(ctx, path):
    with open(path) as f:
        obj = json.load(f)
    if obj.get('kind') == 'life':
        from harness import lifecheck
        return lifecheck.replay(ctx, obj)
    if obj.get('kind') != 'trace':
        print(json.dumps(obj, indent=1)[:4000])
        return 0
    front = obj['front']
    sched = [{k: v for k, v in e.items() if k != 'post'} for e in obj['rec']['ev']]
    bad = 0
    for mode in ('debug logging', 'quiet'):          # harness.appkit.log_mode alternates between the two
        rec = pc.record(front, sched)
        rej = judge.validate(ctx, 'NdnPitTrace', pc.trace_cfg(front, None), [rec], 'replay')
        for i, lno in rej:
            print('rejected at event', lno, json.dumps(rec['ev'][lno - 1] if lno else None))
        print('re-executed on the current tree (%s): %s' % (mode, 'REJECTED' if rej else 'accepted'))
        bad += 1 if rej else 0
    return 1 if bad else 0
