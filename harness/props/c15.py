"""C15 - keychain contents, defaults and signers stay consistent over any history.
Spec: Keychain.tla / KeychainTrace.tla.  Executor: harness/kckit.py.

A  TLC exhaustive on Keychain (2 identities, <= 2 keys each, <= 2 certificates per key, every public
   call, a failure at every private-key-store / database step, close / reopen anywhere):
   A0 without failures (deepest), A1 any number of failures per history, A2 at most one failure per history.
   Each deviation flag (the library as found) must break the invariant it is about; vacuity witnesses.
B  the TLC state graph (every call and every failure point out of every state within the level
   bound) is covered by paths that are replayed on a real KeychainSqlite3 + TpmFile in a fresh scratch
   directory; after every step the projection through the public Mapping API is compared.  Quick: all
   transitions out of the states within 1 call of the empty store; thorough: all out of the states within
   2 calls (paths of up to 3 calls).
C  random histories (4 identities, up to 6 keys each, ~40 calls, failures, close / reopen) recorded
   from the real code and judged by TLC (KeychainTrace), invariants evaluated on every state.
   SCALE histories (round 11), judged by the same module with larger constants, one TLC run per group:
   `wide` - one identity is given w keys (quick: three histories, w drawn from 9-11 / 12-15 / 16-19; thorough: 16
   histories, w up to 40), a few random calls follow, then the identity is deleted (in one piece; failing at a
   step drawn from all 4w+2 of its program and repeated; by a second instance), what was beneath it is asked for,
   the identity is made again, close / reopen;  `many` (thorough) - 12 identities with up to 2 keys each.
   CROSS-FILED certificates (round 11, certificate slot 3 of the model, CertN = 3): import_cert of a certificate
   whose name extends ANOTHER key's name (a listed one, a deleted one, one that never existed); once imported the
   driver makes it the default certificate of its key and asks for signers through the key / the identity / the
   default identity (names and objects, custom key locator), also after the key it is named after was deleted.

Entry points / argument shapes exercised besides the plain calls (parameters of the op record, see the
header of Keychain.tla): new_key with an explicit key_id (fresh, of a file left by a failed new_key, of a
listed key); Identity.new_key / Identity.del_key / Key.del_cert; deletes by a second KeychainSqlite3 on
the same store; Identity / Key / Certificate objects as signing arguments; storage failures raised by the
tpm call itself or by the file operation inside TpmFile (open / os.remove); the objects returned by
new_identity / touch_identity / new_key; Certificate.key; the key pair (private-key file vs listed public
key) after every new_key; signers kept by the caller.

The graph of B and the constants of C model the library *as detected* for the two deviations that
change transitions (signer cache keyed by locator only; del_key removing the private key last):
two scripted probes decide the flags, so the replay is never cut short by a known defect; the
defects themselves are reported from what the real code does (wrong signer returned; private key
left after the retried delete), and a wrong flag shows up as a replay mismatch.
"""
import json, os, sqlite3

from harness import tlc, graph, core, kckit
from harness.kckit import Store, kstr, cstr

INVS = ['MappingViews', 'Containment', 'AtMostOneDefault', 'DefaultWhenPopulated', 'SignerMatchesKey',
        'NoSignerForDeletedKey', 'DeleteCascades', 'RetryAfterFailureOk']
DEV_BREAKS = {'DevScope': 'MappingViews', 'DevCacheLoc': 'SignerMatchesKey', 'DevDelKey': 'RetryAfterFailureOk',
              'DevKeyId': 'RetryAfterFailureOk', 'DevEmptyObj': 'SignerMatchesKey'}
# deviations that change an outcome but break no clause of the statement (modelled, not reported)
DEV_NEUTRAL = ('DevDelCertView', 'DevCertObj')
FLAGS = {}            # deviations detected on the tree under test (set by run / replay before any step)
# invariants that cannot hold on histories of a tree that has the deviation (not evaluated on its traces;
# the defect itself is reported from the implementation: see Run.step)
DEV_EXCLUDES = {'DevScope': ['MappingViews'], 'DevCacheLoc': ['SignerMatchesKey'],
                'DevDelKey': ['RetryAfterFailureOk', 'DeleteCascades', 'NoSignerForDeletedKey'],
                'DevKeyId': ['RetryAfterFailureOk', 'SignerMatchesKey'], 'DevDelCertView': [], 'DevCertObj': [],
                'DevEmptyObj': ['SignerMatchesKey']}
NOKEY = ('none', 0)
NOCERT = (NOKEY, 0)
PFX = 'C15/KeychainSqlite3/'
MAXK = {'n': 6}      # key slots per identity in stage C (4 in the quick tier: smaller TLC model)


def B(b):
    return 'TRUE' if b else 'FALSE'


def consts(ids, maxkeys=2, depth=0, maxlevel=0, maxfaults=99, devs=None, certn=2):
    devs = devs or {}
    return {'Ids': ids, 'MaxKeys': maxkeys, 'CertN': certn, 'Depth': depth, 'MaxLevel': maxlevel, 'MaxFaults': maxfaults,
            'DevScope': B(devs.get('DevScope')), 'DevCacheLoc': B(devs.get('DevCacheLoc')),
            'DevDelKey': B(devs.get('DevDelKey')), 'DevKeyId': B(devs.get('DevKeyId')),
            'DevDelCertView': B(devs.get('DevDelCertView')), 'DevCertObj': B(devs.get('DevCertObj')),
            'DevEmptyObj': B(devs.get('DevEmptyObj'))}


def op(name, i='none', k=NOKEY, c=NOCERT, t='none', by='none', loc='none'):
    return {'op': name, 'i': i, 'k': k, 'c': c, 't': t, 'by': by, 'loc': loc}


def okey(o):
    return json.dumps([o['op'], o['i'], o['k'], o['c'], o['t'], o['by'], o['loc']])


def ostr(o):
    a = [x for x in (o['i'] if o['i'] != 'none' else None, kstr(o['k']) if tuple(o['k']) != NOKEY else None,
                     cstr(o['c']) if tuple(o['c'][0]) != NOKEY else None, o['t'] if o['t'] != 'none' else None,
                     o['by'] if o['by'] != 'none' else None, o['loc'] if o['loc'] != 'none' else None) if x]
    return '%s(%s)' % (o['op'], ','.join(a))


# ------------------------------------------------------------------ deviation probes

def detect():
    """Which transition-changing deviations does the tree under test have?"""
    flags = {}
    s = Store(['A', 'B'])
    try:
        s.call(op('TouchIdentity', i='A', k=('A', 1)))
        s.call(op('TouchIdentity', i='B', k=('B', 1)))
        s.call(op('GetSigner', k=('A', 1), by='key', loc='custom'))
        r = s.call(op('GetSigner', k=('B', 1), by='key', loc='custom'))
        flags['DevCacheLoc'] = r.get('signed_by') == [('A', 1)]
        r = s.call(op('DelKey', k=('A', 1)))
        log = r['log']
        flags['DevDelKey'] = 'tpm.delete_key' in log and 'commit' in log and log.index('tpm.delete_key') > log.index('commit')
        # new_key with the key_id of a listed key: is the private key rewritten before the call is refused?
        r = s.call(op('NewKey', i='B', k=('B', 1), t='ec', by='keyid'))
        flags['DevKeyId'] = r['out'] == 'integrity' and 'tpm.generate_key' in r['log']
        s.call(op('NewKey', i='A', k=('A', 2), t='ec'))
        r = s.call(op('GetSigner', c=(('A', 2), 1), by='cert', loc='cert', t='obj'))
        flags['DevCertObj'] = r['out'] == 'keyerr'
        r = s.call(op('DelCert', c=(('A', 2), 1), loc='view'))
        flags['DevDelCertView'] = r['out'] == 'attrerr'
        # a Key object without certificates as signing argument: KeyError, or the default identity's signer?
        s.call(op('DelCert', c=(('A', 2), 1)))
        s.call(op('SetDefId', i='B'))
        r = s.call(op('GetSigner', k=('A', 2), by='key', loc='cert', t='obj'))
        flags['DevEmptyObj'] = r['out'] == 'ok'
    finally:
        s.destroy()
    return flags


# ------------------------------------------------------------------ one step on the real store

class Run:
    """Shared by B (replay) and C (record): performs steps, collects findings that can be judged on
    the implementation alone (view consistency, signer vs. selected key, retried deletes)."""

    def __init__(self, ids):
        self.store = Store(ids)
        self.findings = []          # (sig, what)
        self.last_fail = None       # (okey, beneath key slots) of the step before, if it was a failure
        self.proj = None

    def finish(self):
        """End of a history: every signer still kept must be what it was."""
        if self.store.kc is not None and self.proj is not None and self.proj['open']:
            for kind, w in self.store.reprobe(listed=self.proj['keys']):
                self.find(PFX + 'end-of-history/held-signer/%s' % kind, 'at the end of the history: ' + w)

    def close(self):
        self.store.destroy()

    def find(self, sig, what):
        self.findings.append((sig, what))

    def cross_default(self, o):
        """Is the default certificate of the key the signing arguments select (as the views showed it before the
        call) a cross-filed one?"""
        p = self.proj
        if not p or not p.get('open'):
            return False
        k = tuple(o['k']) if o['by'] == 'key' else p['defK'].get(o['i'] if o['by'] == 'identity' else p.get('defI'))
        dc = p['defC'].get(k) if k is not None else None
        return bool(dc) and dc != '?' and dc[1] == 3

    def beneath(self, o):
        if o['op'] == 'DelKey':
            return [tuple(o['k'])]
        if o['op'] == 'DelIdentity':
            # keys listed under the identity (a private-key file orphaned by a failed new_key is not beneath it)
            return [k for k in self.store.key if k[0] == o['i'] and self.proj is not None and k in self.proj.get('keys', [])]
        return []

    def step(self, act, o=None, n=None, m='call'):
        st = self.store
        if act == 'Reopen':
            st.open()
            res = {'out': 'ok', 'fired': False}
            self.last_fail = None
        else:
            ben = self.beneath(o) if act == 'Fail' else None
            retry_of = self.last_fail if (act == 'Step' and self.last_fail and self.last_fail[0] == okey(o)) else None
            res = st.call(o, fault=n if act == 'Fail' else None, mode=m)
            exc = res['out'][6:] if res['out'].startswith('error:') else 'AttributeError' if res['out'] == 'attrerr' else None
            if exc and not (res['out'] == 'attrerr' and o['op'] == 'DelCert' and o['loc'] == 'view' and FLAGS.get('DevDelCertView')):
                self.find(PFX + '%s/undocumented-exception/%s' % (o['op'], exc),
                          '%s raised %s: %s' % (ostr(o), exc, res.get('detail')))
            for sg, w in res.get('issues', ()):
                self.find(PFX + sg, '%s: %s' % (ostr(o), w))
            if act == 'Fail' and res.get('fired') and res['out'] != 'fault':
                self.find(PFX + '%s/failure-swallowed/%s' % (o['op'], m),
                          '%s: the storage failure injected at fault point %d (%s, %s) did not propagate (outcome %s)'
                          % (ostr(o), n, res['log'][n - 1] if 0 < n <= len(res['log']) else '?', m, res['out']))
            if o['op'] == 'GetSigner' and res['out'] == 'ok':
                sel = tuple(o['k']) if o['by'] == 'key' else tuple(o['c'][0]) if o['by'] == 'cert' else None
                sb = res['signed_by']
                if len(sb) != 1:
                    self.find(PFX + 'GetSigner/signature-verifies-under-%d-keys' % len(sb),
                              '%s: probe signature verifies under %s' % (ostr(o), [kstr(k) for k in sb]))
                elif sel is not None and sb[0] != sel:
                    self.find(PFX + 'GetSigner/SignerMatchesKey/%s' % ('cross-filed-default-certificate-signer-of-other-key'
                                                                       if self.cross_default(o) else
                                                                       'object-argument-signer-of-other-key' if o['t'] == 'obj'
                                                                       else 'cached-signer-of-other-key'),
                              '%s returned a signer that signs with key %s, not with the selected key %s'
                              % (ostr(o), kstr(sb[0]), kstr(sel)))
                elif o['by'] == 'identity' and sb[0][0] != o['i']:
                    self.find(PFX + 'GetSigner/SignerMatchesKey/%s' % ('cross-filed-default-certificate-signer-of-other-key'
                                                                       if self.cross_default(o) else
                                                                       'object-argument-signer-of-other-key' if o['t'] == 'obj'
                                                                       else 'signer-of-other-identity'),
                              '%s returned a signer that signs with key %s of another identity' % (ostr(o), kstr(sb[0])))
            self.last_fail = (okey(o), ben) if (act == 'Fail' and res.get('fired')) else None
        proj, issues = st.projection()
        self.proj = proj
        for s, w in issues:
            self.find('C15/' + s, w)
        # signers handed out earlier are values: re-probe the kept ones of the key this step is about
        if o is not None and proj['open'] and o['op'] in ('GetSigner', 'ImportCert', 'SetDefCert'):
            about = (res['signed_by'][0] if res.get('signed_by') else None) if o['op'] == 'GetSigner' else \
                tuple(o['k']) if o['op'] == 'ImportCert' else tuple(o['c'][0])
            if about is not None:
                for kind, w in st.reprobe(only_key=about, listed=proj['keys']):
                    self.find(PFX + '%s/held-signer/%s' % (o['op'], kind), 'after %s: %s' % (ostr(o), w))
        elif proj['open']:
            st.reprobe(only_key=NOKEY, listed=proj['keys'])      # only forget signers of keys that are gone
        if act == 'Step' and retry_of and o['op'] in ('DelKey', 'DelIdentity') and proj['open']:
            left = [k for k in retry_of[1] if k in proj['tpm']]
            listed = [k for k in retry_of[1] if k in proj['keys']]
            if left or listed:
                self.find(PFX + '%s/RetryAfterFailureOk/%s' % (o['op'], 'private-key-left' if left else 'key-still-listed'),
                          '%s repeated after its failure %s; afterwards %s of key(s) %s still exist%s'
                          % (ostr(o), 'raised KeyError' if res['out'] == 'keyerr' else 'returned',
                             'the private key file(s)' if left else 'the rows', [kstr(k) for k in (left or listed)],
                             ' and can never be removed through the API' if left else ''))
        return res, proj


# ------------------------------------------------------------------ B: replay of graph paths

def obs_table(node):
    t = {}
    for o, r in node.get('obs', ()):
        t[okey(kckit.norm_op(o))] = r
    return t


def make_steps(g, path_edges, init):
    """[(act, o, n, expected result, expected projection)] from graph edges."""
    steps = []
    src = init
    for act, args, dst in path_edges:
        o = kckit.norm_op(args[0]) if args else None
        n = args[1] if act == 'Fail' else None
        m = str(args[2]) if act == 'Fail' else 'call'
        exp = None
        if act == 'Step':
            r = obs_table(g.state[src]).get(okey(o))
            exp = {'out': 'ok'} if r is None else {
                'out': str(r['out']), 'sel': (str(r['sel'][0]), r['sel'][1]), 'got': (str(r['got'][0]), r['got'][1]),
                'lt': str(r['lt']), 'lc': ((str(r['lc'][0][0]), r['lc'][0][1]), r['lc'][1])}
        steps.append({'act': act, 'o': o, 'n': n, 'm': m, 'exp': exp, 'txn': bool(g.state[dst]['st']['txn']),
                      'proj': kckit.expected_projection(g.state[dst]['st'])})
        src = dst
    return steps


def depths(g):
    from collections import deque
    dep = {i: 0 for i in g.init}
    dq = deque(g.init)
    while dq:
        x = dq.popleft()
        for e in g.edges.get(x, ()):
            if e[2] not in dep:
                dep[e[2]] = dep[x] + 1
                dq.append(e[2])
    return dep


def select_paths(ctx, g, paths, full_depth, budget):
    """All paths needed to cover the transitions out of states within full_depth calls of the empty
    store, then a seeded sample of the others while the step budget lasts."""
    dep = depths(g)
    must, rest = [], []
    seen = set()
    for pth in paths:
        src, new = pth[0], False
        for e in pth[1]:
            if dep[src] <= full_depth and (src, id(e)) not in seen:
                seen.add((src, id(e)))
                new = True
            src = e[2]
        (must if new else rest).append(pth)
    ctx.rng.shuffle(rest)
    budget -= sum(len(p) for _, p in must)
    for pth in rest:
        if budget < len(pth[1]):
            break
        must.append(pth)
        budget -= len(pth[1])
    return must


def retry_pairs(g, paths):
    """Paths that put Step(o) right after every Fail(o, n) of a delete (the retry judged by
    RetryAfterFailureOk needs the two in sequence; a transition cover alone does not promise that)."""
    from collections import deque
    have = set()
    for init, pe in paths:
        src = init
        prev = None
        for e in pe:
            if prev is not None:
                have.add((prev, (src, id(e))))
            prev = (src, id(e))
            src = e[2]
    parent = {i: None for i in g.init}
    dq = deque(g.init)
    while dq:
        x = dq.popleft()
        for e in g.edges.get(x, ()):
            if e[2] not in parent:
                parent[e[2]] = (x, e)
                dq.append(e[2])
    out = []
    for src, es in g.edges.items():
        if src not in parent:
            continue
        for e in es:
            if e[0] != 'Fail' or e[1][0]['op'] not in ('DelKey', 'DelIdentity'):
                continue
            nxt = [f for f in g.edges.get(e[2], ()) if f[0] == 'Step' and f[1][0] == e[1][0]]
            if not nxt or ((src, id(e)), (e[2], id(nxt[0]))) in have:
                continue
            pre = []
            x = src
            while parent[x] is not None:
                pre.append(parent[x][1])
                x = parent[x][0]
            pre.reverse()
            out.append((x, pre + [e, nxt[0]]))
    return out


def replay_steps(ids, steps):
    """Returns (findings, done): findings = [(sig, what, step index)]."""
    run = Run(ids)
    out = []
    try:
        for j, s in enumerate(steps):
            act, o, n, exp = s['act'], s['o'], s['n'], s['exp']
            if o and o['op'] == 'GetSigner' and o['by'] == 'cert' and run.store.cert_name(o['c']) is None:
                continue    # a certificate slot of a deleted key that never held a certificate: nothing to ask for
            nf = len(run.findings)
            res, proj = run.step(act, o, n, s.get('m', 'call'))
            out += [(sg, w, j) for sg, w in run.findings[nf:]]
            nout = len(out) - (len(run.findings) - nf)
            stop = False
            if act == 'Fail':
                if not res['fired']:
                    out.append((PFX + '%s/fault-point-%d/not-reached' % (o['op'], n),
                                '%s performed only %d private-key-store / database steps (%s), the specification has a step %d'
                                % (ostr(o), res['points'], res['log'], n), j))
                    stop = True
                elif res['out'] != 'fault':
                    out.append((PFX + '%s/fault-point-%d/swallowed' % (o['op'], n),
                                '%s: the injected failure did not propagate (outcome %s)' % (ostr(o), res['out']), j))
                    stop = True
            elif act == 'Step':
                if res['out'] != exp['out']:
                    out.append((PFX + '%s/outcome/%s-not-%s' % (o['op'], res['out'].split(':')[0], exp['out']),
                                '%s: outcome %s, specification %s' % (ostr(o), res['out'], exp['out']), j))
                    stop = True
                elif o['op'] == 'GetSigner' and exp['out'] == 'ok':
                    sb = res['signed_by']
                    want = tuple(exp['got'])
                    if sb != ([want] if want != NOKEY else []):
                        out.append((PFX + 'GetSigner/signer-key',
                                    '%s: signature verifies under %s, specification says key %s was selected'
                                    % (ostr(o), [kstr(k) for k in sb], kstr(want)), j))
                    if tuple(exp['got']) != tuple(exp['sel']) and sb == [want] and o['by'] in ('default', 'identity'):
                        out.append((PFX + 'GetSigner/SignerMatchesKey/cached-signer-of-other-key',
                                    '%s returned a signer of key %s, selected key %s' % (ostr(o), kstr(want), kstr(exp['sel'])), j))
                    lc = tuple(exp['lc']) if exp['lt'] == 'cert' else None
                    if res['lt'] != exp['lt'] or (lc is not None and (res['lc'] is None or (tuple(res['lc'][0]), res['lc'][1]) != (tuple(lc[0]), lc[1]))):
                        out.append((PFX + 'GetSigner/key-locator',
                                    '%s: key locator %s %s, specification %s %s' % (ostr(o), res['lt'], res['lc'], exp['lt'], lc), j))
            d = kckit.compare(proj, s['proj'])
            if d and not stop:
                label = o['op'] if act == 'Step' else ('Fail-%s-%d' % (o['op'], n) if act == 'Fail' else 'Reopen')
                out.append((PFX + '%s/projection/%s' % (label, d[0]),
                            'after %s: %s is %s, specification %s' % (ostr(o) if o else act, d[0], d[1], d[2]), j))
                stop = True
            if stop:
                return out, False
            if len(out) == nout and proj['open'] and 'txn' in s and bool(run.store.kc.conn.in_transaction) != s['txn']:
                # Nothing observable differs yet, but the connection holds a transaction where the model has none
                # (or the reverse).  If the model says everything is committed, closing and reopening must
                # show the same store: check that now; either way the rest of the path is not replayed.
                if not s['txn']:
                    run.store.close()
                    run.store.open()
                    proj2, _ = run.store.projection()
                    d = kckit.compare(proj2, s['proj'])
                    if d:
                        out.append((PFX + '%s/lost-on-reopen/%s' % (o['op'] if o else act, d[0]),
                                    '%s returned, but its effect was left in an open transaction: after close and reopen '
                                    '%s is %s, specification %s' % (ostr(o) if o else act, d[0], d[1], d[2]), j))
                        return out, False
                out.append(('#txn', 'transaction state %s differs from the model after %s'
                            % (run.store.kc.conn.in_transaction, ostr(o) if o else act), j))
                return out, False
        nf = len(run.findings)
        run.finish()
        out += [(sg, w, len(steps) - 1) for sg, w in run.findings[nf:]]
        return out, True
    finally:
        run.close()


# ------------------------------------------------------------------ C: random histories

def jk(k):
    return [k[0], k[1]]


def jc(c):
    return [[c[0][0], c[0][1]], c[1]]


def jop(o):
    return {'op': o['op'], 'i': o['i'], 'k': jk(o['k']), 'c': jc(o['c']), 't': o['t'], 'by': o['by'], 'loc': o['loc']}


def jpost(p):
    d = {'open': p['open'], 'tpm': [jk(k) for k in p['tpm']]}
    if p['open']:
        d.update(ids=p['ids'], dI=p['dI'], keys=[jk(k) for k in p['keys']], dK=[jk(k) for k in p['dK']],
                 certs=[jc(c) for c in p['certs']], dC=[jc(c) for c in p['dC']])
    return d


def wide_prefix(rng, ids, wide):
    """The calls that make identity wide[0] hold wide[1] keys (through every entry point new_key has), after
    some of the other identities were created (so that the wide one is not always the first row / the default)."""
    wi, w = wide[:2]
    q = [op('TouchIdentity', i=i, k=(i, 1)) for i in ids if i != wi and rng.random() < 0.5]
    q.append(op('TouchIdentity', i=wi, k=(wi, 1)))
    rsa = 0
    for j in range(2, w + 1):
        x = rng.random()
        if x < 0.08 and rsa < 2:
            rsa += 1
            q.append(op('NewKey', i=wi, k=(wi, j), t='rsa'))
        elif x < 0.25:
            q.append(op('NewKey', i=wi, k=(wi, j), t='ec', loc='view'))
        elif x < 0.35:
            q.append(op('NewKey', i=wi, k=(wi, j), t='ec', by='keyid'))
        else:
            q.append(op('NewKey', i=wi, k=(wi, j), t='ec'))
    return q


def record(rng, ids, maxkeys, length, wide=None):
    """wide = (identity, w, how): a SCALE history - the identity is first given w keys (w beyond anything the
    random walk reaches), a few random calls follow, then the identity is deleted (completed, failed at any of its
    4w+2 steps and retried, or by a second instance: how = 'step' | 'fail' | 'any') and what was beneath it is
    asked for again."""
    run = Run(ids)
    ev = []
    nslot = {i: 0 for i in ids}
    nrsa = 0
    try:
        proj, _ = run.store.projection()
        last = None
        hot, queue = [], []       # keys a signer was obtained for; calls to make next (directed sequences)
        del_at = None
        if wide:
            queue = wide_prefix(rng, ids, wide)
            del_at = len(queue) + rng.randint(0, 5)
        while len(ev) < length:
            if not proj['open']:
                act, o, n, m = 'Reopen', None, None, 'call'
            elif queue:
                x = queue.pop(0)
                act, o, n, m = x if isinstance(x, tuple) else ('Step', x, None, 'call')
            elif del_at is not None and len(ev) >= del_at:
                # the wide identity goes: in one piece, failing at a step anywhere in its program (then repeated),
                # or deleted by a second instance; afterwards what was beneath it is asked for, and it is made again
                wi = wide[0]
                del_at = None
                mine = [k for k in proj['keys'] if k[0] == wi]
                if wi not in proj['ids']:
                    continue            # (the random calls in between have deleted it already)
                x = {'step': 0.5, 'fail': 0.9}.get(wide[2], rng.random())
                ext = x < 0.15 and not run.store.kc.conn.in_transaction
                o = op('DelIdentity', i=wi, loc='ext' if ext else 'none')
                act, n, m = 'Step', None, 'call'
                if x > 0.6:
                    act, n = 'Fail', rng.randint(1, 4 * len(mine) + 2)
                    m = 'io' if rng.random() < 0.3 else 'call'
                    queue.append(o)
                for k in rng.sample(mine, min(3, len(mine))):
                    if (k, 1) in run.store.cert:
                        queue.append(op('GetSigner', c=(k, 1), by='cert', loc='cert'))
                    queue.append(op('GetSigner', k=k, by='key', loc='cert'))
                queue.append(op('GetSigner', by='default', loc='cert'))
                if nslot[wi] < maxkeys:
                    queue.append(op('TouchIdentity', i=wi, k=(wi, nslot[wi] + 1)))
                    queue.append(op('GetSigner', i=wi, by='identity', loc='cert'))
                queue.append(op('Close'))
                last = None
            else:
                keys, certs = proj['keys'], proj['certs']
                known_keys = sorted(run.store.key)
                ext_ok = not run.store.kc.conn.in_transaction      # a second instance could write now
                cand = []
                for i in ids:
                    cand.append((1, op('NewIdentity', i=i)))
                    if i in proj['ids']:
                        cand.append((2, op('TouchIdentity', i=i)))
                        cand.append((3, op('SetDefId', i=i)))
                        cand.append((2, op('DelIdentity', i=i)))
                        cand.append((2, op('GetSigner', i=i, by='identity', loc='cert')))
                        if nslot[i] < maxkeys:
                            t = 'rsa' if (nrsa < 3 and rng.random() < 0.15) else 'ec'
                            cand.append((4, op('NewKey', i=i, k=(i, nslot[i] + 1), t=t)))
                            cand.append((2, op('NewKey', i=i, k=(i, nslot[i] + 1), t=t, loc='view')))
                            cand.append((2, op('NewKey', i=i, k=(i, nslot[i] + 1), t='ec', by='keyid')))
                        cand.append((2, op('GetSigner', i=i, by='identity', loc='cert', t='obj')))
                        if ext_ok:
                            cand.append((1, op('DelIdentity', i=i, loc='ext')))
                    else:
                        cand.append((1, op('GetSigner', i=i, by='identity', loc='cert')))       # an identity that is not there
                        if nslot[i] < maxkeys:
                            cand.append((6, op('TouchIdentity', i=i, k=(i, nslot[i] + 1))))
                for k in known_keys:
                    if k in keys:
                        if (k, 2) not in certs:
                            cand.append((4, op('ImportCert', k=k)))
                        if (k, 3) not in certs:       # cross-filed: named after another key / a key that never was
                            cand.append((3, op('ImportCert', k=k, c=(k, 3), t=rng.choice(('xkey', 'xkey', 'xnone')))))
                        cand.append((3, op('SetDefKey', k=k)))
                        cand.append((2, op('DelKey', k=k)))
                        cand.append((1, op('DelKey', k=k, loc='view')))
                        cand.append((1, op('NewKey', i=k[0], k=k, t='ec', by='keyid')))      # key_id of a listed key
                        cand.append((2, op('GetSigner', k=k, by='key', loc='cert', t='obj')))
                        if ext_ok:
                            cand.append((1, op('DelKey', k=k, loc='ext')))
                    elif k in proj['tpm']:
                        cand.append((1, op('DelKey', k=k)))
                    for loc in ('cert', 'custom'):
                        cand.append((2 if k in keys else 1, op('GetSigner', k=k, by='key', loc=loc)))
                for c in sorted(run.store.cert):
                    if c in certs:
                        cand.append((3, op('SetDefCert', c=c)))
                        cand.append((2, op('DelCert', c=c)))
                        cand.append((1, op('DelCert', c=c, loc='view')))
                        if c[1] != 3:
                            cand.append((2, op('GetSigner', c=c, by='cert', loc='cert', t='obj')))
                        if ext_ok:
                            cand.append((1, op('DelCert', c=c, loc='ext')))
                    if (c in certs or c[0] not in keys) and c[1] != 3:     # (cross-filed: never asked for by certificate)
                        for loc in ('cert', 'custom'):
                            cand.append((2 if c in certs else 1, op('GetSigner', c=c, by='cert', loc=loc)))
                hot = [k for k in hot if k in keys]
                forced = None
                if ext_ok and hot and rng.random() < 0.06:
                    # a second instance deletes a key this instance has handed out signers for; ask again
                    k = rng.choice(hot)
                    forced = op('DelKey', k=k, loc='ext')
                    queue = [op('GetSigner', k=k, by='key', loc='custom'), op('GetSigner', k=k, by='key', loc='cert'),
                             op('GetSigner', i=k[0], by='identity', loc='cert')]
                    if (k, 1) in run.store.cert:
                        queue.append(op('GetSigner', c=(k, 1), by='cert', loc='cert'))
                    last = None
                cand.append((6, op('GetSigner', by='default', loc='cert')))
                cand.append((3, op('Close')))
                if last is not None and last[0] == 'Fail' and rng.random() < 0.5:
                    o = last[1]
                    if o['loc'] == 'ext' and not ext_ok:
                        o = None
                    elif o['op'] == 'NewKey' and o['by'] == 'keyid':
                        pass        # an explicit key_id names the same key again: the retry keeps the slot
                    elif o['op'] == 'NewKey' or (o['op'] == 'TouchIdentity' and o['i'] not in proj['ids']):
                        if nslot[o['i']] >= maxkeys:
                            o = None
                        else:
                            o = dict(o, k=(o['i'], nslot[o['i']] + 1))
                    elif o['op'] == 'TouchIdentity':
                        o = dict(o, k=NOKEY)
                else:
                    o = None
                if o is None and forced is not None:
                    o = forced
                if o is None:
                    tot = sum(w for w, _ in cand)
                    x = rng.random() * tot
                    for w, c in cand:
                        x -= w
                        if x < 0:
                            o = c
                            break
                n = rng.choice([1, 1, 2, 2, 3, 4, 5, 6, 7, 8, 9, 10]) if (o['op'] != 'Close' and o['loc'] != 'ext'
                                                                           and rng.random() < 0.22) else None
                if n and o['op'] == 'DelIdentity':
                    nk = len([k for k in keys if k[0] == o['i']])       # its program has 4 steps per key + 2
                    if nk > 2 and rng.random() < 0.5:
                        n = rng.randint(1, 4 * nk + 2)
                m = 'io' if (n and rng.random() < 0.3) else 'call'
                act = 'Fail' if n else 'Step'
            if o is not None and tuple(o['k']) != NOKEY and o['op'] in ('NewKey', 'TouchIdentity'):
                nslot[o['i']] = max(nslot[o['i']], o['k'][1])
                if o['t'] == 'rsa':
                    nrsa += 1
            res, proj = run.step(act, o, n, m if act == 'Fail' else 'call')
            if o is not None and o['op'] == 'GetSigner' and res['out'] == 'ok' and res.get('signed_by'):
                hot.append(res['signed_by'][0])
            if act == 'Step' and o['op'] == 'ImportCert' and o['c'][1] == 3 and res['out'] == 'ok' and not queue \
                    and proj['open'] and rng.random() < 0.6:
                # a cross-filed certificate becomes the default of its key: signers through the key / the identity
                k = tuple(o['k'])
                queue.append(op('SetDefCert', c=(k, 3)))
                if rng.random() < 0.5:
                    queue.append(op('SetDefKey', k=k))
                asks = [op('GetSigner', k=k, by='key', loc='cert'), op('GetSigner', k=k, by='key', loc='cert', t='obj'),
                        op('GetSigner', k=k, by='key', loc='custom'), op('GetSigner', i=k[0], by='identity', loc='cert'),
                        op('GetSigner', i=k[0], by='identity', loc='cert', t='obj'), op('GetSigner', by='default', loc='cert')]
                queue += rng.sample(asks, 3)
                peer = run.store.cert.get((k, 3), {}).get('peer')
                if peer is not None and peer in proj['keys'] and rng.random() < 0.4:
                    # the key the certificate is named after goes: the selected key and its private key are untouched
                    queue.append(op('DelKey', k=peer))
                    queue += rng.sample(asks[:5], 2)
                last = None
            if act == 'Fail' and not res['fired']:
                act, n = 'Step', None
                run.last_fail = None
            if act == 'Fail' and not res['log'][n - 1].startswith('tpm.'):
                m = 'call'          # the armed point was a database call: it is the call that failed
            e = {'a': act, 'post': jpost(proj)}
            if o is not None:
                e['o'] = jop(o)
            if act == 'Fail':
                e['n'] = n
                e['m'] = m
            if act == 'Step':
                r = {'out': res['out'], 'got': jk(NOKEY), 'lt': 'none', 'lc': jc(NOCERT)}
                if o['op'] == 'GetSigner' and res['out'] == 'ok':
                    r['got'] = jk(res['signed_by'][0]) if res['signed_by'] else jk(NOKEY)
                    r['lt'] = res['lt']
                    r['lc'] = jc(res['lc']) if res['lc'] else jc(NOCERT)
                e['r'] = r
            ev.append(e)
            last = (act, o)
        run.finish()
        return ev, list(run.findings)
    finally:
        run.close()


IDS4 = ['A', 'B', 'C', 'D']


def _record_chunk(jobs):
    import random
    return [record(random.Random(j['seed']), j['ids'], j['maxkeys'], j['length'], j.get('wide')) for j in jobs]


def record_many(jobs, procs):
    """jobs = [{'seed', 'ids', 'maxkeys', 'length', 'wide'?}] -> [(events, findings)] in the same order."""
    import multiprocessing as mp
    kckit.patch_library()
    kckit.rsa_pool(6)
    if procs <= 1 or len(jobs) < 8:
        return _record_chunk(jobs)
    # the scale histories are the long ones: deal them out first, one per chunk
    order = sorted(range(len(jobs)), key=lambda j: (0 if jobs[j].get('wide') else 1, j))
    n = procs * 2
    chunks = [[jobs[j] for j in order[i::n]] for i in range(n)]
    with mp.get_context('fork').Pool(procs) as pool:
        res = pool.map(_record_chunk, chunks)
    out = [None] * len(jobs)
    for ci, r in enumerate(res):
        for j, x in enumerate(r):
            out[order[ci + j * n]] = x
    return out


def trace_cfg(ctx, flags, name, ids=None, maxkeys=None):
    invs = [i for i in INVS if not any(flags.get(f) and i in DEV_EXCLUDES[f] for f in flags)]
    p = os.path.join(tlc.BUILD, name)
    tlc.write_cfg(p, spec='TSpec', constants=consts('{%s}' % ', '.join('"%s"' % i for i in (ids or IDS4)),
                                                    maxkeys=maxkeys or MAXK['n'], devs=flags, certn=3),
                  invariants=invs, constraints=['Mark'], postcondition='Post')
    return p, invs


def judge(ctx, recs, flags, name, ids=None, maxkeys=None):
    tf = os.path.join(tlc.BUILD, '%s-%s.ndjson' % (name, ctx.tier))
    with open(tf, 'w') as f:
        for r in recs:
            f.write(json.dumps(r) + '\n')
    cfgp, invs = trace_cfg(ctx, flags, '%s-%s.cfg' % (name, ctx.tier), ids, maxkeys)
    r, rejected = tlc.validate_traces('KeychainTrace', cfgp, tf, tag=name)
    return r, rejected, invs


# ------------------------------------------------------------------ the check

class Findings:
    """Keeps the shortest history per signature; reported at the end of a stage."""
    def __init__(self):
        self.best = {}
        self.count = {}

    def add(self, sig, what, obj, size):
        self.count[sig] = self.count.get(sig, 0) + 1
        if sig not in self.best or size < self.best[sig][0]:
            self.best[sig] = (size, what, obj)

    def flush(self, ctx):
        for sig in sorted(self.best):
            _, what, obj = self.best[sig]
            for _ in range(self.count[sig]):
                ctx.violation(sig, what, obj)
        self.best, self.count = {}, {}


def report(ctx, sig, what, obj):
    ctx.violation(sig, what, obj)


def _replay_chunk(chunk):
    """Worker: chunk = [steps, ...] -> [(n_steps, done, acts, [(sig, what, j)])]"""
    out = []
    for steps in chunk:
        fnd, done = replay_steps(['A', 'B'], steps)
        out.append((len(steps), done, fnd))
    return out


def replay_many(all_steps, procs):
    import multiprocessing as mp
    kckit.patch_library()
    kckit.rsa_pool(6)
    if procs <= 1 or len(all_steps) < 8:
        return _replay_chunk(all_steps)
    chunks = [all_steps[i::procs * 4] for i in range(procs * 4)]
    with mp.get_context('fork').Pool(procs) as pool:
        res = pool.map(_replay_chunk, chunks)
    out = [None] * len(all_steps)
    for ci, r in enumerate(res):
        for j, x in enumerate(r):
            out[ci + j * procs * 4] = x
    return out


def run(ctx):
    ctx.rule = ('A: TLC exhaustive over all call / failure-point / close-reopen histories up to the depth bound '
                '(A0 no failure: depth 6 quick / 8 thorough; A1 any number of failures: depth 4 / 5; A2 at most one failure: depth 6, thorough only); B: every transition of the TLC graph '
                '(level bound) replayed on a real KeychainSqlite3+TpmFile; C: random histories over 4 identities judged '
                'by TLC, plus scale histories (one identity of 9..19 keys quick / 9..40 thorough deleted; thorough: 12 identities) '
                'and cross-filed certificates (imported under a key whose name they do not extend) made default. '
                'non-trivial = distinct path / history containing an injected failure, a delete or a close')
    ctx.assumptions = ['PyCryptodome primitives and the sqlite3 module are trusted',
                       'a storage failure is modelled as the step raising without effect (sqlite3.OperationalError / OSError); '
                       'a failing commit leaves the transaction open, as SQLITE_BUSY does',
                       'power-loss consistency of sqlite and the other Tpm back-ends are out of scope']
    flags = detect()
    FLAGS.clear()
    FLAGS.update(flags)
    ctx.note('deviations detected on the tree under test: %s' % json.dumps(flags, sort_keys=True))
    ctx.extra['deviation_flags'] = flags
    workers = ctx.pick(4, int(os.environ.get('VERIF_WORKERS', '12')))

    if 'A' in ctx.stages:
        d0, d1, d2 = ctx.pick((6, 4, 5), (8, 5, 6))
        runs = [('A0 no fault', d0, 0), ('A1 any number of faults', d1, 99)] + ([] if ctx.quick else [('A2 at most one fault', d2, 1)])
        for name, depth, mf in runs:
            cfgp = os.path.join(tlc.BUILD, 'Keychain_%s_%d.cfg' % (ctx.tier, mf))
            tlc.write_cfg(cfgp, spec='SpecA', constants=consts('{A, B}', depth=depth, maxfaults=mf), invariants=INVS, symmetry='Perms')
            r = tlc.run('Keychain', cfgp, coverage=True, workers=workers, timeout=3000)
            ctx.add_tlc('Keychain %s, depth %d, 2 identities x 2 keys x 2 certs' % (name, depth), r)
            ctx.note('%s depth %d: %d distinct states, %d transitions, %.0fs' % (name, depth, r.distinct, r.generated, r.wall))
            if r.violated:
                report(ctx, 'C15/spec/%s' % r.violated, 'TLC: %s violated in Keychain (intended behaviour)' % r.violated,
                       {'kind': 'tlc', 'trace': r.errtrace})
            for a in ('Step', 'FailA', 'Reopen') if mf else ('Step', 'Reopen'):
                if r.ok and r.coverage.get(a, (0, 0))[1] == 0:
                    raise tlc.MachineryError('vacuous: action %s never taken' % a)
        # each deviation flag (library as found) must break the invariant that speaks about it
        for f, depth in (('DevScope', 3), ('DevCacheLoc', 4), ('DevDelKey', 3), ('DevKeyId', 3), ('DevEmptyObj', 4)):
            cfgp = os.path.join(tlc.BUILD, 'Keychain_dev_%s.cfg' % ctx.tier)
            tlc.write_cfg(cfgp, spec='SpecA', constants=consts('{"A", "B"}', depth=depth, devs={f: True}), invariants=INVS)
            r = tlc.run('Keychain', cfgp, workers=1, heavy=False)
            if r.violated != DEV_BREAKS[f]:
                raise tlc.MachineryError('deviation %s does not violate %s (got %s)' % (f, DEV_BREAKS[f], r.violated))
            ctx.note('as-found model %s: TLC finds %s violated after %d states' % (f, r.violated, r.distinct))
        # vacuity witnesses: situations the invariants talk about are reachable (one run, TLCSet registers)
        cfgp = os.path.join(tlc.BUILD, 'Keychain_w_%s.cfg' % ctx.tier)
        tlc.write_cfg(cfgp, spec=None, init='WitnessInit', next_='NextA', constants=consts('{"A", "B"}', depth=4, certn=3),
                      constraints=['WitnessMark'], postcondition='WitnessPost')
        r = tlc.run('Keychain', cfgp, workers=1, heavy=False)
        if 'UNREACHED' in r.out or not r.ok:
            raise tlc.MachineryError('vacuity witness not reachable: %s' % [l for l in r.out.splitlines() if 'UNREACHED' in l])

    if 'B' in ctx.stages:
        lvl = ctx.pick(4, 5)
        gcfg = os.path.join(tlc.BUILD, 'Keychain_g_%s.cfg' % ctx.tier)
        # (thorough: with the cross-filed certificate slot - import it, make it the default, ask for the signer: 4 calls)
        tlc.write_cfg(gcfg, constants=consts('{"A", "B"}', maxlevel=lvl, devs=flags, certn=ctx.pick(2, 3)), constraints=['Bound'],
                      raw='ALIAS DumpAlias')
        g = graph.dump('Keychain', gcfg, workers=1, tag='c15g')
        ctx.add_tlc('Keychain graph, level bound %d (%d edges), flags as detected' % (lvl, g.n_edges), g.tlc)
        paths = graph.edge_cover_paths(g, max_len=80)
        cover = {}
        for s, es in g.edges.items():
            for act, args, dst in es:
                key = act if act == 'Reopen' else ('%s %s' % (act, args[0]['op']) + (' #%d%s' % (args[1], '/io' if args[2] == 'io' else '') if act == 'Fail' else ''))
                cover[key] = cover.get(key, 0) + 1
        ops = ['NewIdentity', 'TouchIdentity', 'NewKey', 'ImportCert', 'SetDefId', 'SetDefKey', 'SetDefCert', 'DelCert',
               'DelKey', 'DelIdentity', 'GetSigner', 'Close']
        missing = [o for o in ops if 'Step ' + o not in cover] + [o for o in ops[:-1] if 'Fail %s #1' % o not in cover]
        variants = {'view': 0, 'ext': 0, 'obj': 0, 'keyid': 0}
        for s_, es in g.edges.items():
            for act, args, dst in es:
                if act == 'Step':
                    for f_ in ('loc', 't', 'by'):
                        if str(args[0][f_]) in variants:
                            variants[str(args[0][f_])] += 1
        missing += [v for v, c in variants.items() if c == 0] + ([] if any(k.endswith('/io') for k in cover) else ['Fail .. /io'])
        if missing or 'Reopen' not in cover:
            raise tlc.MachineryError('vacuous: graph has no transition for %s' % missing)
        ctx.extra['graph_transition_classes'] = cover
        ctx.note('B: %d states, %d edges, %d cover paths, %d steps' % (len(g.state), g.n_edges, len(paths), sum(len(p) for _, p in paths)))
        extra = retry_pairs(g, paths)
        ctx.note('B: +%d paths so that every failed delete is followed by its retry' % len(extra))
        paths = paths + extra
        if not ctx.quick:
            # thorough tier: every transition out of the states within 2 calls, and a seeded sample of the
            # cover paths of the layer after that, within a step budget
            npaths = len(paths)
            paths = select_paths(ctx, g, paths, 2, 100000)
            ctx.note('B (thorough): %d of %d paths replayed (every transition out of states within 2 calls)' % (len(paths), npaths))
        all_steps = [make_steps(g, pe, init) for init, pe in paths]
        results = replay_many(all_steps, ctx.pick(6, 12))
        unfinished = 0
        fs = Findings()
        txn_notes = []
        for steps, (nst, done, fnd) in zip(all_steps, results):
            ctx.traces += 1
            ctx.evaluations += len(steps)
            acts = [(s['act'] + ' ' + ostr(s['o']) + (' #%d%s' % (s['n'], '/io' if s['m'] == 'io' else '') if s['n'] else '')) if s['o'] else s['act'] for s in steps]
            if any(s['act'] == 'Fail' or (s['o'] and s['o']['op'] in ('DelKey', 'DelIdentity', 'DelCert', 'Close')) for s in steps):
                ctx.nt(['B', acts])
            ctx.sample({'kind': 'B-path', 'actions': acts}, limit=3)
            unfinished += 0 if done else 1
            for sig, what, j in fnd:
                if sig == '#txn':
                    txn_notes.append('%s: %s' % (' ; '.join(acts[:j + 1]), what))
                    continue
                fs.add(sig, 'history %s: %s' % (' ; '.join(acts[:j + 1]), what),
                       {'kind': 'path', 'ids': ['A', 'B'], 'steps': steps[:j + 1], 'sig': sig}, j)
        fs.flush(ctx)
        if txn_notes:
            ctx.note('B: %d path(s) stopped because the connection and the model disagree on an open transaction '
                     '(nothing observable differed, also not after close + reopen), e.g. %s' % (len(txn_notes), txn_notes[0]))
        if unfinished:
            ctx.note('B: %d path(s) cut short at a mismatch' % unfinished)

    if 'C' in ctx.stages:
        ntr, length = ctx.pick((80, 40), (1000, 40))
        MAXK['n'] = ctx.pick(4, 6)
        # groups of histories, one TLC run each (the model's constants differ):
        #  std   the random walk over 4 identities (small stores, long histories);
        #  wide  SCALE: one identity given w keys (w far beyond what the walk reaches: sizes at which a paged / batched /
        #        chunked implementation starts its second round), a few random calls, then deleted - see record();
        #  many  (thorough) SCALE the other way: 12 identities with up to 2 keys each.
        groups = {'std': {'ids': IDS4, 'maxkeys': MAXK['n'], 'jobs': []}}
        for _ in range(ntr):
            groups['std']['jobs'].append({'seed': ctx.rng.getrandbits(48), 'ids': IDS4, 'maxkeys': MAXK['n'], 'length': length})
        widths = [ctx.rng.randint(lo, hi) for lo, hi in ctx.pick(WIDE_QUICK, WIDE_THOROUGH)]
        wmax = max(widths) + 2
        groups['wide'] = {'ids': ['A', 'B'], 'maxkeys': wmax, 'jobs': [
            {'seed': ctx.rng.getrandbits(48), 'ids': ['A', 'B'], 'maxkeys': wmax, 'length': w + 22,
             'wide': (ctx.rng.choice(['A', 'B']), w, ('step', 'fail', 'any')[min(n, 2)])} for n, w in enumerate(widths)]}
        if not ctx.quick:
            ids12 = [chr(ord('A') + x) for x in range(12)]
            groups['many'] = {'ids': ids12, 'maxkeys': 2, 'jobs': [
                {'seed': ctx.rng.getrandbits(48), 'ids': ids12, 'maxkeys': 2, 'length': 70} for _ in range(40)]}
        names = list(groups)
        jobs = [j for g in names for j in groups[g]['jobs']]
        recorded = record_many(jobs, ctx.pick(6, 12))
        fsc = Findings()
        pos = 0
        for g in names:
            G = groups[g]
            G['recs'] = []
            for t in range(len(G['jobs'])):
                ev, fnd = recorded[pos]
                pos += 1
                rec = {'cfg': {'ids': G['ids'], 'maxkeys': G['maxkeys']}, 'ev': ev}
                if G['jobs'][t].get('wide'):
                    rec['cfg']['wide'] = list(G['jobs'][t]['wide'])
                G['recs'].append(rec)
                if any(e['a'] == 'Fail' or ('o' in e and e['o']['op'] in ('DelKey', 'DelIdentity', 'DelCert', 'Close')) for e in ev):
                    ctx.nt(['C', [json.dumps(e.get('o', {}), sort_keys=True) + e['a'] + str(e.get('n')) for e in ev]])
                for sig, what in fnd:
                    fsc.add(sig, '%s history: %s' % ({'std': 'random', 'wide': 'scale (wide identity)', 'many': 'scale (many identities)'}[g], what),
                            {'kind': 'trace', 'rec': rec, 'sig': sig, 'flags': flags}, pos + (100000 if g != 'std' else 0))
        fsc.flush(ctx)
        recs = groups['std']['recs']
        ctx.sample({'kind': 'C-trace', 'events': [e['a'] + ' ' + (ostr(kckit_op(e['o'])) if 'o' in e else '') for e in recs[0]['ev']][:25]})
        ctx.sample({'kind': 'C-trace-wide', 'wide': groups['wide']['recs'][0]['cfg']['wide'],
                    'events': [e['a'] + ' ' + (ostr(kckit_op(e['o'])) if 'o' in e else '') for e in groups['wide']['recs'][0]['ev']][-22:]})
        # the TLC runs (one JVM each, single worker) side by side
        from concurrent.futures import ThreadPoolExecutor
        with ThreadPoolExecutor(len(names)) as ex:
            futs = {g: ex.submit(judge, ctx, groups[g]['recs'], flags, 'c15-traces' + ('' if g == 'std' else '-' + g),
                                 groups[g]['ids'], groups[g]['maxkeys']) for g in names}
            judged = {g: futs[g].result() for g in names}
        label = {'std': '%d histories of %d calls, 4 identities' % (len(recs), length),
                 'wide': '%d scale histories, one identity of %s keys' % (len(widths), '/'.join(str(w) for w in sorted(widths))),
                 'many': 'scale histories of 70 calls, 12 identities'}
        invs = judged['std'][2]
        allrecs = [x for g in names for x in groups[g]['recs']]
        ctx.traces += len(allrecs)
        ctx.evaluations += sum(len(x['ev']) for x in allrecs)
        nfail = sum(1 for x in allrecs for e in x['ev'] if e['a'] == 'Fail')
        # vacuity of the two dimensions added in round 11
        ncross = sum(1 for x in allrecs for e in x['ev'] if e['a'] == 'Step' and e['o']['op'] == 'GetSigner'
                     and e['o']['by'] != 'cert' and e['r']['out'] == 'ok' and e['r']['lc'][1] == 3)
        wdel = []
        for x in groups['wide']['recs']:
            wi = x['cfg']['wide'][0]
            prev = []
            for e in x['ev']:
                if 'o' in e and e['o']['op'] == 'DelIdentity' and e['o']['i'] == wi:
                    wdel.append(len([k for k in prev if k[0] == wi]))
                prev = e['post'].get('keys', prev)
        ctx.note('C: %d histories, %d events, %d injected failures, invariants on every state: %s' % (
            len(allrecs), sum(len(x['ev']) for x in allrecs), nfail, ','.join(invs)))
        ctx.note('C: %d signers obtained through a key / identity whose default certificate is cross-filed; identities deleted '
                 'while holding %s keys' % (ncross, sorted(wdel, reverse=True)[:len(widths)]))
        ctx.extra['scale'] = {'wide_identity_keys': sorted(widths), 'keys_beneath_deleted_identity': sorted(wdel, reverse=True),
                              'signers_via_cross_filed_default': ncross}
        if nfail == 0:
            raise tlc.MachineryError('vacuous: no failure was injected in stage C')
        if ncross == 0:
            raise tlc.MachineryError('vacuous: no signer was obtained through a cross-filed default certificate in stage C')
        if not wdel or max(wdel) < min(widths):
            raise tlc.MachineryError('vacuous: no wide identity was deleted in stage C (%s)' % wdel)
        for g in names:
            r, rejected, _ = judged[g]
            ctx.add_tlc('KeychainTrace (%s)' % label[g], r)
            ctx.note('C: KeychainTrace (%s): %.0fs' % (label[g], r.wall))
            grecs = groups[g]['recs']
            if r.violated:
                report(ctx, 'C15/KeychainSqlite3/trace-invariant/%s' % r.violated,
                       'invariant %s violated on a recorded history' % r.violated, {'kind': 'tlc', 'trace': r.errtrace})
            for i, l in rejected:
                rec = grecs[i - 1]
                lno = int(l) if l else 0
                bad = rec['ev'][lno - 1] if 0 < lno <= len(rec['ev']) else None
                what = (bad['a'] + '-' + bad['o']['op']) if bad and 'o' in bad else (bad['a'] if bad else 'end')
                report(ctx, 'C15/KeychainSqlite3/trace/%s' % what,
                       'history rejected by KeychainTrace at event %s: %s' % (lno, json.dumps(bad)),
                       {'kind': 'trace', 'rec': rec, 'rejected_at': lno, 'flags': flags})


# keys of the wide identity, one scale history per range: (quick: a thin sample; thorough: up to 40)
WIDE_QUICK = ((9, 11), (12, 15), (16, 19))
WIDE_THOROUGH = ((9, 10), (11, 12), (13, 14), (15, 16), (17, 18), (19, 21), (22, 24), (25, 28), (29, 32), (33, 36), (37, 40),
                 (9, 40), (9, 40), (9, 40), (9, 40), (9, 40))


def kckit_op(jo):
    return {'op': jo['op'], 'i': jo['i'], 'k': tuple(jo['k']), 'c': (tuple(jo['c'][0]), jo['c'][1]), 't': jo['t'],
            'by': jo['by'], 'loc': jo['loc']}


def replay(ctx, path):
    with open(path) as f:
        obj = json.load(f)
    kind = obj.get('kind')
    FLAGS.clear()
    FLAGS.update(detect())
    if kind == 'path':
        steps = obj['steps']
        for s in steps:
            if s['o']:
                s['o'] = kckit_op(s['o'])
            p = s['proj']
            for fld in ('tpm', 'keys', 'dK'):
                if fld in p:
                    p[fld] = sorted(tuple(k) for k in p[fld])
            for fld in ('certs', 'dC'):
                if fld in p:
                    p[fld] = sorted((tuple(c[0]), c[1]) for c in p[fld])
        fnd, done = replay_steps(obj['ids'], steps)
        for sig, what, j in fnd:
            print('step %d: %s\n   %s' % (j, sig, what))
        hit = any(sig == obj.get('sig') for sig, _, _ in fnd)
        print('reproduced' if hit else 'not reproduced')
        return 1 if hit else 0
    if kind == 'trace':
        MAXK['n'] = obj['rec']['cfg'].get('maxkeys', 6)
        r, rejected, invs = judge(ctx, [obj['rec']], dict(FLAGS), 'c15-replay', obj['rec']['cfg'].get('ids'), MAXK['n'])
        print('rejected' if rejected else 'accepted by KeychainTrace', rejected, 'violated=%s' % r.violated)
        if obj.get('sig'):
            # implementation-level finding: re-run the recorded calls on the real code
            run = Run(obj['rec']['cfg']['ids'])
            try:
                for e in obj['rec']['ev']:
                    run.step(e['a'], kckit_op(e['o']) if 'o' in e else None, e.get('n'), e.get('m', 'call'))
                run.finish()
            finally:
                run.close()
            hit = any(s == obj['sig'] for s, _ in run.findings)
            for s, w in run.findings:
                print(s, '\n   ', w)
            print('reproduced' if hit else 'not reproduced')
            return 1 if hit else 0
        return 1 if (rejected or r.violated) else 0
    print(json.dumps(obj, indent=1)[:6000])
    return 0
