"""C09 - name representations (URI text, canonical URI, component list, wire) are mutually consistent.

Spec: NameUri.tla (executable reference), NameUriMC.tla (bounded domains + laws), NameUriJudge.tla.

A  TLC evaluates the laws on the reference over four exhaustive domains (NameUriMC Mode = comp / name /
   pair / ord): round trip through shorthand and canonical text, every generated spelling parses to the
   same component/name, canonical text has no shorthand, wire round trip, byte order of shortest-form
   encodings = NDN canonical order, prefix test = component-wise equality; Mode = text: component TEXTS - every
   character of an alphabet of ASCII and non-ASCII characters (all Unicode general categories: letters, decimal digits
   of other scripts, full-width / compatibility forms of CHARSET characters, marks, characters outside the BMP) in every
   position of every component kind (generic / NN= value, type number, convention keyword and number, digest, inside
   and next to percent-escapes): what Component.from_str has to accept is CHARSET text and means what it means at the
   Name level.  Vacuity: POSTCONDITION Witnesses.
B  spec -> code: for every enumerated component / name TLC also computes (state variable `out`, read from
   -dump) every spelling and the wire form; each is given to Component.from_str / Name.from_str /
   Name.normalize / Name.from_bytes / Name.to_bytes and must yield the spec's components (raw spellings and the
   enumerated texts also DIRECTLY to Component.from_str: whatever it accepts must be the spec's component); aliasing pass: after
   each conversion the RETURNED list/components are mutated in place and the same input is converted again in
   every direction - the answers must still be the spec's (pure functions) and the input unchanged.  The domain sorted
   by the reference order (pair / ord) is compared with Python's ordering of bytes(component) lists,
   concatenated encodings, equality and Name.is_prefix on all pairs.
C  code -> spec: Name.to_str / to_canonical_uri / Component.to_str / to_canonical_uri / escape_str /
   Name.to_bytes outputs on the enumerated components and on random larger names (0..8 components, types
   1..65535, arbitrary bytes, digests, typed numbers 0..2^64-1, values up to 300 bytes) are parsed back by
   the reference INSIDE TLC (NameUriJudge); ordering / equality / is_prefix matrices of random name sets are
   compared with NameLess / PrefixByComponents - order / equality on the library's OWN return values (constructed,
   parsed, decoded; no harness copies except memoryview x memoryview, which Python cannot order), printing functions
   on every container type and spelling (NAME_INPUTS); arbitrary URI strings with raw non-ASCII characters (= their
   UTF-8 bytes in the reference) read by Name.from_str / normalize must give the reference's name; arbitrary component
   strings (rand_text; rand_uni_text = a well-formed component text of any kind with characters replaced by / mixed with
   arbitrary Unicode characters: look-alikes of the replaced ASCII character under NFKC / case mapping / int(), members of
   every general category, random scalar values) are given to Component.escape_str, Name.normalize([s]) AND unescaped to
   Component.from_str (NameUri!FromStrClauses); Name.is_prefix is called in all nine combinations of argument
   forms (component list / wire / URI on either side), also on names crossing the 253-byte Name length boundary.
"""
import json, os, time, traceback
from concurrent.futures import ThreadPoolExecutor

from harness import tlc, urikit

MODES = {
    'comp': ['I_CompShort', 'I_CompCanon', 'I_CanonNoShorthand', 'I_CompForms', 'I_ShorthandOnlyCanonNumbers'],
    'name': ['I_NameShort', 'I_NameCanon', 'I_NameCanonNoShorthand', 'I_NameForms', 'I_Wire'],
    'pair': ['I_NameOrder', 'I_Trichotomy', 'I_Prefix', 'I_PrefixOrder'],
    'ord': ['I_CompOrder', 'I_CompTrichotomy'],
    'text': ['I_TextStrictIsLoose', 'I_TextEscapeIdem', 'I_TextRoundTrip', 'I_TextAsName', 'I_TextSelfJudged'],
}
DUMPED = ('comp', 'name', 'text')
ALT = (50, 52, 54, 56, 58)
JUDGE_CFG = 'NameUriJudge.cfg'


def _lib():
    from ndn.encoding import Name, Component
    return Name, Component


def txt(codes):
    return bytes(codes).decode('utf-8')


def codes(s):
    return list(s.encode('utf-8'))


def is_canon_num(v):
    """canonical NonNegativeInteger: shortest of 1/2/4/8 bytes (independent of the library)."""
    v = bytes(v)
    if len(v) not in (1, 2, 4, 8):
        return False
    n = int.from_bytes(v, 'big')
    w = 1 if n < 1 << 8 else 2 if n < 1 << 16 else 4 if n < 1 << 32 else 8
    return w == len(v)


def odd_number(n):
    """name contains a typed-number component whose value is not a canonically encoded number"""
    return any(c['t'] in ALT and not is_canon_num(c['v']) for c in n)


def blist(name):
    return [bytes(c) for c in name]


# ------------------------------------------------------------------------------------------ stage A / TLC

def run_mode(ctx, mode, nr, nq, workers, np_=6):
    cfg = os.path.join(tlc.BUILD, 'NameUriMC_%s_%s.cfg' % (mode, ctx.tier))
    tlc.write_cfg(cfg, constants={'Mode': '"%s"' % mode, 'NR': nr, 'NQ': nq, 'NP': np_}, invariants=MODES[mode],
                  postcondition='PostOK')
    out = os.path.join(tlc.BUILD, 'c09-%s-%s.%s' % (mode, ctx.tier, 'dump' if mode in DUMPED else 'ndjson'))
    if os.path.exists(out):
        os.remove(out)
    extra, env = [], {'C09_OUT': ''}
    if mode in DUMPED:
        extra = ['-dump', out]
    else:
        env = {'C09_OUT': out}
    r = tlc.run('NameUriMC', cfg, workers=workers, extra=extra, env=env, tag='c09' + mode)
    return mode, r, out


# ------------------------------------------------------------------------------------------ stage B executors

def _try(f, *a):
    try:
        return f(*a), None
    except Exception as e:  # noqa  (any exception is an observation, judged by the caller)
        return None, type(e).__name__


def replay_comp(rec):
    """rec: {t, v, enc, forms:[{k,s}]} from NameUriMC Mode=comp. Yields (fn, style, observed-class, detail)."""
    Name, Component = _lib()
    t, v, enc = rec['t'], bytes(rec['v']), bytes(rec['enc'])
    n = 0
    got, ex = _try(Component.from_bytes, v, t)
    n += 1
    if ex or bytes(got) != enc:
        yield 'Component.from_bytes', 'wire', ex or 'wrong-bytes', 'from_bytes(%r, %d) -> %r' % (v, t, ex or bytes(got))
    got, ex = _try(lambda: (Component.get_type(enc), bytes(Component.get_value(enc))))
    n += 1
    if ex or got != (t, v):
        yield 'Component.get_type/get_value', 'wire', ex or 'wrong-value', '%r -> %r' % (enc, ex or got)
    styles = {f['k'] for f in rec['forms']}
    if t in ALT and 'short' in styles:
        num = int.from_bytes(v, 'big')
        got, ex = _try(Component.from_number, num, t)
        n += 1
        if ex or bytes(got) != enc:
            yield 'Component.from_number', 'short', ex or 'wrong-component', 'from_number(%d, %d) -> %r' % (num, t, ex or bytes(got))
        got, ex = _try(Component.to_number, enc)
        n += 1
        if ex or got != num:
            yield 'Component.to_number', 'short', ex or 'wrong-number', 'to_number(%r) -> %r' % (enc, ex or got)
        named = {50: Component.from_segment, 52: Component.from_byte_offset, 54: Component.from_version,
                 56: Component.from_timestamp, 58: Component.from_sequence_num}[t]
        got, ex = _try(named, num)
        n += 1
        if ex or bytes(got) != enc:
            yield 'Component.' + named.__name__, 'short', ex or 'wrong-component', '%s(%d) -> %r, spec %r' % (named.__name__, num, ex or bytes(got), enc)
    if t in ALT:
        # the number a typed-number component holds, whatever its width, from every container type the library hands out
        want = txt(rec['dec'])
        for kind, obj in (('bytes', enc), ('bytearray', bytearray(enc)), ('memoryview', memoryview(enc))):
            got, ex = _try(Component.to_number, obj)
            n += 1
            if ex or str(got) != want:
                yield 'Component.to_number', 'value:' + kind, ex or 'wrong-number', 'to_number(%s %r) -> %r, spec %s' % (kind, enc, ex or got, want)
    got, ex = _try(Component.from_hex, v.hex(), t)
    n += 1
    if ex or bytes(got) != enc:
        yield 'Component.from_hex', 'wire', ex or 'wrong-bytes', 'from_hex(%r, %d) -> %r' % (v.hex(), t, ex or bytes(got))
    for f in rec['forms']:
        text = txt(f['s'])
        # Component.from_str has to accept CHARSET text only (f.strict); a raw spelling it may refuse, but what it
        # accepts must be the spec's component
        got, ex = _try(Component.from_str, text)
        n += 1
        if (ex and f['strict']) or (not ex and bytes(got) != enc):
            yield 'Component.from_str', f['k'], ex or 'wrong-component', 'from_str(%r) -> %r, spec %r' % (text, ex or bytes(got), enc)
        got, ex = _try(Name.normalize, [text])
        n += 1
        if ex or blist(got) != [enc]:
            yield 'Name.normalize[str]', f['k'], ex or 'wrong-component', 'normalize([%r]) -> %r, spec %r' % (text, ex or blist(got), enc)
        if text:
            got, ex = _try(Name.from_str, '/' + text)
            n += 1
            if ex or blist(got) != [enc]:
                yield 'Name.from_str', f['k'], ex or 'wrong-name', 'from_str(%r) -> %r, spec [%r]' % ('/' + text, ex or blist(got), enc)
    yield None, None, None, n


def text_class(raw):
    return 'text:raw-non-ascii' if any(b >= 128 for b in raw) else 'text:ascii'


def replay_text(rec):
    """rec: {s, strict:{k,c,enc,wire}, loose:{...}, slash} from NameUriMC Mode=text: one component TEXT given unescaped to
    Component.from_str (has to accept it iff strict.k = ok; whatever it accepts is judged by loose) and to the Name-level
    entry points (have to answer loose)."""
    Name, Component = _lib()
    text = txt(rec['s'])
    strict, loose = rec['strict'], rec['loose']
    cls = text_class(rec['s'])
    n = 1
    got, ex = _try(Component.from_str, text)
    if ex and strict['k'] == 'ok':
        yield 'Component.from_str', cls, 'refused-' + ex, 'from_str(%r) -> %s, spec %r' % (text, ex, bytes(strict['enc']))
    elif not ex and loose['k'] == 'ok' and bytes(got) != bytes(loose['enc']):
        yield 'Component.from_str', cls, 'wrong-component', 'from_str(%r) -> %r, the text denotes %r' % (text, bytes(got), bytes(loose['enc']))
    direct = None if ex else bytes(got)
    calls = [('Name.normalize[str]', lambda: blist(Name.normalize([text])), [bytes(loose['enc'])]),
             ('Name.to_bytes[str]', lambda: bytes(Name.to_bytes([text])), bytes(loose['wire']))]
    if text and not rec['slash']:
        calls.append(('Name.from_str', lambda: blist(Name.from_str('/' + text)), [bytes(loose['enc'])]))
        calls.append(('Name.normalize(str)', lambda: blist(Name.normalize('/' + text)), [bytes(loose['enc'])]))
    for fn, call, want in calls:
        got, ex = _try(call)
        n += 1
        if loose['k'] == 'ok' and (ex or got != want):
            yield fn, cls, ('refused-' + ex) if ex else 'wrong-component', '%s of %r -> %r, spec %r' % (fn, text, ex or got, want)
        if fn == 'Name.normalize[str]' and loose['k'] == 'err' and direct is not None and (ex or got != [direct]):
            # outside the reference grammar: only the statement itself - an accepted form normalises to the same component
            yield 'Component.from_str', cls, 'accepts-alone', (
                'from_str(%r) -> %r but Name.normalize([%r]) -> %r' % (text, direct, text, ex or got))
    yield None, None, None, n


def replay_name(rec):
    """rec: {n, encs, wire, forms:[{k,lead,trail,s}], parts:{style:[text]}} from Mode=name."""
    Name, Component = _lib()
    encs = [bytes(e) for e in rec['encs']]
    wire = bytes(rec['wire'])
    n = 0
    for f in rec['forms']:
        text = txt(f['s'])
        tag = '%s/%s%s' % (f['k'], 'lead' if f['lead'] else 'nolead', '-trail' if f['trail'] else '')
        for fn, call in (('Name.from_str', Name.from_str), ('Name.normalize(str)', Name.normalize)):
            got, ex = _try(call, text)
            n += 1
            if ex or blist(got) != encs:
                yield fn, tag, ex or 'wrong-name', '%s(%r) -> %r, spec %r' % (fn, text, ex or blist(got), encs)
        got, ex = _try(Name.to_bytes, text)
        n += 1
        if ex or bytes(got) != wire:
            yield 'Name.to_bytes(str)', tag, ex or 'wrong-wire', 'to_bytes(%r) -> %r, spec %r' % (text, ex or bytes(got), wire)
    inputs = [('bytes', wire), ('bytearray', bytearray(wire)), ('memoryview', memoryview(wire)),
              ('list-bytes', list(encs)), ('list-bytearray', [bytearray(e) for e in encs]),
              ('list-memoryview', [memoryview(e) for e in encs]), ('tuple', tuple(encs)),
              ('generator', None)]
    for style, parts in rec['parts'].items():
        ps = [txt(p) for p in parts]
        inputs.append(('list-str-' + style, ps))
        inputs.append(('list-mixed-' + style, [p if i % 2 == 0 else encs[i] for i, p in enumerate(ps)]))
    for tag, val in inputs:
        if tag == 'generator':
            val = (e for e in encs)
        got, ex = _try(Name.normalize, val)
        n += 1
        if ex or blist(got) != encs:
            yield 'Name.normalize', tag, ex or 'wrong-name', 'normalize(%s of %r) -> %r' % (tag, encs, ex or blist(got))
        if tag != 'generator':
            got, ex = _try(Name.to_bytes, val)
            n += 1
            if ex or bytes(got) != wire:
                yield 'Name.to_bytes', tag, ex or 'wrong-wire', 'to_bytes(%s of %r) -> %r, spec %r' % (tag, encs, ex or bytes(got), wire)
    got, ex = _try(Name.from_bytes, wire)
    n += 1
    if ex or blist(got) != encs:
        yield 'Name.from_bytes', 'wire', ex or 'wrong-name', 'from_bytes(%r) -> %r, spec %r' % (wire, ex or blist(got), encs)
    got, ex = _try(Name.encoded_length, encs)
    n += 1
    if ex or got != len(wire):
        yield 'Name.encoded_length', 'wire', ex or 'wrong-length', 'encoded_length(%r) -> %r, spec %d' % (encs, ex or got, len(wire))
    yield None, None, None, n


def _mutate_result(res, flip):
    """what a caller may legitimately do with a list it got back: extend it, overwrite an element and
    (only where the components are fresh bytearrays, flip=True) modify a component in place"""
    res.append(b'\x08\x05alias')
    if len(res) > 1:
        if flip and isinstance(res[0], bytearray) and len(res[0]) > 0:
            res[0][-1] ^= 0x55
        res[0] = b'\x08\x01Z'
    if flip:
        for c in res:
            if isinstance(c, bytearray) and len(c) > 2:
                c[-1] ^= 0xFF


def replay_alias(rec):
    """History independence of the conversions (they are pure functions in the reference): convert an input,
    mutate the RETURNED list / components in place, then convert the SAME input object again in every
    direction; every answer must again be the spec's, and the input object must be unchanged.
    (Components of a list input and memoryviews into a caller's buffer are documented shallow copies: those
    are not modified, only the returned list is.)"""
    Name, Component = _lib()
    encs = [bytes(e) for e in rec['encs']]
    wire = bytes(rec['wire'])
    n = 0
    texts = []
    for f in rec['forms']:
        if f['lead'] and not f['trail'] and f['k'] in ('canonU', 'short'):
            t = txt(f['s'])
            if t not in texts:
                texts.append(t)
    inputs = [('str', t, True) for t in texts]
    inputs += [('bytes', wire, False), ('bytearray', bytearray(wire), False),
               ('list-bytes', list(encs), False), ('list-bytearray', [bytearray(e) for e in encs], False)]
    if 'canonU' in rec['parts']:
        inputs.append(('list-str', [txt(x) for x in rec['parts']['canonU']], True))
    for kind, val, flip in inputs:
        snap = [bytes(x) if not isinstance(x, str) else x for x in val] if isinstance(val, list) else (
            bytes(val) if not isinstance(val, str) else val)
        convs = [('Name.normalize', Name.normalize)]
        if kind == 'str':
            convs.append(('Name.from_str', Name.from_str))
        if kind in ('bytes', 'bytearray'):
            convs.append(('Name.from_bytes', Name.from_bytes))
        convs.append(('Name.from_bytes(Name.to_bytes)', lambda v: Name.from_bytes(Name.to_bytes(v))))
        for fn, conv in convs:
            got, ex = _try(conv, val)
            n += 1
            if ex or blist(got) != encs:
                yield fn, 'aliasing:' + kind, ex or 'wrong-name-first-call', '%s(%s %r) -> %r, spec %r' % (fn, kind, val, ex or blist(got), encs)
                continue
            _, ex = _try(_mutate_result, got, flip and fn != 'Name.from_bytes(Name.to_bytes)')
            if ex:      # e.g. an immutable result: nothing to alias
                continue
            checks = [(fn, conv, lambda r: blist(r) == encs),
                      ('Name.normalize', Name.normalize, lambda r: blist(r) == encs),
                      ('Name.to_bytes', Name.to_bytes, lambda r: bytes(r) == wire),
                      ('Name.is_prefix(x, spec name)', lambda v: Name.is_prefix(v, list(encs)), lambda r: r is True),
                      ('Name.is_prefix(spec name, x)', lambda v: Name.is_prefix(list(encs), v), lambda r: r is True),
                      ('Name.is_prefix(x, x + 1)', lambda v: Name.is_prefix(v, list(encs) + [b'\x08\x01q']), lambda r: r is True),
                      ('Name.is_prefix(x + 1, x)', lambda v: Name.is_prefix(list(encs) + [b'\x08\x01q'], v), lambda r: r is False)]
            for fn2, call, ok in checks:
                got2, ex2 = _try(call, val)
                n += 1
                if ex2 or not ok(got2):
                    shown = ex2 or (blist(got2) if isinstance(got2, list) else got2)
                    yield fn2, 'aliasing:' + kind, ex2 or 'depends-on-earlier-call', (
                        'after %s(%s %r) and in-place mutation of the returned list: %s -> %r, spec name %r' % (
                            fn, kind, val, fn2, shown, encs))
            now = [bytes(x) if not isinstance(x, str) else x for x in val] if isinstance(val, list) else (
                bytes(val) if not isinstance(val, str) else val)
            n += 1
            if now != snap:
                yield fn, 'aliasing:' + kind, 'input-modified', '%s modified its %s input: %r -> %r' % (fn, kind, snap, now)
                break
    # The encoded form of a name is a value (declared `-> bytes`; the library itself keys dictionaries with it): when the
    # name was handed over in a buffer the caller goes on using, the result must not follow the buffer, and it is hashable.
    for kind, mk in (('bytearray', lambda: bytearray(wire)), ('memoryview', lambda: memoryview(bytearray(wire))),
                     ('list-bytearray', lambda: [bytearray(e) for e in encs])):
        buf = mk()
        got, ex = _try(Name.to_bytes, buf)
        n += 1
        if ex or bytes(got) != wire:
            yield 'Name.to_bytes', 'aliasing:' + kind, ex or 'wrong-wire', 'Name.to_bytes(%s) -> %r, spec %r' % (kind, ex or bytes(got), wire)
            continue
        for b in (buf if isinstance(buf, list) else [buf]):
            for i in range(len(b)):
                b[i] = 0x2a
        _, ex = _try(hash, got)
        if ex or bytes(got) != wire:
            yield 'Name.to_bytes', 'aliasing:' + kind, 'follows-the-callers-buffer' if not ex else 'unhashable', (
                'Name.to_bytes(%s): after the caller overwrote its buffer the result is %r (%s), spec %r' % (
                    kind, bytes(got), ex or 'hashable', wire))
    yield None, None, None, n


class OrderUndefined(Exception):
    """comparing two values the library returned raised: the order clause cannot even be evaluated on them"""


def lib_less(x, y, what):
    try:
        return x < y
    except TypeError as e:
        raise OrderUndefined('%s: %s' % (what, e))


FORM_NAMES = ('list', 'wire', 'uri', 'uri-shorthand', 'uri-typed-lowerhex', 'uri-nolead-trail', 'decoded-list', 'wire-bytearray')
FORM_COMBOS = [(a, b) for a in range(3) for b in range(3)]
N_ROT = 5


def alt_uri(jname, lead):
    """a NON-canonical spelling of the name, made by the harness from (t, v) only: every component with an explicit type
    number (also '8='), every byte percent-escaped in lower-case hex; with leading slash, or without it and with the
    optional trailing slash.  (That these spellings denote the name is law I_NameForms / stage B: styles typed, allesc.)"""
    if not jname:
        return '/' if lead else ''
    def esc(v):      # long values: only the first bytes are escaped needlessly, the rest as the grammar requires
        return ''.join('%%%02x' % b if i < 16 or not (48 <= b <= 57 or 65 <= b <= 90 or 97 <= b <= 122) else chr(b)
                       for i, b in enumerate(v))
    body = '/'.join('%d=%s' % (c['t'], esc(c['v'])) for c in jname)
    return '/' + body if lead else body + '/'


def _name_inputs(Name, Component, jname, how):
    """the same abstract name in one of the accepted input forms (FORM_NAMES); lists hold the library's own objects"""
    comps = [Component.from_bytes(bytes(c['v']), c['t']) for c in jname]
    if how == 0:
        return comps
    if how == 1:
        return Name.to_bytes(comps)
    if how == 2:
        return Name.to_canonical_uri(comps)
    if how == 3:
        return Name.to_str(comps)
    if how == 4:
        return alt_uri(jname, True)
    if how == 5:
        return alt_uri(jname, False)
    if how == 6:
        return Name.from_bytes(Name.to_bytes(comps))         # memoryview components, as in every received packet
    return bytearray(Name.to_bytes(comps))


def rot_forms(f, i, j):
    """argument forms of the f-th rotating is_prefix matrix for the pair (i, j): over a set of names every
    combination of the eight forms occurs, in particular two URI strings in different spellings"""
    return (i + f) % 8, (3 * i + j + 5 * f + 1) % 8


def matrices(jnames):
    """what the library / Python says about all pairs of a list of abstract names.
    Order and equality are evaluated on the LIBRARY'S OWN return values (no copies): constructed = Component.from_bytes
    results, parsed = Name.from_str(canonical URI), decoded = Name.from_bytes(wire) (memoryviews).  Python defines no
    order between two memoryviews, so for decoded x decoded the order clause is evaluated on bytes(component)
    (DESIGN 6/C09: "Python's ordering of bytes(component)"); every other combination uses the objects as returned.
    `prefix` holds one matrix per fixed combination of list / wire / URI arguments plus N_ROT rotating matrices that
    bring in shorthand and non-canonical URI spellings, decoded lists and bytearray wires on either side."""
    Name, Component = _lib()
    k = len(jnames)
    forms = [[_name_inputs(Name, Component, n, how) for how in range(8)] for n in jnames]
    kinds = [[forms[i][0], Name.from_str(forms[i][2]), forms[i][6]] for i in range(k)]

    def operands(i, j):
        a, b = (i + j) % 3, (i + 2 * j + 1) % 3
        x, y = kinds[i][a], kinds[j][b]
        if a == 2 and b == 2:
            x, y = [bytes(c) for c in x], [bytes(c) for c in y]
        return x, y
    less = [[False] * k for _ in range(k)]
    eq = [[False] * k for _ in range(k)]
    for i in range(k):
        for j in range(k):
            x, y = operands(i, j)
            less[i][j] = lib_less(x, y, 'names as returned by %s / %s' % (('Component.from_bytes', 'Name.from_str', 'Name.from_bytes')[(i + j) % 3], ('Component.from_bytes', 'Name.from_str', 'Name.from_bytes')[(i + 2 * j + 1) % 3]))
            eq[i][j] = (kinds[i][(i + j) % 3] == kinds[j][(i + 2 * j + 1) % 3])
    cat = [b''.join(kinds[i][i % 3]) for i in range(k)]
    prefix = [[[bool(Name.is_prefix(forms[i][a], forms[j][b])) for j in range(k)] for i in range(k)] for a, b in FORM_COMBOS]
    for f in range(N_ROT):
        prefix.append([[bool(Name.is_prefix(forms[i][rot_forms(f, i, j)[0]], forms[j][rot_forms(f, i, j)[1]]))
                        for j in range(k)] for i in range(k)])
    return {'less': less, 'vless': [[cat[i] < cat[j] for j in range(k)] for i in range(k)], 'eq': eq, 'prefix': prefix}


def replay_sorted_names(rec):
    """rec: {names (sorted by the reference NameLess), prefix[i] = [j...]} from Mode=pair."""
    names = rec['names']
    m = matrices(names)
    k = len(names)
    bad = {}
    for i in range(k):
        pre = {j - 1 for j in rec['prefix'][i]}
        for j in range(k):
            for field, want in (('less', i < j), ('vless', i < j), ('eq', i == j)):
                if m[field][i][j] != want and field not in bad:
                    bad[field] = 'a=%s b=%s: library %s=%s, reference %s' % (
                        json.dumps(names[i]), json.dumps(names[j]), field, m[field][i][j], want)
            for f in range(len(m['prefix'])):
                a, b = FORM_COMBOS[f] if f < len(FORM_COMBOS) else rot_forms(f - len(FORM_COMBOS), i, j)
                if m['prefix'][f][i][j] != (j in pre) and 'prefix' not in bad:
                    bad['prefix'] = 'is_prefix(a as %s, b as %s) a=%s b=%s: library %s, reference %s' % (
                        FORM_NAMES[a], FORM_NAMES[b], json.dumps(names[i]), json.dumps(names[j]),
                        m['prefix'][f][i][j], j in pre)
    return bad, (3 + len(m['prefix'])) * k * k


def replay_sorted_comps(rec):
    Name, Component = _lib()
    cs = [Component.from_bytes(bytes(c['v']), c['t']) for c in rec['comps']]          # the library's objects, not copies
    ps = [Component.from_str(Component.to_canonical_uri(c)) for c in cs]
    bad = {}
    for i in range(len(cs)):
        for j in range(len(cs)):
            a, b = (cs, ps)[(i + j) % 2][i], (cs, ps)[j % 2][j]
            if ((lib_less(a, b, 'components as returned by Component.from_bytes / from_str') != (i < j) or (a == b) != (i == j)
                 or lib_less(b, a, 'components as returned by Component.from_bytes / from_str') != (i > j)) and 'cless' not in bad):
                bad['cless'] = 'bytes order of %r vs %r disagrees with the reference (ranks %d, %d)' % (a, b, i, j)
    return bad, 3 * len(cs) ** 2


# ------------------------------------------------------------------------------------------ stage C recorders

NAME_INPUTS = ('constructed', 'bytes-list', 'decoded', 'wire', 'wire-bytearray', 'uri-shorthand', 'uri-typed-lowerhex',
               'uri-nolead-trail')


def record_name(jname, how=0):
    """library outputs for the abstract name jname = [{t, v}], the name being handed to the printing functions as
    NAME_INPUTS[how]: the constructors' own objects, bytes copies, the memoryview components of the decoded wire,
    the wire itself, or a URI string in shorthand / non-canonical spelling"""
    Name, Component = _lib()
    comps = [Component.from_bytes(bytes(c['v']), c['t']) for c in jname]
    kind = NAME_INPUTS[how]
    if kind == 'constructed':
        arg, parts = comps, comps
    elif kind == 'bytes-list':
        arg = parts = [bytes(c) for c in comps]
    elif kind == 'decoded':
        arg = parts = Name.from_bytes(Name.to_bytes(comps))
    elif kind in ('wire', 'wire-bytearray'):
        arg = Name.to_bytes(comps) if kind == 'wire' else bytearray(Name.to_bytes(comps))
        parts = Name.from_bytes(arg)
    else:
        arg = Name.to_str(comps) if kind == 'uri-shorthand' else alt_uri(jname, kind == 'uri-typed-lowerhex')
        parts = Name.normalize(arg)
    if len(parts) != len(jname):          # cstr/ccanon are per component of n: report through the name-level clauses
        parts = comps
    rec = {'k': 'name', 'n': jname,
           'to_str': codes(Name.to_str(arg)), 'canon': codes(Name.to_canonical_uri(arg)),
           'cstr': [codes(Component.to_str(c)) for c in parts],
           'ccanon': [codes(Component.to_canonical_uri(c)) for c in parts],
           'wire': list(Name.to_bytes(arg))}
    if how:
        rec['inp'] = kind
    return rec


def record_name_aliased(jname):
    """same projection as record_name, but every output is computed from the URI STRING of the name after a
    caller normalised that string and mutated the returned list in place (conversions must be history-free)"""
    Name, Component = _lib()
    comps = [Component.from_bytes(bytes(c['v']), c['t']) for c in jname]
    uri = Name.to_canonical_uri(comps)
    for conv in (Name.normalize, Name.from_str):
        got = conv(uri)
        _mutate_result(got, True)
    again = Name.normalize(uri)
    if len(again) != len(jname):          # cstr/ccanon are per component of n: report through the name-level clauses
        again = comps
    return {'k': 'name', 'alias': True, 'n': jname,
            'to_str': codes(Name.to_str(uri)), 'canon': codes(Name.to_canonical_uri(uri)),
            'cstr': [codes(Component.to_str(c)) for c in again],
            'ccanon': [codes(Component.to_canonical_uri(c)) for c in again],
            'wire': list(Name.to_bytes(uri))}


def record_esc(s):
    """one component string: escape_str, the Name-level reading (str element of a list) and - unescaped, whatever
    characters it holds - Component.from_str"""
    Name, Component = _lib()
    esc = Component.escape_str(s)

    def ans(got, ex):
        if ex:
            return {'k': 'err', 'c': {'t': 0, 'v': []}}
        return {'k': 'ok', 'c': {'t': Component.get_type(got), 'v': list(bytes(Component.get_value(got)))}}
    got, ex = _try(Name.normalize, [s])
    lib = ans(got[0] if not ex else None, ex)
    return {'k': 'esc', 'raw': codes(s), 'esc': codes(esc), 'lib': lib, 'comp': ans(*_try(Component.from_str, s))}


def _lib_name(call, s):
    Name, Component = _lib()
    got, ex = _try(call, s)
    if ex:
        return {'k': 'err', 'n': []}
    return {'k': 'ok', 'n': [{'t': Component.get_type(c), 'v': list(bytes(Component.get_value(c)))} for c in got]}


def record_uri(s):
    """an arbitrary Name URI string (raw non-ASCII characters allowed) read by Name.from_str / Name.normalize"""
    Name, Component = _lib()
    return {'k': 'uri', 'raw': codes(s), 'lib': _lib_name(Name.from_str, s), 'norm': _lib_name(Name.normalize, s)}


def record_pairs(jnames):
    r = {'k': 'pairs', 'names': jnames}
    r.update(matrices(jnames))
    return r


def record_cpairs(jcomps):
    Name, Component = _lib()
    cs = [Component.from_bytes(bytes(c['v']), c['t']) for c in jcomps]            # compared as returned, no copies
    ps = [Component.from_str(Component.to_str(c)) for c in cs]
    pick = lambda i, j: ((cs, ps)[(i + j) % 2][i], (cs, ps)[j % 2][j])
    return {'k': 'cpairs', 'comps': jcomps,
            'less': [[lib_less(pick(i, j)[0], pick(i, j)[1], 'components as returned by Component.from_bytes / from_str')
                      for j in range(len(cs))] for i in range(len(cs))]}


def lib_fn_of(e):
    fn = 'library'
    for fr in traceback.extract_tb(e.__traceback__):
        if '/ndn/' in fr.filename:
            fn = '%s.%s' % (os.path.basename(fr.filename)[:-3], fr.name)
    return fn


def guarded(ctx, stage, f, *args):
    """call a stage-B replay; an exception escaping the library is a violation, not a machinery failure"""
    try:
        return f(*args)
    except OrderUndefined as e:
        ctx.violation('C09/order(library objects)/general/raises-TypeError', '%s: %s' % (stage, e), {'kind': stage, 'what': str(e)})
        return None
    except Exception as e:  # noqa
        if lib_fn_of(e) == 'library':
            raise
        ctx.violation('C09/%s/general/raises-%s' % (lib_fn_of(e), type(e).__name__),
                      '%s: %s raised %s: %s' % (stage, lib_fn_of(e), type(e).__name__, e), {'kind': stage, 'what': str(e)})
        return None


def safe(ctx, recorder, arg, slim):
    """run a recorder; an exception escaping the library on a library-produced value is itself a violation"""
    try:
        return recorder(arg)
    except OrderUndefined as e:
        ctx.violation('C09/order(library objects)/general/raises-TypeError', 'C: %s' % e, {'kind': 'judge', 'clause': 'raises', 'input': slim})
        return None
    except Exception as e:  # noqa
        fn = 'library'
        for fr in traceback.extract_tb(e.__traceback__):
            if '/ndn/' in fr.filename:
                fn = '%s.%s' % (os.path.basename(fr.filename)[:-3], fr.name)
        cls = ('after-caller-mutation' if slim.get('alias') else
               'input:' + NAME_INPUTS[slim['inp']] if isinstance(slim.get('inp'), int) and slim['inp'] else
               'noncanonical-typed-number' if slim.get('k') == 'name' and odd_number(slim['n']) else 'general')
        ctx.violation('C09/%s/%s/raises-%s' % (fn, cls, type(e).__name__),
                      'C: %s raised %s: %s while printing/comparing %s' % (fn, type(e).__name__, e, json.dumps(slim)[:600]),
                      {'kind': 'judge', 'clause': 'raises', 'input': slim})
        return None


# ------------------------------------------------------------------------------------------ random inputs

BOUNDARY_NUMS = [0, 1, 255, 256, 65535, 65536, 2 ** 32 - 1, 2 ** 32, 2 ** 63, 2 ** 64 - 1]
RESERVED = b'/%=.~-_ :?#[]@!$&\'()*+,;\x00\x7f\x80\xff'


def pack_num(n):
    w = 1 if n < 1 << 8 else 2 if n < 1 << 16 else 4 if n < 1 << 32 else 8
    return n.to_bytes(w, 'big')


def rand_value(rng, t, allow_odd):
    x = rng.random()
    if t in ALT:
        if x < 0.75 or not allow_odd:
            n = rng.choice(BOUNDARY_NUMS) if rng.random() < 0.4 else rng.getrandbits(rng.choice([3, 8, 9, 16, 17, 32, 33, 63, 64]))
            return pack_num(n)
        # not a canonical number: wrong width or padded
        return rng.choice([b'', rng.randbytes(3), b'\x00' + rng.randbytes(1), b'\x00\x00' + rng.randbytes(2),
                           rng.randbytes(rng.choice([5, 6, 7, 9, 12])), b'\x00' * 4 + rng.randbytes(4)])
    if t in (1, 2) and x < 0.6:
        return rng.randbytes(32)
    if x < 0.12:
        return b''
    if x < 0.50:
        return rng.randbytes(rng.randint(1, 6))
    if x < 0.65:
        return bytes(rng.choice(b'abcXYZ019-._~') for _ in range(rng.randint(1, 10)))
    if x < 0.85:
        return bytes(rng.choice(RESERVED) for _ in range(rng.randint(1, 5)))
    if x < 0.86:
        # long value around the 1-/3-byte TLV length boundary; mostly literal characters
        n = rng.choice([252, 253, 255, 256, 300])
        return bytes(rng.choice(b'abcdefghijklmnopqrstuvwxyz0123456789') if rng.random() < 0.97 else rng.randrange(256)
                     for _ in range(n))
    if x < 0.94:
        return rng.choice(['é', 'Σπ', '名', '😀', 'seg=1', 'sha256digest=00', '8=a', '..', '...', '%41', '%2F', '%2f', '%zz',
                           'a%41b', '%25', '%2541']).encode()
    return rng.randbytes(rng.randint(7, 40))


def rand_type(rng):
    x = rng.random()
    if x < 0.40:
        return 8
    if x < 0.55:
        return rng.choice([1, 2, 32])
    if x < 0.75:
        return rng.choice(ALT)
    if x < 0.85:
        return rng.choice([252, 253, 254, 255, 256, 65534, 65535, 3, 7, 9, 49, 51, 59])
    return rng.randint(1, 65535)


def rand_name(rng, allow_odd, maxlen=8):
    k = rng.choice([0, 1, 1, 2, 2, 3, 3, 4, 5, 6, 7, 8][:maxlen + 4])
    out = []
    for _ in range(k):
        t = rand_type(rng)
        out.append({'t': t, 'v': list(rand_value(rng, t, allow_odd))})
    return out


def rand_related_names(rng, k):
    """k names sharing prefixes / differing in one component, so that order and prefix clauses bite"""
    base = rand_name(rng, True, maxlen=5)
    out = [base]
    while len(out) < k:
        src = [dict(c) for c in rng.choice(out)]
        op = rng.random()
        if op < 0.25 and src:
            src = src[:rng.randrange(len(src) + 1)]
        elif op < 0.5 and len(src) < 8:
            t = rand_type(rng)
            src.append({'t': t, 'v': list(rand_value(rng, t, True))})
        elif op < 0.8 and src:
            i = rng.randrange(len(src))
            c = src[i]
            v = bytearray(c['v'])
            w = rng.random()
            if w < 0.3 and v:
                v[rng.randrange(len(v))] = rng.randrange(256)
            elif w < 0.5:
                v.append(rng.randrange(256))
            elif w < 0.7 and v:
                v.pop()
            else:
                c['t'] = rand_type(rng)
            c['v'] = list(v)
        else:
            src = rand_name(rng, True, maxlen=5)
        out.append(src)
    return out


def rand_long_related(rng):
    """names whose encoded value crosses the 253-byte boundary (Length field of the Name TLV 1 -> 3 bytes) on one
    or both sides of a prefix pair: short stem, stem + long component, that + one more, a sibling differing in
    the last byte, an unrelated long name, the stem's first component alone"""
    stem = rand_name(rng, True, maxlen=2) or [{'t': 8, 'v': [97]}]
    stem = [c for c in stem if len(c['v']) < 100][:2] or [{'t': 8, 'v': [97]}]
    n = rng.choice([236, 244, 247, 248, 249, 250, 251, 252, 253, 256, 300])
    big = {'t': rng.choice([8, 8, 32, 253]), 'v': [rng.choice(b'abcdefghij0123456789') for _ in range(n)]}
    sib = {'t': big['t'], 'v': big['v'][:-1] + [big['v'][-1] ^ 1]}
    tail = {'t': 8, 'v': list(rng.randbytes(rng.randint(0, 4)))}
    return [stem, stem + [big], stem + [big, tail], stem + [sib], [big], stem[:1], stem + [tail], []]


UNI_WORDS = ['Алек', 'Bölter', 'x²', 'Σπυρίδων', '٣', '١٢٣', 'e\u0301', 'é', '名前', '😀', 'ß', 'ǅ', '①', 'Ⅷ', 'ａ１', '½',
             'naïve', 'Ω', 'ñ', '한글', 'i̇', '\u00a0', 'a\u200db', '·', 'º', 'ª', '𝟘', '𐐀']


# -- arbitrary Unicode characters in component text: the alphabet is every Unicode scalar value, drawn so that every general
#    category and every character that some str / re / int() predicate or transformation of Python takes for an ASCII
#    one (NFKC / case mapping to a CHARSET or reserved character, decimal / digit value) is likely to occur
_UNI = {}


def _uni_tables():
    if not _UNI:
        import unicodedata as ud
        by_cat, alike = {}, {}
        ascii_targets = set(map(chr, range(32, 127)))
        for cp in range(0x80, 0x110000):
            if 0xD800 <= cp <= 0xDFFF:
                continue
            ch = chr(cp)
            by_cat.setdefault(ud.category(ch), []).append(ch)
            looks = {ud.normalize('NFKC', ch), ch.lower(), ch.upper(), ch.casefold()}
            for d in (ud.decimal(ch, None), ud.digit(ch, None)):
                if d is not None:
                    looks.add(str(d))
            for a in looks & ascii_targets:
                alike.setdefault(a, []).append(ch)
        _UNI['cats'] = [by_cat[k] for k in sorted(by_cat)]
        _UNI['alike'] = alike
        _UNI['alike_all'] = sorted({c for v in alike.values() for c in v})
    return _UNI


def uni_char(rng, instead_of=None):
    """a non-ASCII character; instead_of = the ASCII character it replaces (then often one that passes for it)"""
    u = _uni_tables()
    x = rng.random()
    if x < 0.40:
        pool = u['alike'].get(instead_of) if instead_of is not None and rng.random() < 0.8 else None
        return rng.choice(pool or u['alike_all'])
    if x < 0.75:
        return rng.choice(rng.choice(u['cats']))
    if x < 0.88:
        return rng.choice(rng.choice(UNI_WORDS))
    cp = rng.randrange(0x80, 0x110000 - 0x800)
    return chr(cp if cp < 0xD800 else cp + 0x800)


def rand_wellformed_text(rng):
    """a well-formed ASCII component text of a random kind"""
    def value():
        return ''.join(rng.choice(['a', 'b', 'Z', 's', 'v', 't', '0', '1', '3', '9', '-', '.', '_', '~', '%41', '%C3%A9', '%2f', '%00'])
                       for _ in range(rng.randint(0, 5)))
    x = rng.random()
    if x < 0.30:
        return value() or 'a'
    if x < 0.50:
        return rng.choice(['8', '08', '32', '253', '65535', '1', '50', '7', '3']) + '=' + value()
    if x < 0.75:
        return rng.choice(['seg', 'off', 'v', 't', 'seq']) + '=' + str(rng.choice(BOUNDARY_NUMS + [3, 13, 33, rng.getrandbits(rng.randint(1, 64))]))
    return rng.choice(['sha256digest=', 'params-sha256=']) + rng.randbytes(rng.choice([0, 1, 2, 32])).hex()


def rand_uni_text(rng):
    """component strings with arbitrary Unicode characters in arbitrary positions: a well-formed text of any kind
    (generic / NN= / convention / digest, with escapes) in which 1..3 characters are replaced by a non-ASCII character
    (often a look-alike of the replaced one) or have one inserted next to them"""
    t = list(rand_wellformed_text(rng))
    for _ in range(rng.choice([1, 1, 1, 2, 2, 3])):
        if t and rng.random() < 0.55:
            i = rng.randrange(len(t))
            t[i] = uni_char(rng, t[i] if len(t[i]) == 1 and ord(t[i]) < 128 else None)
        else:
            t.insert(rng.randrange(len(t) + 1), uni_char(rng))
    return ''.join(t)


def rand_uri_text(rng):
    """Name URI strings as a user types them: raw non-ASCII characters (letters, digits, marks, symbols) as whole
    components and inside components, mixed with ASCII, typed/shorthand prefixes, escapes and every slash pattern"""
    def piece():
        x = rng.random()
        if x < 0.15:
            return rng.choice(UNI_WORDS)
        if x < 0.35:
            return rand_uni_text(rng).replace('/', '')
        if x < 0.50:
            return ''.join(rng.choice(UNI_WORDS + ['a', 'Z', '7', 'abc', '42']) for _ in range(rng.randint(2, 3)))
        if x < 0.62:
            return rng.choice(['32=', '8=', '253=', '65535=']) + rng.choice(UNI_WORDS)
        if x < 0.72:
            return rng.choice(UNI_WORDS) + rng.choice([' ', '-', '.', '_', '~', ':', '%41', '%C3%A9', '+', '@']) + rng.choice(UNI_WORDS + ['x'])
        if x < 0.80:
            return ''
        if x < 0.90:
            return rng.choice(['a', 'abc', 'A1', '42', 'seg=7', 'v=300', 'sha256digest=00ff', '..', '.', 'a b'])
        return rand_text(rng).replace('/', '')
    body = '/'.join(piece() for _ in range(rng.choice([0, 1, 1, 2, 2, 3, 4])))
    return rng.choice(['/', '/', '/', '']) + body + rng.choice(['', '', '', '/'])


ESC_POOL = ['a', 'B', '7', '-', '.', '_', '~', '=', '%', '%2', '%2F', '%zz', '%41', '/', ' ', ':', '?', '#', '\t',
            'é', '名', '😀', 'seg', 'seg=', 'off=', 'v=', 't=', 'seq=', 'sha256digest=', 'params-sha256=', '8=',
            '32=', '0=', '65535=', '65536=', '253=', '12', 'ab', 'AB', '0f', '\x00', '\x7f', '+', '..']


BODY_POOL = list('abcXYZ0189-._~ :?#[]@!$&\'()*+,;/\t') + ['é', '名', '😀', 'Σ', '%41', '%2F', '%2f', '%00', '%ff', '%25', '%3D',
                                                              '\x00', '\x7f', '..', 'seg', 'sha256digest']


def rand_text(rng):
    """component strings: mostly well-formed (so that both the library and the reference accept them), some junk"""
    x = rng.random()
    if x < 0.35:
        return ''.join(rng.choice(ESC_POOL) for _ in range(rng.randint(0, 6)))
    if x < 0.55:
        pre = rng.choice(['seg=', 'off=', 'v=', 't=', 'seq='])
        y = rng.random()
        if y < 0.5:
            return pre + str(rng.choice(BOUNDARY_NUMS + [rng.getrandbits(rng.randint(1, 64))]))
        if y < 0.7:
            return pre + '0' * rng.randint(1, 3) + str(rng.getrandbits(20))
        if y < 0.85:
            return pre + str(2 ** 64 + rng.getrandbits(8))
        return pre + rng.choice(['', 'x', '1.5', '-1', '1 ', '%31', '0x10', '١'])
    if x < 0.7:
        pre = rng.choice(['sha256digest=', 'params-sha256='])
        n = rng.choice([0, 1, 2, 32, 32, 33])
        h = rng.randbytes(n).hex()
        h = rng.choice([h, h.upper(), h.title(), h[:-1] if h else 'g', h + 'zz'])
        return pre + h
    pre = rng.choice(['', '', '', '', '8=', '08=', '32=', '253=', '65535=', '0=', '65536=', '1=', '50=', '7='])
    return pre + ''.join(rng.choice(BODY_POOL) for _ in range(rng.randint(0, 8)))


# ------------------------------------------------------------------------------------------ the check

FN_OF_CLAUSE = {'to_str': 'Name.to_str', 'canon': 'Name.to_canonical_uri', 'canon_shorthand': 'to_canonical_uri',
                'cstr': 'Component.to_str', 'ccanon': 'Component.to_canonical_uri', 'wire': 'Name.to_bytes',
                'esc_changes_component': 'Component.escape_str', 'esc_incomplete': 'Component.escape_str',
                'from_str': 'Name.normalize[str]', 'from_str_refused': 'Name.normalize[str]',
                'comp_from_str': 'Component.from_str', 'comp_from_str_refused': 'Component.from_str',
                'comp_from_str_alone': 'Component.from_str',
                'uri_from_str': 'Name.from_str', 'uri_from_str_refused': 'Name.from_str',
                'uri_normalize': 'Name.normalize(str)', 'uri_normalize_refused': 'Name.normalize(str)',
                'less': 'order(list-of-bytes)', 'vless': 'order(name-value-bytes)', 'eq': 'equality',
                'prefix': 'Name.is_prefix', 'cless': 'order(bytes(component))'}


def input_class(rec, clause=''):
    if rec['k'] == 'uri' or (rec['k'] == 'esc' and clause.startswith('comp_')):
        return 'raw-non-ascii' if any(b >= 128 for b in rec['raw']) else 'general'
    if rec.get('alias'):
        return 'after-caller-mutation'
    if rec.get('inp'):
        return 'input:' + (NAME_INPUTS[rec['inp']] if isinstance(rec['inp'], int) else rec['inp'])
    if rec['k'] == 'name':
        return 'noncanonical-typed-number' if odd_number(rec['n']) else 'general'
    return 'general'


def judge(ctx, recs, name, chunk=None, par=None):
    chunk = chunk or ctx.pick(1500, 4000)
    par = par or ctx.pick(4, 8)
    results, rejected = urikit.judge_batches('NameUriJudge', JUDGE_CFG, name, recs, chunk, par)
    for k, r in enumerate(results):
        ctx.add_tlc('NameUriJudge batch %d' % k, r)
    return rejected


def report_rejected(ctx, recs, rejected, stage):
    for i in sorted(rejected):
        rec = recs[i]
        for cl in rejected[i]:
            sig = 'C09/%s/%s/%s' % (FN_OF_CLAUSE.get(cl, cl), input_class(rec, cl), cl)
            slim = {k: rec[k] for k in ('k', 'alias', 'inp', 'n', 'raw', 'names', 'comps') if k in rec}
            ctx.violation(sig, '%s: reference rejects clause %s for %s' % (stage, cl, describe(rec)),
                          {'kind': 'judge', 'clause': cl, 'input': slim})


def describe(rec):
    if rec['k'] == 'name':
        return 'name %s: to_str=%r canonical=%r' % (json.dumps(rec['n']), txt(rec['to_str']), txt(rec['canon']))
    if rec['k'] == 'uri':
        return 'URI %r: from_str=%s normalize=%s' % (txt(rec['raw']), json.dumps(rec['lib']), json.dumps(rec['norm']))
    if rec['k'] == 'esc':
        return 'text %r: escape_str=%r Name.normalize([text])=%s Component.from_str(text)=%s' % (
            txt(rec['raw']), txt(rec['esc']), json.dumps(rec['lib']), json.dumps(rec.get('comp')))
    return json.dumps({k: rec[k] for k in ('names', 'comps') if k in rec})[:600]


def run(ctx):
    ctx.rule = ('one TLC state per input; B executes every enumerated component/name (all generated spellings, wire '
                'forms, input container types) and all pairs of the sorted domains on the library; C = library outputs '
                'judged by TLC. non-trivial = distinct component or name that needs at least one of: percent-escape, '
                'typed/shorthand syntax, 3-byte TLV number, empty component (slash rule); or a distinct random set of '
                'related names whose pairwise order/prefix matrix is judged; or a distinct enumerated component text with '
                'characters outside CHARSET that denotes a component')
    ctx.assumptions = ['TLC evaluates NameUri.tla faithfully; the URI grammar was transcribed from the docstrings of '
                       'ndn.encoding.Name / Component (no "additional periods" rule, as documented)',
                       'Python bytes/list comparison is lexicographic']
    t0 = time.time()
    nr = ctx.pick(15, 32)
    nq = ctx.pick(4, 7)
    pool = ThreadPoolExecutor(8)
    try:
        _run(ctx, pool, t0, nr, nq)
    finally:
        pool.shutdown(wait=True)
        for m in DUMPED:      # the state dumps are large (up to ~300 MB); everything else in build/ is small
            p = os.path.join(tlc.BUILD, 'c09-%s-%s.dump' % (m, ctx.tier))
            if os.path.exists(p):
                os.remove(p)


def _run(ctx, pool, t0, nr, nq):
    # the four exhaustive domains run concurrently with the (independent) random part of stage C
    wk = {'comp': ctx.pick(2, 4), 'name': ctx.pick(4, 10), 'pair': ctx.pick(2, 6), 'ord': 2, 'text': 2}
    np_ = ctx.pick(6, 20)       # non-ASCII characters combined pairwise in the text domain
    futs = {m: pool.submit(run_mode, ctx, m, nr, nq, wk[m], np_) for m in ('name', 'comp', 'text', 'pair', 'ord')}
    rnd, jrnd = [], None
    if 'C' in ctx.stages:
        rng = ctx.rng
        for q in range(ctx.pick(1800, 27000)):
            n = rand_name(rng, allow_odd=q % 6 == 0)
            how = q % len(NAME_INPUTS)           # every container type / spelling the printing functions may be given
            rnd.append(safe(ctx, lambda x, h=how: record_name(x, h), n, {'k': 'name', 'n': n, 'inp': how}))
        for L in (252, 253, 254, 255, 256, 300):        # component length at the 1-/3-byte TLV length boundary, read from TEXT
            for t in ('/' + 'a' * L, '/32=' + 'b' * L, '/x/' + 'c' * (L - 1) + '%2F', '/' + 'd' * (L - 2) + 'é'):
                rnd.append(safe(ctx, record_uri, t, {'k': 'uri', 'raw': codes(t)}))
        for _ in range(ctx.pick(300, 3000)):
            n = rand_name(rng, allow_odd=True)
            rnd.append(safe(ctx, record_name_aliased, n, {'k': 'name', 'alias': True, 'n': n}))
        for w in UNI_WORDS:             # every non-ASCII word as a whole component, as first / middle / last
            for t in ('/' + w, w, '/a/' + w + '/b', '/' + w + '/' + w + '/', '/8=' + w, '/' + w + 'x/y' + w):
                rnd.append(safe(ctx, record_uri, t, {'k': 'uri', 'raw': codes(t)}))
        for _ in range(ctx.pick(800, 8000)):
            t = rand_uri_text(rng)
            rnd.append(safe(ctx, record_uri, t, {'k': 'uri', 'raw': codes(t)}))
        for _ in range(ctx.pick(1200, 12000)):
            t = rand_text(rng)
            rnd.append(safe(ctx, record_esc, t, {'k': 'esc', 'raw': codes(t)}))
        for w in UNI_WORDS:             # every non-ASCII word handed to the component-level parser as it is
            for t in (w, '8=' + w, '32=a' + w, w + '%41', '%C3' + w, w + '=a', 'seg=' + w, 'sha256digest=' + w):
                rnd.append(safe(ctx, record_esc, t, {'k': 'esc', 'raw': codes(t)}))
        for _ in range(ctx.pick(1500, 20000)):
            t = rand_uni_text(rng)
            rnd.append(safe(ctx, record_esc, t, {'k': 'esc', 'raw': codes(t)}))
        for _ in range(ctx.pick(250, 3000)):
            ns = rand_related_names(rng, rng.randint(4, 9))
            rnd.append(safe(ctx, record_pairs, ns, {'k': 'pairs', 'names': ns}))
        for _ in range(ctx.pick(25, 250)):
            ns = rand_long_related(rng)
            rnd.append(safe(ctx, record_pairs, ns, {'k': 'pairs', 'names': ns}))
        for _ in range(ctx.pick(100, 1000)):
            cs = [c for n in rand_related_names(rng, 8) for c in n][:12]
            if cs:
                rnd.append(safe(ctx, record_cpairs, cs, {'k': 'cpairs', 'comps': cs}))
        n_all = len(rnd)
        rnd = [r for r in rnd if r is not None]
        ctx.traces += n_all - len(rnd)
        for r in rnd:
            if r['k'] == 'name' and any(c['t'] != 8 or not c['v'] for c in r['n']):
                ctx.nt(['n', r['n']])
            elif r['k'] == 'pairs':
                ctx.nt(['p', r['names']])
        ctx.sample({'kind': 'C-name', 'n': rnd[3]['n'], 'to_str': txt(rnd[3]['to_str'])})
        ctx.note('C: %d random records produced (t=%.0fs)' % (len(rnd), time.time() - t0))
        jrnd = pool.submit(urikit.judge_batches, 'NameUriJudge', JUDGE_CFG, 'c09-c-%s' % ctx.tier, rnd,
                           ctx.pick(800, 3000), ctx.pick(4, 8))
    outs = {}

    def collect(mode):
        mode, r, out = futs[mode].result()
        ctx.add_tlc('NameUriMC Mode=%s NR=%d NQ=%d' % (mode, nr, nq), r)
        outs[mode] = out
        if r.violated:
            ctx.violation('C09/spec/%s' % r.violated, 'TLC: law %s fails on the reference (Mode=%s)' % (r.violated, mode),
                          {'kind': 'spec', 'trace': r.errtrace})
        ctx.note('A %s: %d inputs, laws %s hold (tlc %.0fs, t=%.0fs)' % (
            mode, r.distinct // 2, ','.join(MODES[mode]), r.wall, time.time() - t0))

    collect('comp')
    comp_recs = [s['out'] for s in urikit.read_dump(outs['comp'], ('out',)) if isinstance(s.get('out'), dict)]
    if not comp_recs:
        raise tlc.MachineryError('no component records in the TLC dump')
    sweep, jsweep = [], None
    if 'C' in ctx.stages:
        # sweep: the library's printing of every enumerated component, judged by parse-back
        sweep = [safe(ctx, lambda x, h=q % len(NAME_INPUTS): record_name(x, h), [{'t': rec['t'], 'v': rec['v']}],
                      {'k': 'name', 'n': [{'t': rec['t'], 'v': rec['v']}], 'inp': q % len(NAME_INPUTS)})
                 for q, rec in enumerate(comp_recs)]
        ctx.traces += sum(1 for r in sweep if r is None)
        sweep = [r for r in sweep if r is not None]
        jsweep = pool.submit(urikit.judge_batches, 'NameUriJudge', JUDGE_CFG, 'c09-s-%s' % ctx.tier, sweep, 3000, 2)
    if 'B' in ctx.stages:
        nb = 0
        for rec in comp_recs:
            nb += 1
            for fn, style, obs, detail in guarded(ctx, 'B-comp', lambda r: list(replay_comp(r)), rec) or ():
                if fn is None:
                    ctx.evaluations += detail
                    continue
                ctx.violation('C09/%s/%s/%s' % (fn, style, obs), 'B comp: ' + detail,
                              {'kind': 'B-comp', 'rec': rec, 'fn': fn, 'style': style})
            if rec['t'] != 8 or any(len(f['s']) != len(rec['v']) for f in rec['forms'] if f['k'] == 'canonU'):
                ctx.nt(['c', rec['t'], rec['v']])
        ctx.sample({'kind': 'B-comp', 't': comp_recs[7]['t'], 'v': comp_recs[7]['v'],
                    'forms': {f['k']: txt(f['s']) for f in comp_recs[7]['forms']}})
    collect('text')
    text_recs = [s['out'] for s in urikit.read_dump(outs['text'], ('out',)) if isinstance(s.get('out'), dict)]
    if not text_recs:
        raise tlc.MachineryError('no text records in the TLC dump')
    tsweep, jtsweep = [], None
    if 'C' in ctx.stages:
        # the enumerated texts through escape_str / Name.normalize / Component.from_str, judged by NameUriJudge
        tsweep = [safe(ctx, record_esc, txt(rec['s']), {'k': 'esc', 'raw': rec['s']}) for rec in text_recs]
        ctx.traces += sum(1 for r in tsweep if r is None)
        tsweep = [r for r in tsweep if r is not None]
        jtsweep = pool.submit(urikit.judge_batches, 'NameUriJudge', JUDGE_CFG, 'c09-t-%s' % ctx.tier, tsweep, 4000, 2)
    nt = 0
    if 'B' in ctx.stages:
        for rec in text_recs:
            nt += 1
            for fn, style, obs, detail in guarded(ctx, 'B-text', lambda r: list(replay_text(r)), rec) or ():
                if fn is None:
                    ctx.evaluations += detail
                    continue
                ctx.violation('C09/%s/%s/%s' % (fn, style, obs), 'B text: ' + detail,
                              {'kind': 'B-text', 'rec': rec, 'fn': fn, 'style': style})
            if rec['loose']['k'] == 'ok' and rec['strict']['k'] == 'err':
                ctx.nt(['t', rec['s']])
        ctx.traces += nt
        ctx.sample({'kind': 'B-text', 'text': txt(text_recs[len(text_recs) // 2]['s']),
                    'strict': text_recs[len(text_recs) // 2]['strict']['k'], 'loose': text_recs[len(text_recs) // 2]['loose']})
        ctx.note('B: %d component texts given to Component.from_str / Name.normalize / Name.from_str / Name.to_bytes (t=%.0fs)'
                 % (nt, time.time() - t0))
    collect('pair')
    collect('ord')
    if 'B' in ctx.stages:
        with open(outs['pair']) as f:
            prec = json.loads(f.readline())
        bad, ne = guarded(ctx, 'B-pair', replay_sorted_names, prec) or ({}, 0)
        ctx.evaluations += ne
        for field, what in bad.items():
            ctx.violation('C09/%s/general/%s' % (FN_OF_CLAUSE[field], field), 'B pair: ' + what, {'kind': 'B-pair', 'what': what})
        with open(outs['ord']) as f:
            orec = json.loads(f.readline())
        bad, ne = guarded(ctx, 'B-ord', replay_sorted_comps, orec) or ({}, 0)
        ctx.evaluations += ne
        for field, what in bad.items():
            ctx.violation('C09/%s/general/%s' % (FN_OF_CLAUSE[field], field), 'B ord: ' + what, {'kind': 'B-ord', 'what': what})
    collect('name')
    if 'B' in ctx.stages:
        nn = 0
        for s in urikit.read_dump(outs['name'], ('out',)):
            rec = s.get('out')
            if not isinstance(rec, dict):
                continue
            nn += 1
            for fn, style, obs, detail in guarded(ctx, 'B-name', lambda r: list(replay_name(r)), rec) or ():
                if fn is None:
                    ctx.evaluations += detail
                    continue
                ctx.violation('C09/%s/%s/%s' % (fn, style, obs), 'B name: ' + detail,
                              {'kind': 'B-name', 'rec': rec, 'fn': fn, 'style': style})
            for fn, style, obs, detail in guarded(ctx, 'B-alias', lambda r: list(replay_alias(r)), rec) or ():
                if fn is None:
                    ctx.evaluations += detail
                    continue
                ctx.violation('C09/%s/%s/%s' % (fn, style, obs), 'B alias: ' + detail,
                              {'kind': 'B-alias', 'rec': rec, 'fn': fn, 'style': style})
            if any(c['t'] != 8 or not c['v'] for c in rec['n']):
                ctx.nt(['n', rec['n']])
            if nn == 500:
                ctx.sample({'kind': 'B-name', 'n': rec['n'], 'forms': sorted({txt(f['s']) for f in rec['forms']})})
        if not nn:
            raise tlc.MachineryError('no name records in the TLC dump')
        ctx.traces += nb + nn + len(prec['names']) ** 2 + len(orec['comps']) ** 2
        ctx.note('B: %d components, %d names replayed in every generated spelling/container; %d name pairs, '
                 '%d component pairs (t=%.0fs)' % (nb, nn, len(prec['names']) ** 2, len(orec['comps']) ** 2, time.time() - t0))
    if 'C' in ctx.stages:
        for label, recs, fut in (('random', rnd, jrnd), ('enumerated components', sweep, jsweep),
                                 ('enumerated texts', tsweep, jtsweep)):
            results, rejected = fut.result()
            for k, r in enumerate(results):
                ctx.add_tlc('NameUriJudge %s batch %d' % (label, k), r)
            ctx.traces += len(recs)
            ctx.evaluations += len(recs)
            ctx.note('C: %d %s records judged by TLC, %d rejected (t=%.0fs)' % (len(recs), label, len(rejected), time.time() - t0))
            report_rejected(ctx, recs, rejected, 'C')


def replay(ctx, path):
    with open(path) as f:
        obj = json.load(f)
    kind = obj.get('kind')
    if kind == 'judge':
        inp = obj['input']
        try:
            if inp['k'] == 'name':
                how = inp.get('inp') or 0
                how = NAME_INPUTS.index(how) if isinstance(how, str) else how
                rec = record_name_aliased(inp['n']) if inp.get('alias') else record_name(inp['n'], how)
            elif inp['k'] == 'esc':
                rec = record_esc(txt(inp['raw']))
            elif inp['k'] == 'uri':
                rec = record_uri(txt(inp['raw']))
            elif inp['k'] == 'pairs':
                rec = record_pairs(inp['names'])
            else:
                rec = record_cpairs(inp['comps'])
        except Exception as e:  # noqa
            print('library raised %s: %s on %s' % (type(e).__name__, e, json.dumps(inp)[:800]))
            return 1
        print(describe(rec))
        rej = judge(ctx, [rec], 'c09-replay', chunk=10, par=1)
        print('rejected clauses: %s' % rej[0] if rej else 'accepted by the reference')
        return 1 if rej else 0
    if kind == 'B-comp':
        bad = [x for x in replay_comp(obj['rec']) if x[0]]
    elif kind == 'B-text':
        bad = [x for x in replay_text(obj['rec']) if x[0]]
    elif kind == 'B-name':
        bad = [x for x in replay_name(obj['rec']) if x[0]]
    elif kind == 'B-alias':
        bad = [x for x in replay_alias(obj['rec']) if x[0]]
    else:
        print(json.dumps(obj, indent=1)[:4000])
        return 0
    for fn, style, obs, detail in bad:
        print('%s [%s] %s: %s' % (fn, style, obs, detail))
    print('mismatch' if bad else 'no mismatch')
    return 1 if bad else 0
