"""X03 (extra check; not one of the listed properties, not in MANIFEST.json): subsystems no other specification covers.

 (a) stand-alone validators (ndn/security/validator/digest_validator.py, known_key_validator.py)
     spec/Validators.tla (decision operators + design-level statements), ValidatorsMC.tla (case space), ValidatorsJudge.tla
     A  TLC enumerates the case space (checker description x packet description, by family); the design-level
        statements (sound + complete key checkers, no tampered packet accepted, wrong key never accepts, digest /
        params rules, union = ordered conjunction, monotone, deviations bounded) are invariants; witnesses = vacuity.
     B  every enumerated case is built as real bytes (harness/valkit.py) and the real checker is awaited on it.
     C  random larger cases judged by TLC (ValidatorsJudge).
 (b) keychain register (ndn/app_support/keychain_register.py): spec/KcRegister.tla, harness/kcregkit.py
 (c) face life cycle (ndn/transport/dummy_face.py, udp_face.py, face.py): spec/FaceLife.tla, harness/facekit.py
"""
import hashlib, json, os, random, time

from harness import tlc, urikit, valkit
from harness.vloop import Session

INVS = ['I_Total', 'I_KeySoundComplete', 'I_NoTamperAccepted', 'I_WrongKey', 'I_VerifyFn', 'I_Digest', 'I_Params',
        'I_Union', 'I_DevBounded', 'I_Nested']
JUDGE_CFG = 'ValidatorsJudge.cfg'
PARTS = ('val', 'kcreg', 'face')


def nontrivial(c, p):
    fn = c['fn']
    if fn in valkit.KEYTYPES:
        return p['decl'] == fn and p['loc'] in ('K', 'Kext')
    if fn.startswith('v_'):
        return True
    if fn == 'digest':
        return p['decl'] == 'digest'
    if fn == 'params':
        return p['digest'] != 'absent'
    return len(c['mem']) >= 2


def case_seed(seed, p, v):
    h = hashlib.sha1(('%d|%d|' % (seed, v) + json.dumps(p, sort_keys=True)).encode()).digest()
    return int.from_bytes(h[:6], 'big')


def base_of(p):
    return {k: p[k] for k in ('kind', 'decl', 'alg', 'skey', 'loc', 'params', 'dpos')}


def report(ctx, stage, world, c, p, exp, obs, seeds, size, wire):
    sig = valkit.signature(c, p, exp, obs)
    what = ('%s: %s on %s: the model says %s, the library %s; checker %s, packet %s, key name %s%s' % (
        stage, valkit.fn_name(c), valkit.case_class(c, p), json.dumps(exp), json.dumps(obs), json.dumps(c), json.dumps(p),
        world.kuri, ', wire %s' % wire.hex() if wire is not None and len(wire) <= 300 else ''))
    ctx.violation(sig, what, replay_obj(ctx, world, c, p, seeds, size))


def replay_obj(ctx, world, c, p, seeds, size):
    return {'kind': 'val', 'seed': ctx.seed, 'K': world.kuri, 'c': c, 'p': p, 'bs': seeds[0], 'cs': seeds[1], 'size': size}


def norm_p(p):
    p = dict(p)
    p['integ'] = sorted(p['integ'])
    return p


def validators(ctx):
    t0 = time.perf_counter()
    thorough = 'FALSE' if ctx.quick else 'TRUE'
    cfg = os.path.join(tlc.BUILD, 'ValidatorsMC_%s.cfg' % ctx.tier)
    tlc.write_cfg(cfg, constants={'Thorough': thorough}, invariants=INVS, constraints=['MarkW'], postcondition='PostW')
    dump = os.path.join(tlc.BUILD, 'x03-val-%s.dump' % ctx.tier)
    # one worker: the witness registers (TLCSet) are per worker
    r = tlc.run('ValidatorsMC', cfg, workers=1, heavy=not ctx.quick, extra=['-dump', dump], tag='x03val', timeout=1500)
    ctx.add_tlc('ValidatorsMC Thorough=%s' % thorough, r)
    if r.violated == 'postcondition' or 'VACUOUS' in r.out:
        raise tlc.MachineryError('vacuous: a witness of ValidatorsMC is not in the case space:\n%s' % r.out[-1500:])
    if r.violated:
        ctx.violation('X03/spec/Validators/%s' % r.violated, 'TLC: design-level statement %s fails on the decision model' % r.violated,
                      {'kind': 'spec', 'trace': r.errtrace})
    ctx.note('val A: %d cases enumerated, %d statements hold, 10 witnesses present (tlc %.0fs)' % (r.distinct, len(INVS), r.wall))
    keys = valkit.Keys(ctx.seed)
    ctx.note('val: keys generated from the seed (t=%.0fs)' % (time.perf_counter() - t0))
    try:
        with Session() as sess:
            if 'B' in ctx.stages:
                stage_b(ctx, sess, keys, dump, t0)
            if 'C' in ctx.stages:
                stage_c(ctx, sess, keys, t0)
    finally:
        if os.path.exists(dump):
            os.remove(dump)


def stage_b(ctx, sess, keys, dump, t0):
    world = valkit.World(keys, sess, rng=random.Random(ctx.seed))
    nv = ctx.pick(2, 3)
    cache, n, fams, devs = {}, 0, {}, {}
    devseen = {'repaired': 0, 'old-behaviour': 0, 'neither': 0}
    sampled = set()
    for st in urikit.read_dump(dump, ('fam', 'c', 'p', 'out')):
        c, p, out = st['c'], norm_p(st['p']), st['out']
        fams[st['fam']] = fams.get(st['fam'], 0) + 1
        if nontrivial(c, p):
            ctx.nt([c, p])
        if out['old'] != out['v']:
            devs[out['old']] = devs.get(out['old'], 0) + 1
        pj = json.dumps(p, sort_keys=True)
        for v in range(nv):
            ent = cache.get((pj, v))
            if ent is None:
                cs = (case_seed(ctx.seed, base_of(p), v), case_seed(ctx.seed, p, v))
                wire = world.build(p, cs[0], cs[1])
                ent = cache[(pj, v)] = (cs, wire) + world.parse(wire)
            cs, wire, name, sig = ent
            n += 1
            if name is None:
                ctx.violation('X03/parse/%s/%s' % ('interest' if p['kind'] == 'I' else 'data', valkit.integ_class(p)),
                              'B: the library does not parse the packet built for %s: %s (wire %s)' % (json.dumps(p), sig, wire[:300].hex()),
                              replay_obj(ctx, world, c, p, cs, 'mix'))
                continue
            obs = world.observe(c, name, sig)
            if out['old'] != out['v']:
                # a situation in which the unrepaired code raised (DevLateKeyImport / DevNoSigValue): strict now
                devseen['repaired' if obs['v'] == out['v'] else 'old-behaviour' if obs['v'] == out['old'] else 'neither'] += 1
            if obs['calls'] != out['calls'] or obs['v'] != out['v']:
                report(ctx, 'B', world, c, p, {'v': out['v'], 'calls': out['calls']}, obs, cs, 'mix', wire)
            if st['fam'] not in sampled and obs == {'v': out['v'], 'calls': out['calls']} and out['v'] == 'accept' and len(wire) < 400:
                sampled.add(st['fam'])
                ctx.sample({'stage': 'B', 'family': st['fam'], 'checker': c, 'packet': p, 'wire': wire.hex(), 'model': out, 'library': obs})
    if not n:
        raise tlc.MachineryError('no states in the TLC dump')
    ctx.traces += n
    ctx.evaluations += n
    ctx.extra['val_B_cases'] = n
    ctx.extra['val_B_packets_built'] = len(cache)
    ctx.extra['val_B_deviation_cases'] = devs
    ctx.extra['val_B_deviation_behaviour_seen'] = devseen
    ctx.note('val B: %d cases (%s; %d variants each) on %d packets built; cases where the unrepaired code raised %s, library now %s (t=%.0fs)' % (
        n, ', '.join('%s %d' % kv for kv in sorted(fams.items())), nv, len(cache), devs, devseen, time.perf_counter() - t0))


def stage_c(ctx, sess, keys, t0):
    rng = ctx.rng
    recs, meta = [], []
    nworlds, npool, npk = ctx.pick((6, 10, 40), (30, 16, 80))
    sizes = ['mix'] * 6 + ['edge'] * 3 + ['big']
    for w in range(nworlds):
        world = valkit.World(keys, sess, kname=valkit.KEY_NAMES[w % len(valkit.KEY_NAMES)], rng=random.Random(rng.getrandbits(32)))
        pool = [valkit.rand_checker(rng) for _ in range(npool)]
        pairs = [(c, valkit.rand_packet(rng, aim=valkit.first_keyed(c))) for c in pool for _ in range(npk)]
        rng.shuffle(pairs)                     # the checker objects (cached in the world) are used alternately
        for c, p in pairs:
            # (base seeds from a small pool: several tampers / checkers meet the same genuine packet)
            cs, size = (rng.randrange(150), rng.getrandbits(48)), rng.choice(sizes)
            wire = world.build(p, cs[0], cs[1], size)
            name, sig = world.parse(wire)
            if name is None:
                ctx.violation('X03/parse/%s/%s' % ('interest' if p['kind'] == 'I' else 'data', valkit.integ_class(p)),
                              'C: the library does not parse the packet built for %s: %s' % (json.dumps(p), sig),
                              replay_obj(ctx, world, c, p, cs, size))
                continue
            obs = world.observe(c, name, sig)
            recs.append({'c': c, 'p': p, 'obs': obs})
            meta.append((world, cs, size, len(wire)))
            if nontrivial(c, p):
                ctx.nt([c, p])
    ctx.sample({'stage': 'C', 'checker': recs[0]['c'], 'packet': recs[0]['p'], 'library': recs[0]['obs'], 'bytes': meta[0][3]})
    results, rejected = urikit.judge_batches('ValidatorsJudge', JUDGE_CFG, 'x03-c-%s' % ctx.tier, recs, ctx.pick(3000, 5000), ctx.pick(2, 6))
    for k, r in enumerate(results):
        ctx.add_tlc('ValidatorsJudge batch %d' % k, r)
    ctx.traces += len(recs)
    ctx.evaluations += len(recs)
    big = sum(1 for m in meta if m[3] > 65536)
    ctx.extra['val_C_cases'] = len(recs)
    ctx.extra['val_C_over_64k'] = big
    ctx.note('val C: %d cases in %d worlds judged by TLC, %d rejected; %d packets over 65536 bytes, %d accepts (t=%.0fs)' % (
        len(recs), nworlds, len(rejected), big, sum(1 for x in recs if x['obs']['v'] == 'accept'), time.perf_counter() - t0))
    for i in sorted(rejected):
        rec, (world, cs, size, _) = recs[i], meta[i]
        exp = expected_from(rejected[i], rec['obs'])
        if exp is None:
            raise tlc.MachineryError('ValidatorsJudge: %s for %s' % (rejected[i], json.dumps(rec)))
        report(ctx, 'C', world, rec['c'], rec['p'], exp, rec['obs'], cs, size, None)


def expected_from(clauses, obs):
    exp = dict(obs)
    for cl in clauses:
        if cl.startswith('exp_'):
            exp['v'] = cl[4:]
        elif cl.startswith('calls_'):
            exp['calls'] = int(cl[6:])
        else:
            return None
    return exp


def run(ctx):
    ctx.rule = ('val: one TLC state per (checker description, packet description); B builds every state as real bytes '
                '(genuine packet from make_data / make_interest + real signer, then byte surgery) and awaits the real checker; '
                'C = random larger cases judged by TLC. non-trivial = distinct case that reaches the cryptographic / digest '
                'comparison (announced type and KeyLocator pass, or a verify_* call, or a digest component present) or a union '
                'of >= 2 members. kcreg / face: see the notes')
    ctx.assumptions = ['the Cryptodome primitives are sound (they are also the harness\' own oracle for "this genuine packet '
                       'verifies under its key and not under the other one")',
                       'a flipped / truncated / extended signature value is not a valid signature (no (r, n-s) ECDSA twin is produced)',
                       'UdpFace is exercised over a scripted datagram endpoint (loop.create_datagram_endpoint replaced), not a socket']
    parts = [x for x in os.environ.get('X03_PARTS', ','.join(PARTS)).split(',') if x]
    if 'val' in parts:
        validators(ctx)
    if 'kcreg' in parts:
        from harness import kcregkit
        kcregkit.check(ctx)
    if 'face' in parts:
        from harness import facekit
        facekit.check(ctx)


def replay(ctx, path):
    with open(path) as f:
        obj = json.load(f)
    kind = obj.get('kind')
    if kind == 'kcreg':
        from harness import kcregkit
        return kcregkit.replay(ctx, obj)
    if kind == 'face':
        from harness import facekit
        return facekit.replay(ctx, obj)
    if kind != 'val':
        print(json.dumps(obj, indent=1)[:4000])
        return 0
    keys = valkit.Keys(obj['seed'])
    with Session() as sess:
        world = valkit.World(keys, sess, kname=obj['K'], rng=random.Random(obj['seed']))
        wire = world.build(obj['p'], obj['bs'], obj['cs'], obj.get('size', 'mix'))
        print('checker: %s\npacket:  %s\nkey name %s, %d bytes%s' % (json.dumps(obj['c']), json.dumps(obj['p']), obj['K'], len(wire),
                                                                  ': ' + wire.hex() if len(wire) <= 2000 else ''))
        name, sig = world.parse(wire)
        if name is None:
            print('the library does not parse it: %s' % sig)
            return 1
        obs = world.observe(obj['c'], name, sig)
    print('library: %s' % json.dumps(obs))
    results, rejected = urikit.judge_batches('ValidatorsJudge', JUDGE_CFG, 'x03-replay', [{'c': obj['c'], 'p': obj['p'], 'obs': obs}], 10, 1)
    print('model: %s' % (json.dumps(expected_from(rejected[0], obs)) if rejected else 'agrees'))
    return 1 if rejected else 0
