"""C04 - incoming Interests reach exactly the handler of their longest attached prefix; refused
duplicate attach; detach isolation; truthful, deadline-bound reply callback.
Spec: NdnFib.tla (NdnFibMC configurations, NdnFibTrace). See harness/fibcheck.py."""
import json
from harness import fibcheck as fc, fibkit, judge, tlc


def run(ctx):
    ctx.rule = ('A: TLC exhaustive on NdnFib (routing over a 5-name tree incl. the root, all attach/dup/detach '
                'histories up to MaxOps; reply timing vs deadline); B: transition cover of the NdnFib graph executed on '
                'both front-ends with every name representation; C: random histories on an 8-name tree; B and C judged '
                'by TLC (NdnFibTrace). non-trivial = distinct schedule with >=1 Attach, >=1 RecvInterest, >=3 events')
    ctx.assumptions = ['virtual-time loop', 'handler identity is observed through harness closures',
                       'attached-handler count read from the private tries (_fib / _prefix_tree)']
    if 'A' in ctx.stages:
        cfgs = [('v2 routing tree ops<=%d' % ctx.pick(3, 4), fc.mc_cfg('fib-A-route', 'v2', 'tree', 'route', 'v2two', 2, 0, ctx.pick(3, 4))),
                ('v2 reply timing', fc.mc_cfg('fib-A-reply', 'v2', 'small', 'reply', 'v2two', 2, 3, 1, reps=ctx.pick(2, 3))),
                ('legacy routing tree ops<=3', fc.mc_cfg('fib-A-route-l', 'legacy', 'tree', 'route', 'legacy', 2, 0, 3))]
        fc.stage_a(ctx, cfgs)
        impl_refinement(ctx)
    if 'B' in ctx.stages:
        for front, V in (('v2', 'v2two'), ('legacy', 'legacy')):
            cfgp = fc.mc_cfg('fib-B-route-' + front, front, 'tree', 'route', V, 1, 0, 3, R='Rep_all', invs=[], props=[])
            fc.stage_b(ctx, front, cfgp, 'routing 1 Interest ops<=3 all representations', max_paths=ctx.pick(800, 15000),
                       graph_key='route-' + front)
        cfgp = fc.mc_cfg('fib-B-reply', 'v2', 'small', 'reply', 'v2two', ctx.pick(1, 2), 3, 1, reps=2, invs=[], props=[])
        fc.stage_b(ctx, 'v2', cfgp, 'reply timing', max_paths=ctx.pick(800, 15000))
    if 'C' in ctx.stages:
        for front in ('v2', 'legacy'):
            fc.stage_c(ctx, front, ctx.pick(300, 4000), 40)
            fc.stage_c_long(ctx, front, ctx.pick(2, 12))
    dispatcher_check(ctx)
    dispatcher_traces(ctx)


IMPL_INVS = ['NodeHasCallback', 'NoAlias', 'TaskNodeStable', 'NoGarbage', 'CallsResolved', 'CallsOnce', 'NoInternalError',
             'ReplyBinds', 'AbsTypeOK']
IMPL_PROPS = ['RefinesInit', 'Refines', 'ReplyInTimeImpl']
IMPL_WITNESSES = ['W_StaleNode', 'W_ReplacedCalled', 'W_DetachBeforeStart']
IMPL_ACTIONS = ['IAttach', 'IAttachDup', 'IDetach', 'IDispatch', 'ITaskStart', 'IValReturn', 'IReply', 'ITick', 'IShutdown',
                'IConnect']
_ROUTE = ('IAttach', 'IAttachDup', 'IDetach', 'IDispatch', 'ITaskStart', 'IValReturn', 'IShutdown', 'IConnect')
_REPLY = ('IAttach', 'IDispatch', 'ITaskStart', 'IValReturn', 'IReply', 'ITick', 'IShutdown', 'IConnect')
# label -> (Front, Names, IntTemplates, MaxInts, MaxT, MaxOps, MaxReplies, Verdicts, Vals), actions that must be taken
IMPL_CFGS = {
    'route v2: nested pair, 2 Interests, ops<=3': (('v2', 'nest', 'small', 2, 0, 3, 0, 'two', 'both'), _ROUTE),
    'reply v2: 2 Interests, MaxT 2, 2 replies': (('v2', 'nest', 'small', 2, 2, 1, 2, 'two', 'yes'), _REPLY),
    'route legacy: nested pair, 1 Interest, ops<=3': (('legacy', 'nest', 'small', 1, 0, 3, 0, 'leg', 'both'), _ROUTE),
}
IMPL_CFGS_THOROUGH = {
    'full v2: root + nested pair, 2 Interests, MaxT 1, ops<=3, 1 reply': (('v2', 'root3', 'small', 2, 1, 3, 1, 'two', 'both'), ()),
    'tree v2: 5-name tree, 2 Interests, ops<=3': (('v2', 'tree', 'tree', 2, 0, 3, 0, 'two', 'both'), ()),
    'tree v2: 5-name tree, 1 Interest, ops<=4': (('v2', 'tree', 'tree', 1, 0, 4, 0, 'two', 'both'), ()),
    'ints3 v2: nested pair, 3 Interests, all verdicts, MaxT 1, ops<=2, 1 reply': (('v2', 'nest', 'small', 3, 1, 2, 1, 'all', 'both'), ()),
    'tree legacy: 5-name tree, 1 Interest, ops<=4': (('legacy', 'tree', 'tree', 1, 0, 4, 0, 'leg', 'both'), ()),
    'full legacy: root + nested pair, 2 Interests, MaxT 1, ops<=3': (('legacy', 'root3', 'small', 2, 1, 3, 0, 'leg', 'both'), ()),
}
# switch -> (configuration it is run on, structural invariants one of which must catch it)
IMPL_BUGS = {
    'BugDetachKeepsNode': ('route v2: nested pair, 2 Interests, ops<=3', ('NodeHasCallback',)),
    'BugRelookup': ('route v2: nested pair, 2 Interests, ops<=3', ('CallsResolved',)),
    'BugSharedReplyVars': ('reply v2: 2 Interests, MaxT 2, 2 replies', ('ReplyBinds', 'ReplyInTimeImpl')),
    'BugDupOverwrites': ('route v2: nested pair, 2 Interests, ops<=3', ('TaskNodeStable', 'CallsResolved')),
}


def impl_cfg(name, dims, bug='NoBug', invs=IMPL_INVS, props=IMPL_PROPS):
    import os
    front, N, I, ints, maxt, ops, reps, V, vals = dims
    p = os.path.join(tlc.BUILD, name + '.cfg')
    tlc.write_cfg(p, spec='ISpec',
                  constants={'Front': '"%s"' % front, 'Names': '<- N_' + N, 'IntTemplates': '<- I_' + I, 'MaxInts': ints,
                             'MaxT': maxt, 'MaxOps': ops, 'MaxReplies': reps, 'Verdicts': '<- V_' + V, 'Vals': '<- Val_' + vals,
                             'Bug': '<- ' + bug},
                  invariants=invs, properties=props)
    return p


def impl_refinement(ctx):
    """NdnFibImpl (trie of node objects with callback / validator / extra_param, submit_interest tasks holding a node
    reference, reply closures with captured deadline and token, both front-ends) refines NdnFib and keeps its structural
    invariants; every action of the structure is taken; the situations it exists for are reachable (witnesses); each
    defect re-created by a Bug switch must give TLC a counterexample - against Refines alone and against the structural
    invariants alone (otherwise the design-level check would be blind to that kind of defect)."""
    from concurrent.futures import ThreadPoolExecutor
    jobs = []          # (kind, label, expected, thunk); all of these are small and run side by side
    for k, (label, (dims, need)) in enumerate(IMPL_CFGS.items()):
        p = impl_cfg('fibimpl-q%d' % k, dims)
        jobs.append(('check', label, need,
                     lambda p=p: tlc.run('NdnFibImplMC', p, coverage=True, workers=4, timeout=3000, tag='fibimpl')))
    for bug, (label, invs) in IMPL_BUGS.items():
        dims = IMPL_CFGS[label][0]
        pr = impl_cfg('fibimpl-%s-ref' % bug, dims, bug, invs=[], props=['RefinesInit', 'Refines'])
        pi = impl_cfg('fibimpl-%s-inv' % bug, dims, bug, invs=IMPL_INVS, props=['ReplyInTimeImpl'])
        # one worker: breadth-first, the first (shortest) counterexample is the same in every run
        jobs.append(('bug', bug, ('Refines',), lambda p=pr, b=bug: tlc.run('NdnFibImplMC', p, workers=1, heavy=False, timeout=600, tag='fi-' + b)))
        jobs.append(('bug', bug, invs, lambda p=pi, b=bug: tlc.run('NdnFibImplMC', p, workers=1, heavy=False, timeout=600, tag='fi-' + b)))
    wlabel = 'route v2: nested pair, 2 Interests, ops<=3'
    for w in IMPL_WITNESSES:
        pw = impl_cfg('fibimpl-%s' % w, IMPL_CFGS[wlabel][0], invs=[w], props=[])
        jobs.append(('witness', w, (w,), lambda p=pw, w=w: tlc.run('NdnFibImplMC', p, workers=1, heavy=False, timeout=600, tag='fi-' + w)))
    with ThreadPoolExecutor(6) as ex:
        results = list(ex.map(lambda j: j[3](), jobs))
    if not ctx.quick:
        # the larger configurations one after the other.  Without -coverage (measured: it triples the run time, 26 s ->
        # 82 s for 2.4e5 states): that every action is taken is established on the small configurations above, which
        # run in both tiers; a larger configuration must at least be larger than the small ones (not vacuous by a slip
        # in its constants)
        floor = max(r.distinct for (k, _, _, _), r in zip(jobs, results) if k == 'check')
        for k, (label, (dims, need)) in enumerate(IMPL_CFGS_THOROUGH.items()):
            p = impl_cfg('fibimpl-t%d' % k, dims)
            r = tlc.run('NdnFibImplMC', p, workers=8, timeout=6000, tag='fibimpl')
            if not r.violated and r.distinct <= floor:
                raise tlc.MachineryError('vacuous: NdnFibImpl configuration %s has only %d states' % (label, r.distinct))
            jobs.append(('check', label, (), None))
            results.append(r)
    cov_total = {}
    for (kind, label, expect, _), r in zip(jobs, results):
        if kind == 'check':
            ctx.add_tlc('NdnFibImpl refines NdnFib: ' + label, r)
            if r.violated:
                ctx.violation('C04/spec/NdnFibImpl/%s' % r.violated, 'TLC: %s violated in NdnFibImpl (%s)' % (r.violated, label),
                              {'trace': r.errtrace})
                continue
            for a in expect:
                if r.coverage.get(a, (0, 0))[1] == 0:
                    raise tlc.MachineryError('vacuous: NdnFibImpl action %s never taken (%s)' % (a, label))
            for a, (d, t) in r.coverage.items():
                cov_total[a] = cov_total.get(a, 0) + t
        elif kind == 'bug':
            if r.violated not in expect:
                raise tlc.MachineryError('NdnFibImpl with %s should violate %s but TLC reported %r' % (label, '/'.join(expect), r.violated))
            ctx.note('NdnFibImpl with %s: TLC counterexample for %s after %d states (expected)' % (label, r.violated, r.generated))
        elif r.violated != label:
            raise tlc.MachineryError('NdnFibImpl witness %s not reachable (TLC reported %r)' % (label, r.violated))
    if not any(v.violated for (k, _, _, _), v in zip(jobs, results) if k == 'check'):
        for a in IMPL_ACTIONS:
            if cov_total.get(a, 0) == 0:
                raise tlc.MachineryError('vacuous: NdnFibImpl action %s never taken in stage A' % a)
    ctx.extra.setdefault('action_coverage', {}).update({'FibImpl.' + k: v for k, v in cov_total.items() if k in IMPL_ACTIONS})


def dispatcher_traces(ctx):
    """The Dispatcher is also judged by TLC: the routing schedules of stage B (plain Interests only, no shutdown) and
    random histories are executed on it through the same events and validated against NdnFib (v2 semantics without
    validators)."""
    if 'B' in ctx.stages and 'route-v2' in fc._GRAPHS:
        g, paths = fc._GRAPHS['route-v2']
        sel = paths if len(paths) <= ctx.pick(600, 6000) else ctx.rng.sample(paths, ctx.pick(600, 6000))
        recs = []
        for init, path in sel:
            sched = [e for e in fc.events_of_path(path) if e['a'] in ('Attach', 'AttachDup', 'Detach', 'RecvInterest')]
            # the schedule may detach after a (dropped) Shutdown: keep only the prefix before the first Shutdown
            cut = next((k for k, (a, _, _) in enumerate(path) if a == 'Shutdown'), None)
            if cut is not None:
                sched = [e for e in fc.events_of_path(path[:cut]) if e['a'] in ('Attach', 'AttachDup', 'Detach', 'RecvInterest')]
            if sched:
                recs.append({'ev': fibkit.run_schedule('dispatcher', sched)})
        ctx.traces += len(recs)
        ctx.evaluations += len(recs)
        ctx.note('Dispatcher: %d routing schedules executed and judged by NdnFibTrace' % len(recs))
        judge.judge(ctx, 'NdnFibTrace', lambda dev: fc.trace_cfg('dispatcher'), recs, 'dispatcher', 'fibD-%s' % ctx.prop)


def dispatcher_check(ctx):
    """ndn.app_support.dispatcher.Dispatcher uses the same name tree: random register/unregister histories,
    longest-prefix dispatch compared with the declarative definition (max-length registered prefix)."""
    from ndn.app_support.dispatcher import Dispatcher
    from ndn import encoding as enc
    rng = ctx.rng
    for _ in range(ctx.pick(200, 3000)):
        d = Dispatcher()
        reg = {}
        log = []
        for step in range(12):
          try:
              n = rng.choice(fc.NAMES)
              if tuple(n) in reg and rng.random() < 0.5:
                  d.unregister(fibkit.name_repr(n, rng.choice(fc.REPRS)))
                  del reg[tuple(n)]
              elif tuple(n) in reg:
                  try:
                      d.register(fibkit.name_repr(n, rng.choice(fc.REPRS)), lambda *a: None)
                      ctx.violation('C04/Dispatcher/register-dup/accepted', 'duplicate registration accepted', {'reg': sorted(reg)})
                  except ValueError:
                      pass
              else:
                  h = len(log) + step * 100
                  d.register(fibkit.name_repr(n, rng.choice(fc.REPRS)), (lambda hh: (lambda name, p, ap: log.append(hh)))(h))
                  reg[tuple(n)] = h
              q = rng.choice(fc.NAMES[1:]) + rng.choice([[], ['x']])
              cands = [k for k in reg if list(k) == q[:len(k)]]
              before = len(log)
              ret = d.dispatch(enc.Name.from_str(fibkit.nm(q)), enc.InterestParam(), None)
              want = reg[max(cands, key=len)] if cands else None
              got = log[before:] if len(log) > before else []
              ctx.evaluations += 1
              if (want is None and (ret or got)) or (want is not None and (not ret or got != [want])):
                  ctx.violation('C04/Dispatcher/dispatch/wrong-handler', 'dispatch(%s) -> %s, expected %s' % (q, got, want),
                                {'reg': {'/'.join(k): v for k, v in reg.items()}, 'q': q})
          except Exception as ex:  # noqa
            ctx.violation('C04/Dispatcher/raised:%s' % type(ex).__name__, 'Dispatcher raised %r' % (ex,), {'reg': sorted('/'.join(k) for k in reg)})
            break


def replay(ctx, path):
    with open(path) as f:
        obj = json.load(f)
    if obj.get('kind') != 'trace':
        print(json.dumps(obj, indent=1)[:4000])
        return 0
    front = obj['front']
    sched = [{k: v for k, v in e.items() if k not in ('post', 'raised')} for e in obj['rec']['ev']]
    bad = 0
    for mode in ('debug logging', 'quiet'):          # harness.appkit.log_mode alternates between the two
        rec = {'ev': fibkit.run_schedule(front, sched)}
        rej = judge.validate(ctx, 'NdnFibTrace', fc.trace_cfg(front), [rec], 'replay')
        for i, lno in rej:
            print('rejected at event', lno, json.dumps(rec['ev'][lno - 1] if lno else None))
        print('re-executed on the current tree (%s): %s' % (mode, 'REJECTED' if rej else 'accepted'))
        bad += 1 if rej else 0
    return 1 if bad else 0
